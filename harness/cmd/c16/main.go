// C16: condition.Build(expr).Match(req) vs the grammar model CondParse.v (table generated from cond.y).
// input : [[tok...] env ws]   tok: 0..63 atom n, 100 &&, 101 ||, 102 !, 103 (, 104 )
// output: 0/1 (Match) or [-1 1] (Build error)
package main

import (
	"fmt"
	"net/url"
	"strings"

	"verif/harness/hv"

	"github.com/bfenetworks/bfe/bfe_basic"
	"github.com/bfenetworks/bfe/bfe_basic/condition"
	"github.com/bfenetworks/bfe/bfe_http"
	"github.com/bfenetworks/bfe/bfe_tls"
)

const nAtoms = 14 // 0..11 request primitives, 12 default_t(), 13 ses_tls_client_auth()

// atom n is rendered as one of four primitive families; its truth value is bit n of env
func atomText(n int, ws uint64) string {
	if n == 12 {
		return "default_t()"
	}
	if n == 13 {
		return "ses_tls_client_auth()"
	}
	switch n % 4 {
	case 0:
		return fmt.Sprintf(`req_header_key_in("H%d")`, n)
	case 1:
		return fmt.Sprintf(`req_query_key_in("q%d")`, n)
	case 2:
		if ws&1 == 1 {
			return fmt.Sprintf(`req_cookie_key_in("c%d|zz")`, n)
		}
		return fmt.Sprintf(`req_cookie_key_in("c%d")`, n)
	default:
		return fmt.Sprintf(`req_header_value_in("V%d", "yes|ja", false)`, n)
	}
}

// kind 0: complete request; 1: session-only (HttpRequest nil, the shape mod_key_log / TLS-phase callbacks build);
// 2: Session nil; 3: nil request
func mkReq(env uint64, kind int) *bfe_basic.Request {
	if kind == 3 {
		return nil
	}
	ses := &bfe_basic.Session{IsSecure: true, TlsState: &bfe_tls.ConnectionState{ClientAuth: env>>13&1 == 1}}
	if kind == 1 {
		return &bfe_basic.Request{Session: ses}
	}
	hr := &bfe_http.Request{Method: "GET", Header: bfe_http.Header{}, Proto: "HTTP/1.1", Host: "example.org"}
	var q, ck []string
	for n := 0; n < 64; n++ {
		if env>>uint(n)&1 == 0 || n == 12 || n == 13 {
			continue
		}
		switch n % 4 {
		case 0:
			hr.Header.Set(fmt.Sprintf("H%d", n), "1")
		case 1:
			q = append(q, fmt.Sprintf("q%d=1", n))
		case 2:
			ck = append(ck, fmt.Sprintf("c%d=1", n))
		default:
			hr.Header.Set(fmt.Sprintf("V%d", n), "yes")
		}
	}
	if len(ck) > 0 {
		hr.Header.Set("Cookie", strings.Join(ck, "; "))
	}
	hr.URL = &url.URL{Path: "/p", RawQuery: strings.Join(q, "&")}
	hr.RequestURI = hr.URL.RequestURI()
	req := bfe_basic.NewRequest(hr, nil, nil, ses, nil)
	if kind == 2 {
		req.Session = nil
	}
	return req
}

var seps = []string{" ", "", "  ", "\t", "\n", " // c\n", "\r\n "}

func render(toks hv.L, ws uint64) string {
	var sb strings.Builder
	s := ws
	for _, t := range toks {
		s = s*6364136223846793005 + 1442695040888963407
		sep := " "
		if ws != 0 {
			sep = seps[(s>>33)%uint64(len(seps))]
		}
		k := int(hv.AsInt(t))
		var txt string
		switch {
		case k >= 0 && k < 64:
			txt = atomText(k, ws)
		case k == 100:
			txt = "&&"
		case k == 101:
			txt = "||"
		case k == 102:
			txt = "!"
		case k == 103:
			txt = "("
		case k == 104:
			txt = ")"
		default:
			txt = "?"
		}
		sb.WriteString(txt)
		sb.WriteString(sep)
	}
	return sb.String()
}

func impl(in hv.Val) hv.Val {
	l := hv.AsList(in)
	toks := hv.AsList(l[0])
	env := uint64(hv.AsInt(l[1]))
	ws := uint64(hv.AsInt(l[2]))
	kind := 0
	if len(l) > 3 {
		kind = int(hv.AsInt(l[3]))
	}
	c, err := condition.Build(render(toks, ws))
	if err != nil {
		return hv.Err(1)
	}
	return hv.Bool(c.Match(mkReq(env, kind)))
}

// ---- generators
type node struct {
	op   int // 0 atom, 1 not, 2 and, 3 or
	n    int
	a, b *node
}

func genTree(r *hv.Rng, depth int) *node {
	if depth <= 0 || r.Chance(1, 5) {
		return &node{op: 0, n: r.Intn(nAtoms)}
	}
	switch r.Intn(7) {
	case 0:
		return &node{op: 1, a: genTree(r, depth-1)}
	case 1, 2, 3:
		return &node{op: 2, a: genTree(r, depth-1), b: genTree(r, depth-1)}
	default:
		return &node{op: 3, a: genTree(r, depth-1), b: genTree(r, depth-1)}
	}
}

func level(e *node) int {
	switch e.op {
	case 3:
		return 1
	case 2:
		return 2
	}
	return 3
}

// mode 0: minimal parentheses for the documented precedence; extra: probability (in 1/8) of redundant
// parentheses around any sub-expression; mode 1: no parentheses at all (flat: precedence decides)
func pr(r *hv.Rng, e *node, mode, extra int, out *[]int) {
	sub := func(x *node, need bool) {
		if mode == 1 {
			need = false
		} else if !need && r.Intn(8) < extra {
			need = true
		}
		if need {
			*out = append(*out, 103)
		}
		pr(r, x, mode, extra, out)
		if need {
			*out = append(*out, 104)
		}
	}
	switch e.op {
	case 0:
		*out = append(*out, e.n)
	case 1:
		*out = append(*out, 102)
		sub(e.a, level(e.a) < 3)
	case 2:
		sub(e.a, level(e.a) < 2)
		*out = append(*out, 100)
		sub(e.b, level(e.b) <= 2)
	case 3:
		sub(e.a, false)
		*out = append(*out, 101)
		sub(e.b, level(e.b) <= 1)
	}
}

// the request shape is derived from the case's random words: ~70% complete, 15% session-only, 10% no session, 5% nil
func mk(toks []int, env uint64, ws uint64) hv.Val {
	k := (env*0x9e3779b97f4a7c15 + ws*0xd1342543de82ef95 + uint64(len(toks))*0x2545f4914f6cdd1d) >> 40 % 20
	kind := 0
	switch {
	case k >= 19:
		kind = 3
	case k >= 17:
		kind = 2
	case k >= 14:
		kind = 1
	}
	return hv.L{hv.LI(toks), hv.U(env), hv.U(ws), hv.I(kind)}
}

func gen(r *hv.Rng, i int, tier string) (string, hv.Val) {
	env := r.U64() & (1<<nAtoms - 1)
	ws := uint64(0)
	if r.Chance(1, 2) {
		ws = r.U64() >> 20
	}
	maxd := 8
	if tier == "thorough" {
		maxd = 12
	}
	var toks []int
	if r.Chance(1, 10) { // incomplete request objects: small expressions with negations over session-level atoms
		e := genTree(r, r.Range(1, 3))
		var sw func(x *node)
		sw = func(x *node) {
			if x == nil {
				return
			}
			if x.op == 0 && r.Chance(1, 2) {
				x.n = 12 + r.Intn(2)
			}
			sw(x.a)
			sw(x.b)
		}
		sw(e)
		if r.Chance(1, 2) {
			e = &node{op: 1, a: e}
		}
		pr(r, e, 0, r.Intn(2), &toks)
		return "shape", hv.L{hv.LI(toks), hv.U(env), hv.U(ws), hv.I(r.Range(1, 3))}
	}
	switch k := r.Intn(20); {
	case k < 7: // tree, minimal parentheses + some redundant ones
		e := genTree(r, r.Range(1, maxd))
		pr(r, e, 0, r.Intn(4), &toks)
		if len(toks) > 400 {
			toks = toks[:1]
		}
		return "tree", mk(toks, env, ws)
	case k < 11: // flat infix of a tree: no parentheses, mixes && and ||
		e := genTree(r, r.Range(2, 6))
		pr(r, e, 1, 0, &toks)
		if len(toks) > 400 {
			toks = toks[:1]
		}
		return "flat", mk(toks, env, ws)
	case k < 15: // operator chains  a op b op c ... with optional ! and one parenthesised group
		n := r.Range(2, 9)
		for j := 0; j < n; j++ {
			if j > 0 {
				toks = append(toks, 100+r.Intn(2))
			}
			for r.Chance(1, 4) {
				toks = append(toks, 102)
			}
			toks = append(toks, r.Intn(nAtoms))
		}
		if r.Chance(1, 3) && n >= 3 { // wrap a random infix slice that starts and ends on operand boundaries
			toks = wrap(r, toks)
		}
		return "chain", mk(toks, env, ws)
	case k < 16: // all 3-operand mixes exhaustively often: a op1 b op2 c with all env over 3 atoms
		o1, o2 := 100+r.Intn(2), 100+r.Intn(2)
		toks = []int{0, o1, 1, o2, 2}
		if r.Chance(1, 3) {
			toks = []int{102, 0, o1, 102, 1, o2, 2}
		}
		return "mix3", mk(toks, uint64(r.Intn(8)), ws)
	case k < 18: // mutated valid expression: drop / duplicate / replace one token
		e := genTree(r, r.Range(1, 5))
		pr(r, e, 0, r.Intn(3), &toks)
		j := r.Intn(len(toks))
		switch r.Intn(3) {
		case 0:
			toks = append(toks[:j:j], toks[j+1:]...)
		case 1:
			toks = append(toks[:j+1:j+1], toks[j:]...)
		default:
			toks[j] = []int{100, 101, 102, 103, 104, r.Intn(nAtoms)}[r.Intn(6)]
		}
		return "mutated", mk(toks, env, ws)
	default: // token soup
		n := r.Range(0, 10)
		for j := 0; j < n; j++ {
			toks = append(toks, []int{100, 101, 102, 103, 104, r.Intn(nAtoms), r.Intn(nAtoms)}[r.Intn(7)])
		}
		cl := "soup"
		if n == 0 {
			cl = "triv-empty"
		}
		return cl, mk(toks, env, ws)
	}
}

func wrap(r *hv.Rng, toks []int) []int {
	// operand start positions: indices where an operand (with its ! prefixes) starts; ends: atom indices
	var starts, ends []int
	for j, t := range toks {
		if t < 64 {
			ends = append(ends, j)
		}
		if (t < 64 || t == 102) && (j == 0 || toks[j-1] == 100 || toks[j-1] == 101) {
			starts = append(starts, j)
		}
	}
	a := r.Intn(len(starts))
	b := a + r.Intn(len(ends)-a)
	s, e := starts[a], ends[b]
	out := append([]int{}, toks[:s]...)
	out = append(out, 103)
	out = append(out, toks[s:e+1]...)
	out = append(out, 104)
	out = append(out, toks[e+1:]...)
	return out
}

func main() {
	hv.Main(&hv.Spec{Prop: "C16", Gen: gen, Impl: impl, NQuick: 6000, NThorough: 200000})
}
