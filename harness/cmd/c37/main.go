// C37: HTTP/2 control-frame floods are bounded.
//
// A scripted client talks to the real bfe_http2 server (Server.ServeConn over net.Pipe), stops reading at a chosen
// point and then floods the server with frames that elicit control frames (PING, SETTINGS, DATA on unknown streams ->
// WINDOW_UPDATE + RST_STREAM) or touch the scheduler (requests with blocked handlers, RST_STREAM).  After every
// operation the hook samples, ON the serve goroutine, queuedControlFrames and the real content of writeSched.
// See coq/run/RunC37.v for the wire format.
package main

import (
	"bytes"
	"encoding/binary"
	"io"
	"net"
	"sync"
	"time"

	"verif/harness/hv"

	"github.com/baidu/go-lib/web-monitor/metrics"
	bfe_http "github.com/bfenetworks/bfe/bfe_http"
	"github.com/bfenetworks/bfe/bfe_http2"
	"github.com/bfenetworks/bfe/bfe_http2/hpack"
)

const marker = 999999999

var (
	initOnce sync.Once
	conns    <-chan *bfe_http2.VerifC37Conn
	limit    = bfe_http2.VerifC37Limit()
)

func pingPayload(id uint64) (p [8]byte) { binary.BigEndian.PutUint64(p[:], id); return }

type client struct {
	c    net.Conn
	sc   *bfe_http2.VerifC37Conn
	seq  uint32 // barrier sequence
	dead bool   // a write failed: the server closed the connection
}

func (cl *client) send(b []byte) {
	if cl.dead {
		return
	}
	cl.c.SetWriteDeadline(time.Now().Add(60 * time.Second))
	if _, err := cl.c.Write(b); err != nil {
		cl.dead = true
	}
}

// barrier: a SETTINGS frame with a fresh MAX_CONCURRENT_STREAMS value; once the serve goroutine shows that value (or has
// returned) every frame sent before has been processed.
func (cl *client) barrier() (bfe_http2.VerifC37State, bool) {
	cl.seq++
	var b bytes.Buffer
	fr := bfe_http2.NewFramer(&b, nil)
	fr.WriteSettings(bfe_http2.Setting{ID: bfe_http2.SettingMaxConcurrentStreams, Val: 100000 + cl.seq})
	cl.send(b.Bytes())
	return cl.waitFor(func(s bfe_http2.VerifC37State) bool { return s.ClientMaxStr == 100000+cl.seq })
}

func (cl *client) waitFor(ok func(bfe_http2.VerifC37State) bool) (bfe_http2.VerifC37State, bool) {
	deadline := time.Now().Add(90 * time.Second)
	for {
		s := cl.sc.VerifC37Sample()
		if s.Closed || ok(s) {
			return s, true
		}
		if time.Now().After(deadline) {
			return s, false
		}
		time.Sleep(20 * time.Microsecond)
	}
}

func sampleVal(s bfe_http2.VerifC37State) hv.Val {
	cl := 0
	if s.Closed {
		cl = 1
	}
	return hv.L{hv.I(s.Queued), hv.I(s.ZeroLen), hv.I(s.StreamQ), hv.I(cl)}
}

func impl(in hv.Val) hv.Val {
	initOnce.Do(func() {
		var m metrics.Metrics
		m.Init(bfe_http2.GetHttp2State(), "h2", 0)
		conns = bfe_http2.VerifC37Install()
	})
	args := hv.AsList(in)
	stall := int(hv.AsInt(args[1]))
	ops := hv.AsList(args[2])

	release := make(chan bool)
	defer close(release)
	h := bfe_http.HandlerFunc(func(w bfe_http.ResponseWriter, r *bfe_http.Request) {
		w.WriteHeader(200)
		w.(bfe_http.Flusher).Flush() // one HEADERS frame; blocks while the client does not read
		<-release
	})
	closeNotify := make(chan bool) // closed by op [9]: graceful shutdown -> GOAWAY(NO_ERROR)
	inGoAway := false
	cc, srv := net.Pipe()
	defer cc.Close()
	go (&bfe_http2.Server{}).ServeConn(srv, &bfe_http2.ServeConnOpts{
		BaseConfig: &bfe_http.Server{ReadTimeout: 300 * time.Second, WriteTimeout: 300 * time.Second,
			CloseNotifyCh: closeNotify, GracefulShutdownTimeout: 30 * time.Minute},
		Handler: h,
	})
	cl := &client{c: cc}
	select {
	case cl.sc = <-conns:
	case <-time.After(30 * time.Second):
		return hv.Err(1)
	}

	var b bytes.Buffer
	fr := bfe_http2.NewFramer(&b, nil)
	b.WriteString(bfe_http2.ClientPreface)
	fr.WriteSettings()
	cl.send(b.Bytes())

	// phase 1: the client reads until the ack of its last prefix PING, then never again (stall = 0: never reads)
	if stall > 0 {
		got := make(chan bool, 1)
		go func() {
			rf := bfe_http2.NewFramer(io.Discard, cc)
			for {
				f, err := rf.ReadFrame()
				if err != nil {
					got <- false
					return
				}
				if pf, ok := f.(*bfe_http2.PingFrame); ok && pf.IsAck() && pf.Data[0] == 0xee && int(pf.Data[7]) == stall-1 {
					got <- true
					return
				}
			}
		}()
		for k := 0; k < stall; k++ {
			b.Reset()
			fr.WritePing(false, [8]byte{0xee, 0, 0, 0, 0, 0, 0, byte(k)})
			cl.send(b.Bytes())
		}
		select {
		case ok := <-got:
			if !ok {
				return hv.Err(2)
			}
		case <-time.After(30 * time.Second):
			return hv.Err(3)
		}
		// plug: a SETTINGS frame; its ack is written into the write buffer and the flush of that buffer blocks.
		// "value visible && ack no longer pending && flush in flight && nothing queued" can only hold once that ack
		// has been written, i.e. for the flush that carries it.
		cl.seq++
		b.Reset()
		fr.WriteSettings(bfe_http2.Setting{ID: bfe_http2.SettingMaxConcurrentStreams, Val: 100000 + cl.seq})
		cl.send(b.Bytes())
	}
	want := uint32(0)
	if stall > 0 {
		want = 100000 + cl.seq
	}
	s0, ok := cl.waitFor(func(s bfe_http2.VerifC37State) bool {
		if stall > 0 && (s.ClientMaxStr != want || s.NeedAck) {
			return false
		}
		return s.Writing && !s.NeedsFlush && s.ZeroLen == 0 && s.StreamQ == 0
	})
	if !ok {
		return hv.Err(4)
	}
	out := hv.L{sampleVal(s0)}

	nextID := uint64(1)
	streamQ := 0
	for _, o := range ops {
		l := hv.AsList(o)
		tag := int(hv.AsInt(l[0]))
		b.Reset()
		switch tag {
		case 1:
			for n := int(hv.AsInt(l[1])); n > 0; n-- {
				fr.WritePing(false, pingPayload(nextID))
				nextID++
			}
		case 2:
			for n := int(hv.AsInt(l[1])); n > 0; n-- {
				fr.WritePing(true, pingPayload(7))
				nextID++
			}
		case 3:
			for n := int(hv.AsInt(l[1])); n > 0; n-- {
				fr.WriteSettings()
				nextID++
			}
		case 4:
			for n := int(hv.AsInt(l[1])); n > 0; n-- {
				fr.WriteData(uint32(hv.AsInt(l[2])), false, []byte{0x55})
				nextID++
			}
		case 5:
			var hb bytes.Buffer
			enc := hpack.NewEncoder(&hb)
			enc.WriteField(hpack.HeaderField{Name: ":method", Value: "GET"})
			enc.WriteField(hpack.HeaderField{Name: ":scheme", Value: "https"})
			enc.WriteField(hpack.HeaderField{Name: ":authority", Value: "verif.test"})
			enc.WriteField(hpack.HeaderField{Name: ":path", Value: "/"})
			fr.WriteHeaders(bfe_http2.HeadersFrameParam{StreamID: uint32(hv.AsInt(l[1])), BlockFragment: hb.Bytes(), EndStream: true, EndHeaders: true})
		case 6:
			fr.WriteRSTStream(uint32(hv.AsInt(l[1])), bfe_http2.ErrCodeCancel)
		case 9: // graceful shutdown
			if !inGoAway {
				close(closeNotify)
				inGoAway = true
				if s, ok := cl.waitFor(func(s bfe_http2.VerifC37State) bool { return s.InGoAway }); !ok && !s.Closed {
					return hv.Err(8)
				}
			}
		case 8: // overflows the send window of an open stream: stream error, the server resets the stream
			fr.WriteWindowUpdate(uint32(hv.AsInt(l[1])), 1<<31-1)
		case 7:
			s := cl.sc.VerifC37Sample()
			if s.Closed || cl.dead || s.Queued >= limit {
				// (at the limit the marker PING itself would race with the draining writer for the limit check)
				out = append(out, hv.L{hv.I(7), hv.L{}})
				sd, ok := cl.barrier()
				if !ok {
					return hv.Err(7)
				}
				out = append(out, sampleVal(sd))
				continue
			}
			out = append(out, drain(cl, fr, &b, s.StreamQ))
			// everything queued has been written: the counters must be back to zero
			sd, ok := cl.barrier()
			if !ok {
				return hv.Err(7)
			}
			out = append(out, sampleVal(sd))
			continue
		}
		cl.send(b.Bytes())
		if tag == 5 && !inGoAway { // (requests after GOAWAY are ignored by the server)
			// the handler's HEADERS frame reaches the scheduler asynchronously: wait for it
			want := streamQ + 1
			if s, ok := cl.waitFor(func(s bfe_http2.VerifC37State) bool { return s.StreamQ == want }); !ok && !s.Closed {
				return hv.Err(5)
			}
		}
		s, ok := cl.barrier()
		if !ok {
			return hv.Err(6)
		}
		streamQ = s.StreamQ
		out = append(out, sampleVal(s))
	}
	return out
}

// drain: read everything the server had queued, up to the ack of a marker PING
// and until the HEADERS frames of the wantHeaders blocked handlers have arrived (the stream queues are empty then)
func drain(cl *client, fr *bfe_http2.Framer, b *bytes.Buffer, wantHeaders int) hv.Val {
	res := make(chan hv.L, 1)
	go func() {
		tags := hv.L{}
		headers, sawMarker := 0, false
		rf := bfe_http2.NewFramer(io.Discard, cl.c)
		cl.c.SetReadDeadline(time.Now().Add(60 * time.Second))
		for {
			if sawMarker && headers >= wantHeaders {
				res <- hv.L{hv.I(7), tags}
				return
			}
			f, err := rf.ReadFrame()
			if err != nil {
				res <- hv.L{hv.I(7), append(tags, hv.I(-3))}
				return
			}
			switch f := f.(type) {
			case *bfe_http2.HeadersFrame:
				headers++
			case *bfe_http2.PingFrame:
				if f.IsAck() && f.Data[0] != 0xee {
					id := binary.BigEndian.Uint64(f.Data[:])
					tags = append(tags, hv.U(id))
					if id == marker {
						sawMarker = true
					}
				}
			case *bfe_http2.GoAwayFrame:
				tags = append(tags, hv.I(-2000000000))
			case *bfe_http2.RSTStreamFrame:
				tags = append(tags, hv.I(-int(f.StreamID)))
			case *bfe_http2.WindowUpdateFrame:
				if f.StreamID == 0 && f.Increment < 1000 {
					tags = append(tags, hv.I(0))
				}
			}
		}
	}()
	b.Reset()
	fr.WritePing(false, pingPayload(marker))
	cl.send(b.Bytes())
	return <-res
}

// ---- generator

func unknownSid(r *hv.Rng) int { return []int{1001, 2002, 77, 4}[r.Intn(4)] }

func gen(r *hv.Rng, i int, tier string) (string, hv.Val) {
	stall := 0
	if r.Chance(2, 3) {
		stall = r.Range(1, 4)
	}
	var ops hv.L
	class := "small"
	total := 0 // control frames elicited so far (upper bound)
	nextSid := 1
	var open []int
	addFlood := func(n int) {
		switch r.Intn(6) {
		case 0, 1, 2:
			ops = append(ops, hv.L{hv.I(1), hv.I(n)})
			total += n
		case 3:
			ops = append(ops, hv.L{hv.I(4), hv.I(n / 2), hv.I(unknownSid(r))})
			total += 2 * (n / 2)
		case 4:
			ops = append(ops, hv.L{hv.I(3), hv.I(n)})
		default:
			ops = append(ops, hv.L{hv.I(2), hv.I(n)})
		}
	}
	nFlood := 0 // at most one long flood per case, and only in an eighth of the cases: keeps the quick tier short
	if !r.Chance(1, 8) {
		nFlood = 1
	}
	nops := r.Range(1, 7)
	goAwayAt := -1 // a third of the cases: graceful shutdown (GOAWAY NO_ERROR) somewhere in the script
	if r.Chance(1, 3) {
		goAwayAt = r.Intn(nops)
	}
	for j := 0; j < nops; j++ {
		if j == goAwayAt {
			ops = append(ops, hv.L{hv.I(9)})
			if class == "small" {
				class = "goaway"
			}
		}
		switch c := r.Intn(12); {
		case c < 5:
			addFlood(r.Range(0, 40))
		case c < 7 && nFlood == 0: // up to / across the limit
			nFlood++
			k := limit - total
			if k < 0 {
				k = 0
			}
			switch r.Intn(5) {
			case 0:
				ops = append(ops, hv.L{hv.I(1), hv.I(k)}) // exactly the limit: must stay open
				total += k
				class = "at-limit"
			case 1:
				ops = append(ops, hv.L{hv.I(1), hv.I(k + 1)}) // one more: closed
				total += k + 1
				class = "limit+1"
			case 2:
				ops = append(ops, hv.L{hv.I(1), hv.I(k + r.Range(2, 300))})
				total += k + 300
				class = "over"
			case 3: // two control frames per iteration across the limit
				ops = append(ops, hv.L{hv.I(4), hv.I(k/2 + r.Range(0, 3)), hv.I(unknownSid(r))})
				total += k + 6
				class = "over-by-2"
			default:
				ops = append(ops, hv.L{hv.I(1), hv.I(k - r.Range(1, 50))})
				total += k
				class = "below-limit"
			}
		case c < 9:
			if nextSid < 40 {
				ops = append(ops, hv.L{hv.I(5), hv.I(nextSid)})
				open = append(open, nextSid)
				nextSid += 2
			}
		case c < 11:
			if len(open) > 0 {
				k := r.Intn(len(open))
				if r.Chance(1, 2) {
					ops = append(ops, hv.L{hv.I(6), hv.I(open[k])})
				} else {
					ops = append(ops, hv.L{hv.I(8), hv.I(open[k])})
					total++
				}
				open = append(open[:k], open[k+1:]...)
			} else if r.Chance(1, 2) {
				ops = append(ops, hv.L{hv.I(8), hv.I(unknownSid(r))}) // not open: ignored
			}
		default:
			addFlood(r.Range(100, 600))
		}
	}
	if r.Chance(3, 4) {
		ops = append(ops, hv.L{hv.I(7)})
	}
	if len(ops) == 0 {
		class = "triv"
	}
	return class, hv.L{hv.I(limit), hv.I(stall), ops}
}

func main() {
	hv.Main(&hv.Spec{Prop: "C37", Gen: gen, Impl: impl, NQuick: 400, NThorough: 20000, Deadline: 300 * time.Second})
}
