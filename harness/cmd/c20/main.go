// C20: hash_set.HashSet (Add/Remove/Exist/Len) vs model HashSet.v.
// input : [cap ksz fixed hashkind [op...] haSize]   (haSize read off a real set by the generator)  op = [1 xKey h] [2 xKey h] [3 xKey h] [4]
// output: [[obs...] [[ha...] [next...] free length [xSlot...]]]  or [-1 1] when NewHashSet fails
package main

import (
	"hash/fnv"
	"strings"
	"time"

	"verif/harness/hv"

	"github.com/bfenetworks/bfe/bfe_util/byte_pool"
	"github.com/bfenetworks/bfe/bfe_util/hash_set"
	"github.com/spaolacci/murmur3"
)

func hashOf(kind int) func([]byte) uint64 {
	switch kind {
	case 1:
		return func([]byte) uint64 { return 7 } // degenerate: everything collides
	case 2:
		return func(k []byte) uint64 { h := fnv.New64(); h.Write(k); return h.Sum64() }
	case 3:
		return func(k []byte) uint64 { // first byte: controllable collisions
			if len(k) == 0 {
				return 0
			}
			return uint64(k[0])
		}
	case 4:
		return func(k []byte) uint64 { return ^uint64(0) - uint64(len(k)) } // near 2^64
	}
	return nil // default: murmur3.Sum64
}

func hval(kind int, k []byte) uint64 {
	if f := hashOf(kind); f != nil {
		return f(k)
	}
	return murmur3.Sum64(k)
}

func errCode(e error) int {
	if e == nil {
		return 0
	}
	s := e.Error()
	switch {
	case strings.HasPrefix(s, "hashSet: Set is full"):
		return 1
	case strings.HasPrefix(s, "element len"):
		return 2
	case strings.HasPrefix(s, "length must be"), strings.HasPrefix(s, "elemSize large"):
		return 3
	case strings.HasPrefix(s, "NodePool: no more node"):
		return 4
	}
	return 9
}

func impl(in hv.Val) hv.Val {
	p := hv.AsList(in)
	if len(p) != 6 {
		return hv.Err(0)
	}
	capN, ksz, fixed, kind := int(hv.AsInt(p[0])), int(hv.AsInt(p[1])), hv.AsBool(p[2]), int(hv.AsInt(p[3]))
	if kind == -1 {
		return implPool(capN, ksz, fixed, hv.AsList(p[4]))
	}
	set, err := hash_set.NewHashSet(capN, ksz, fixed, hashOf(kind))
	if err != nil {
		return hv.Err(1)
	}
	obs := hv.L{}
	for _, o := range hv.AsList(p[4]) {
		f := hv.AsList(o)
		switch hv.AsInt(f[0]) {
		case 1:
			obs = append(obs, hv.I(errCode(set.Add(hv.AsBytes(f[1])))))
		case 2:
			obs = append(obs, hv.I(errCode(set.Remove(hv.AsBytes(f[1])))))
		case 3:
			obs = append(obs, hv.Bool(set.Exist(hv.AsBytes(f[1]))))
		default:
			obs = append(obs, hv.I(set.Len()))
		}
	}
	ha, next, free, length, slots := set.VerifDump()
	vha, vnext, vslots := hv.L{}, hv.L{}, hv.L{}
	for _, x := range ha {
		vha = append(vha, hv.I(int(x)))
	}
	for _, x := range next {
		vnext = append(vnext, hv.I(int(x)))
	}
	for _, s := range slots {
		vslots = append(vslots, hv.B(s))
	}
	return hv.L{obs, hv.L{vha, vnext, hv.I(int(free)), hv.I(length), vslots}}
}

// pool mode: byte_pool.NewBytePool / NewFixedBytePool used directly
func implPool(n, size int, fixed bool, ops hv.L) hv.Val {
	if n <= 0 || size <= 0 {
		return hv.Err(1)
	}
	var pool byte_pool.IBytePool
	if fixed {
		pool = byte_pool.NewFixedBytePool(n, size)
	} else {
		pool = byte_pool.NewBytePool(n, size)
	}
	obs := hv.L{}
	for _, o := range ops {
		f := hv.AsList(o)
		obs = append(obs, func() (out hv.Val) {
			defer func() {
				if e := recover(); e != nil {
					out = hv.Panic()
				}
			}()
			switch hv.AsInt(f[0]) {
			case 1:
				e := pool.Set(int32(hv.AsInt(f[1])), hv.AsBytes(f[2]))
				switch {
				case e == nil:
					return hv.I(0)
				case strings.HasPrefix(e.Error(), "index out of range"):
					return hv.I(1)
				default:
					return hv.I(2)
				}
			case 2:
				return hv.B(append([]byte(nil), pool.Get(int32(hv.AsInt(f[1])))...))
			default:
				return hv.I(pool.MaxElemSize())
			}
		}())
	}
	return obs
}

func genPool(r *hv.Rng) (string, hv.Val) {
	n, size, fixed := r.Range(1, 6), r.Range(1, 4), r.Bool()
	ops := hv.L{}
	for j := r.Range(1, 40); j > 0; j-- {
		idx := r.Intn(n)
		switch r.Intn(12) {
		case 0:
			idx = n // first index out of range: Set must refuse, Get panics
		case 1:
			idx = n - 1
		case 2:
			idx = 0
		}
		switch x := r.Intn(10); {
		case x < 5:
			ln := size
			switch r.Intn(5) {
			case 0:
				ln = size + 1
			case 1:
				ln = r.Range(0, size)
			case 2:
				ln = size - 1
			}
			k := make([]byte, ln)
			for y := range k {
				k[y] = byte(1 + r.Intn(3))
			}
			ops = append(ops, hv.L{hv.I(1), hv.I(idx), hv.B(k)})
		case x < 9:
			if idx == n && r.Chance(2, 3) {
				idx = n - 1
			}
			ops = append(ops, hv.L{hv.I(2), hv.I(idx)})
		default:
			ops = append(ops, hv.L{hv.I(3)})
		}
	}
	class := "pool-var"
	if fixed {
		class = "pool-fixed"
	}
	return class, hv.L{hv.I(n), hv.I(size), hv.Bool(fixed), hv.I(-1), ops, hv.I(0)}
}

func gen(r *hv.Rng, i int, tier string) (string, hv.Val) {
	if i%6 == 5 {
		return genPool(r)
	}
	capN := r.Range(1, 8)
	ksz := r.Range(1, 4)
	fixed := r.Chance(1, 3)
	kind := r.Intn(5)
	if r.Chance(1, 60) { // invalid construction parameters
		if r.Bool() {
			capN = -r.Intn(2)
		} else {
			ksz = -r.Intn(2)
		}
		return "triv-badcfg", hv.L{hv.I(capN), hv.I(ksz), hv.Bool(fixed), hv.I(kind), hv.L{}, hv.I(1)}
	}
	// a small key universe so that re-adds, removals of members and collisions are frequent
	nk := r.Range(2, capN+4)
	keys := make([][]byte, nk)
	for j := range keys {
		n := ksz
		if !fixed {
			n = r.Range(0, ksz)
		}
		switch r.Intn(12) {
		case 0:
			n = ksz + 1 // too long
		case 1:
			n = r.Range(0, ksz) // short (refused by a fixed-length pool)
		}
		k := make([]byte, n)
		for x := range k {
			k[x] = byte(r.Intn(3)) // few distinct bytes: shared prefixes, zero bytes (= unused slot content)
		}
		keys[j] = k
	}
	nops := r.Range(1, 60)
	if r.Chance(1, 5) {
		nops = r.Range(60, 200)
	}
	ops := hv.L{}
	phaseAdd := true
	for j := 0; j < nops; j++ {
		k := keys[r.Intn(nk)]
		h := hv.U(hval(kind, k))
		if r.Chance(1, 12) {
			phaseAdd = !phaseAdd // alternate fill / drain phases so that full sets and free-list reuse occur
		}
		x := r.Intn(10)
		switch {
		case x < 4 && phaseAdd, x < 2:
			ops = append(ops, hv.L{hv.I(1), hv.B(k), h})
		case x < 4, x < 6 && !phaseAdd:
			ops = append(ops, hv.L{hv.I(2), hv.B(k), h})
		case x < 9:
			ops = append(ops, hv.L{hv.I(3), hv.B(k), h})
		default:
			ops = append(ops, hv.L{hv.I(4)})
		}
	}
	class := "var"
	if fixed {
		class = "fixed"
	}
	if kind == 1 {
		class += "-consthash"
	}
	// the number of buckets is whatever NewHashSet chooses (elemNum * LOAD_FACTOR today)
	probe, err := hash_set.NewHashSet(capN, ksz, fixed, nil)
	if err != nil {
		panic(err)
	}
	ha, _, _, _, _ := probe.VerifDump()
	return class, hv.L{hv.I(capN), hv.I(ksz), hv.Bool(fixed), hv.I(kind), ops, hv.I(len(ha))}
}

func main() {
	hv.Main(&hv.Spec{Prop: "C20", Gen: gen, Impl: impl, NQuick: 3000, NThorough: 150000,
		Deadline: 3 * time.Second}) // a corrupted chain can make exist/del loop forever
}
