// C28: keep-alive connections stay in sync.  Whole-server harness (packages e2e, h1x2).
// input / output: see coq/run/RunC28.v.
package main

import (
	"bytes"
	"fmt"
	"os"
	"strings"

	"verif/harness/e2e"
	"verif/harness/h1x2"
	"verif/harness/hv"

	"github.com/bfenetworks/bfe/bfe_module"
)

var env *h1x2.Env

func impl(in hv.Val) hv.Val {
	l := hv.AsList(in)
	if len(l) != 2 {
		return hv.Err(0)
	}
	var stream []byte
	for _, rv := range hv.AsList(l[0]) {
		r := hv.AsList(rv)
		if len(r) != 5 {
			return hv.Err(0)
		}
		stream = append(stream, hv.AsBytes(r[0])...)
	}
	if env == nil {
		env = h1x2.Start()
	}
	env.Mod.Reset()
	env.Plan.Reset()
	for _, sv := range hv.AsList(l[1]) {
		s := hv.AsList(sv)
		if len(s) != 7 {
			return hv.Err(0)
		}
		key, src, rd, status, errf := hv.AsStr(s[0]), int(hv.AsInt(s[1])), int(hv.AsInt(s[2])), int(hv.AsInt(s[3])), int(hv.AsInt(s[6]))
		if src < 0 || src > 3 || rd < 0 || rd > 2 || status < 100 || status > 599 || errf < 0 || errf > 1 {
			return hv.Err(0)
		}
		var hdrs [][2]string
		for _, hvv := range hv.AsList(s[4]) {
			kv := hv.AsList(hvv)
			if len(kv) != 2 {
				return hv.Err(0)
			}
			hdrs = append(hdrs, [2]string{hv.AsStr(kv[0]), hv.AsStr(kv[1])})
		}
		var pieces [][]byte
		for _, p := range hv.AsList(s[5]) {
			pieces = append(pieces, hv.AsBytes(p))
		}
		sp := &h1x2.Spec{Status: status, Header: hdrs, Pieces: pieces, Err: errf == 1, Echo: true}
		switch rd {
		case 1:
			sp.ReadBody = 1
		case 2:
			sp.ReadBody, sp.ReadN = 2, 1 // partial: exactly one byte
		}
		switch src {
		case 1:
			sp.Proxy = true
			var rp bytes.Buffer
			fmt.Fprintf(&rp, "HTTP/1.1 %d X\r\n", status)
			for _, kv := range hdrs {
				fmt.Fprintf(&rp, "%s: %s\r\n", kv[0], kv[1])
			}
			body := bytes.Join(pieces, nil)
			fmt.Fprintf(&rp, "X-Req: %s\r\nContent-Length: %d\r\n\r\n", key, len(body))
			if !(status >= 100 && status <= 199 || status == 204 || status == 304) {
				rp.Write(body)
			}
			env.Plan.PushFor(key, e2e.Reply(rp.Bytes()))
		case 2:
			sp.Verdict, sp.HasVerdict = bfe_module.BfeHandlerClose, true
		case 3:
			sp.Verdict, sp.HasVerdict = bfe_module.BfeHandlerFinish, true
		}
		env.Mod.Set(key, sp)
	}
	c := env.Srv.Dial()
	defer c.Close()
	c.Send(stream)
	c.CloseWrite()
	data, closed := c.ReadUntilClose()
	if !closed {
		return hv.Timeout()
	}
	return hv.B(h1x2.NormDate(data))
}

// ---- generator ----

const evilReq = "GET /evil HTTP/1.1\r\nHost: example.org\r\nX-Verif-Id: evil\r\nX-Verif-Spec: evil\r\n\r\n"
const textAlpha = "abcdefghijklmnopqrstuvwxyz0123456789 "

func text(r *hv.Rng, n int) []byte {
	b := make([]byte, n)
	for i := range b {
		b[i] = textAlpha[r.Intn(len(textAlpha))]
	}
	return b
}

// chunk-size lines (with their line end) at the boundaries of parseHexUint / readLine.
// ok: the reader accepts the line; n: the size it denotes then (the generator supplies exactly n data bytes).
type sizeLine struct {
	line string
	ok   bool
	n    int
}

var sizeLines = []sizeLine{
	{"5\r\n", true, 5}, {"a\r\n", true, 10}, {"A\r\n", true, 10}, {"4f\r\n", true, 79}, {"4F\r\n", true, 79},
	{"000000000000005\r\n", true, 5},  // 15 digits
	{"0000000000000005\r\n", true, 5}, // 16 digits: the longest accepted
	{"000000000000004f\r\n", true, 79},
	{"5 \r\n", true, 5}, {"5\t\r\n", true, 5}, {"5\n", true, 5}, {"5\r\r\n", true, 5}, // trailing blanks, bare LF
	{"0000000000000000\r\n", true, 0}, {"00\r\n", true, 0},
	{"00000000000000005\r\n", false, 0}, // 17 digits
	{"10000000000000000\r\n", false, 0}, // 2^64: wraps to 0 if the length guard is off by one
	{"10000000000000005\r\n", false, 0}, // 2^64+5: wraps to 5
	{"1000000000000004f\r\n", false, 0}, // 2^64+79
	{"000000000000000000000005\r\n", false, 0},
	{"\r\n", false, 0}, {"\n", false, 0}, {" \r\n", false, 0}, // empty size line
	{"5;x=1\r\n", false, 0}, {"5 ;x\r\n", false, 0}, // chunk extensions are not supported
	{" 5\r\n", false, 0}, {"0x5\r\n", false, 0}, {"+5\r\n", false, 0}, {"-5\r\n", false, 0}, {"5g\r\n", false, 0},
	{"8000000000000000\r\n", false, 0}, // 2^63: accepted as a size, the data never comes
	{"ffffffffffffffff\r\n", false, 0}, // 2^64-1
	{"7fffffffffffffff\r\n", false, 0},
	{"6\r\n", false, 0}, // one more than the data that follows in layout 2: CRLF check fails
}

func script(key string, src, rd, status int, hdrs [][2]string, pieces [][]byte, errf int) hv.Val {
	hs := hv.L{}
	for _, kv := range hdrs {
		hs = append(hs, hv.L{hv.S(kv[0]), hv.S(kv[1])})
	}
	ps := hv.L{}
	for _, p := range pieces {
		ps = append(ps, hv.B(p))
	}
	return hv.L{hv.S(key), hv.I(src), hv.I(rd), hv.I(status), hs, ps, hv.I(errf)}
}

// statusLine caches one line per (status, HTTP/1.0 | HTTP/1.1): pipelines that alternate the two versions with one
// status (known and unknown codes), both orders.
func genVersions(r *hv.Rng) (string, hv.Val) {
	status := []int{200, 404, 500, 299, 201, 403}[r.Intn(6)]
	first := r.Intn(2)
	n := 2 + r.Intn(3)
	reqs, scripts := hv.L{}, hv.L{}
	for k := 0; k < n; k++ {
		id := fmt.Sprintf("r%d", k)
		minor := (first + k) % 2
		hd := fmt.Sprintf("GET /v/%d HTTP/1.%d\r\nHost: example.org\r\nX-Verif-Id: %s\r\nX-Verif-Spec: %s\r\n", k, minor, id, id)
		if minor == 0 {
			hd += "Connection: keep-alive\r\n"
		}
		hd += "\r\n"
		reqs = append(reqs, hv.L{hv.S(hd), hv.S(id), hv.I(0), hv.I(0), hv.I(0)})
		body := []byte("resp-" + id)
		scripts = append(scripts, script(id, 0, 0, status, [][2]string{{"Date", h1x2.FixedDate}, {"Content-Length", fmt.Sprint(len(body))}}, [][]byte{body}, 0))
	}
	return "versions-alternate", hv.L{reqs, scripts}
}

var allMethods = []string{"GET", "HEAD", "POST", "PUT", "DELETE", "OPTIONS", "PATCH", "TRACE"}

// every method x body framing (none, Content-Length, chunked), the body being a complete request, then a real GET:
// whatever the method, the next request starts after the declared body.
func genMethods(r *hv.Rng, k int) (string, hv.Val) {
	method := allMethods[k%len(allMethods)]
	framing := (k / len(allMethods)) % 3
	minor := 1
	if r.Chance(1, 6) {
		minor = 0
	}
	hd := fmt.Sprintf("%s /m/%d HTTP/1.%d\r\nHost: example.org\r\nX-Verif-Id: r0\r\nX-Verif-Spec: r0\r\n", method, k, minor)
	if minor == 0 {
		hd += "Connection: keep-alive\r\n"
	}
	switch framing {
	case 1:
		hd += fmt.Sprintf("Content-Length: %d\r\n\r\n%s", len(evilReq), evilReq)
	case 2:
		hd += fmt.Sprintf("Transfer-Encoding: chunked\r\n\r\n%x\r\n%s\r\n0\r\n\r\n", len(evilReq), evilReq)
	default:
		hd += "\r\n"
	}
	head := 0
	if method == "HEAD" {
		head = 1
	}
	reqs := hv.L{hv.L{hv.S(hd), hv.S("r0"), hv.I(0), hv.I(head), hv.I(0)}}
	next := "GET /m/next HTTP/1.1\r\nHost: example.org\r\nX-Verif-Id: r1\r\nX-Verif-Spec: r1\r\n\r\n"
	reqs = append(reqs, hv.L{hv.S(next), hv.S("r1"), hv.I(0), hv.I(0), hv.I(0)})
	src := []int{0, 0, 0, 1}[r.Intn(4)]
	rd := r.Intn(3)
	if framing == 0 && rd == 2 {
		rd = 1
	}
	if src == 1 {
		rd = 0
	}
	date := [][2]string{{"Date", h1x2.FixedDate}}
	scripts := hv.L{
		script("evil", 0, 0, 200, date, [][]byte{[]byte("evil")}, 0),
		script("r0", src, rd, 200, date, [][]byte{[]byte("resp-r0")}, 0),
		script("r1", 0, 0, 200, date, [][]byte{[]byte("resp-r1")}, 0),
	}
	return fmt.Sprintf("method-%s-%s", strings.ToLower(method), []string{"nobody", "cl", "chunked"}[framing]), hv.L{reqs, scripts}
}

func gen(r *hv.Rng, i int, tier string) (string, hv.Val) {
	if i%9 == 4 {
		return genVersions(r)
	}
	if i%9 == 7 {
		return genMethods(r, i/9)
	}
	n := 1 + r.Intn(6)
	reqs, scripts := hv.L{}, hv.L{}
	scripts = append(scripts, script("evil", 0, 0, 200, [][2]string{{"Date", h1x2.FixedDate}}, [][]byte{[]byte("evil")}, 0))
	tags := map[string]bool{}
	total := 0
	for k := 0; k < n; k++ {
		id := fmt.Sprintf("r%d", k)
		last := k == n-1
		minor := 1
		if r.Chance(1, 8) {
			minor = 0
		}
		var hd strings.Builder
		kind, head, expect := 0, 0, 0
		var body []byte
		mkBody := func() []byte {
			if r.Chance(1, 3) {
				tags["evilbody"] = true
				return []byte(evilReq)
			}
			return text(r, []int{1, 2, 5, 40, 100, 300, 600}[r.Intn(7)])
		}
		typ := []int{0, 0, 0, 0, 1, 2, 2, 2, 3, 4, 5, 6, 7, 8, 9, 9, 9}[r.Intn(17)]
		if typ == 7 && !last {
			typ = 2
		}
		if total > 2800 && typ >= 2 {
			typ = 0
		}
		if typ == 5 {
			minor = 1 // an HTTP/1.0 request cannot ask for 100-continue: the expectation is ignored there
		}
		// every method with every body framing: the framing of a request does not depend on its method
		method := allMethods[r.Intn(len(allMethods))]
		switch typ {
		case 0:
			if r.Chance(1, 2) {
				method = "GET"
			}
		case 1:
			method = "HEAD"
		default:
			if r.Chance(1, 2) {
				method = []string{"POST", "PUT"}[r.Intn(2)]
			}
		}
		if method == "HEAD" {
			head = 1
		}
		if typ == 6 { // malformed head
			kind = 2
			tags["malformed"] = true
			switch r.Intn(6) {
			case 4: // request target one byte over MaxHeaderUriBytes (256): 414
				fmt.Fprintf(&hd, "GET /%s HTTP/1.1\r\nHost: example.org\r\nX-Verif-Id: %s\r\nX-Verif-Spec: %s\r\n\r\n", strings.Repeat("u", 256), id, id)
			case 5: // invalid method byte
				fmt.Fprintf(&hd, "G(T / HTTP/1.1\r\nHost: example.org\r\nX-Verif-Id: %s\r\nX-Verif-Spec: %s\r\n\r\n", id, id)
			case 0:
				hd.WriteString("FOO\r\n\r\n")
			case 1:
				fmt.Fprintf(&hd, "GET / HTTP/x.y\r\nHost: example.org\r\nX-Verif-Id: %s\r\nX-Verif-Spec: %s\r\n\r\n", id, id)
			case 2:
				fmt.Fprintf(&hd, "GET / HTTP/1.1\r\nHost: example.org\r\nnocolon\r\nX-Verif-Id: %s\r\nX-Verif-Spec: %s\r\n\r\n", id, id)
			case 3:
				fmt.Fprintf(&hd, "POST / HTTP/1.1\r\nHost: example.org\r\nContent-Length: abc\r\nX-Verif-Id: %s\r\nX-Verif-Spec: %s\r\n\r\n", id, id)
			}
			reqs = append(reqs, hv.L{hv.S(hd.String()), hv.S(id), hv.I(kind), hv.I(0), hv.I(0)})
			total += hd.Len()
			continue
		}
		path := fmt.Sprintf("/c28/%d", k)
		if total < 2000 && r.Chance(1, 25) {
			path = "/" + strings.Repeat("u", 255) // exactly MaxHeaderUriBytes: still accepted
			tags["uri-max"] = true
		}
		fmt.Fprintf(&hd, "%s %s HTTP/1.%d\r\nHost: example.org\r\nX-Verif-Id: %s\r\nX-Verif-Spec: %s\r\n", method, path, minor, id, id)
		if minor == 0 && r.Chance(2, 3) {
			hd.WriteString("Connection: keep-alive\r\n")
			tags["10ka"] = true
		} else if r.Chance(1, 12) {
			hd.WriteString("Connection: close\r\n")
			tags["reqclose"] = true
		}
		var wire []byte
		switch typ {
		case 2: // Content-Length body
			body = mkBody()
			fmt.Fprintf(&hd, "Content-Length: %d\r\n", len(body))
			wire = body
			tags["clbody"] = true
		case 3: // chunked body
			body = mkBody()
			hd.WriteString("Transfer-Encoding: chunked\r\n")
			cut := r.Intn(len(body) + 1)
			var w bytes.Buffer
			for _, part := range [][]byte{body[:cut], body[cut:]} {
				if len(part) > 0 {
					fmt.Fprintf(&w, "%x\r\n%s\r\n", len(part), part)
				}
			}
			w.WriteString("0\r\n\r\n")
			wire = w.Bytes()
			tags["chunkedbody"] = true
		case 4: // Expect: 100-continue, body sent without waiting
			body = mkBody()
			expect = 1
			fmt.Fprintf(&hd, "Expect: 100-continue\r\nContent-Length: %d\r\n", len(body))
			wire = body
			tags["expect-sent"] = true
		case 5: // Expect: 100-continue, body withheld
			body = mkBody()
			expect, kind = 1, 1
			fmt.Fprintf(&hd, "Expect: 100-continue\r\nContent-Length: %d\r\n", len(body))
			tags["expect-withheld"] = true
		case 7: // stream ends inside the body
			body = mkBody()
			kind = 3
			fmt.Fprintf(&hd, "Content-Length: %d\r\n", len(body)+1+r.Intn(50))
			wire = body
			tags["shortbody"] = true
		case 9: // chunked body whose size line sits at a boundary of the chunk-size parser
			hd.WriteString("Transfer-Encoding: chunked\r\n")
			v := sizeLines[r.Intn(len(sizeLines))]
			data := []byte("hello")
			if v.n == 79 {
				data = []byte(evilReq)
			} else if v.n == 10 {
				data = []byte("helloworld")
			}
			var w bytes.Buffer
			w.WriteString(v.line)
			if v.ok {
				// accepted by the reader: a complete, decodable body
				if v.n > 0 {
					w.Write(data)
					switch r.Intn(7) {
					case 3: // trailer fields
						w.WriteString("\r\n0\r\nX-T: v\r\nX-U: w x\r\n\r\n")
						tags["trailer-ok"] = true
					case 4: // malformed trailer line, then an embedded request
						w.WriteString("\r\n0\r\nX\r\n" + evilReq)
						kind = 4
						tags["trailer-bad"] = true
					case 5: // the embedded request where the trailer (or the final CRLF) should be
						w.WriteString("\r\n0\r\n" + evilReq)
						kind = 4
						tags["trailer-bad"] = true
					default:
						w.WriteString("\r\n0\r\n\r\n")
					}
				} else {
					w.WriteString("\r\n")
				}
				tags["chunk-edge-ok"] = true
			} else {
				// not a valid / complete chunked body: whatever follows is inside a body that cannot be delimited
				kind = 4
				switch r.Intn(3) {
				case 0: // the embedded request right after the size line
				case 1:
					w.WriteString("\r\n")
				case 2:
					w.WriteString("hello\r\n0\r\n\r\n")
				}
				w.WriteString(evilReq)
				tags["chunk-edge-bad"] = true
			}
			body = data
			wire = w.Bytes()
		case 8: // bad expectations
			if r.Bool() {
				hd.WriteString("Expect: foo\r\nContent-Length: 3\r\n")
				wire = []byte("abc")
			} else {
				expect = 1
				hd.WriteString("Expect: 100-continue\r\nContent-Length: 0\r\n")
			}
			tags["badexpect"] = true
		}
		hd.WriteString("\r\n")
		full := append([]byte(hd.String()), wire...)
		total += len(full)
		reqs = append(reqs, hv.L{hv.B(full), hv.S(id), hv.I(kind), hv.I(head), hv.I(expect)})
		// the handler
		src := []int{0, 0, 0, 0, 0, 0, 0, 0, 1, 1, 2, 3}[r.Intn(12)]
		rd := r.Intn(3)
		if kind == 1 {
			rd = 0
			if src == 1 {
				src = 0
			}
		}
		if (kind == 3 || kind == 4 || typ == 8) && src == 1 {
			// not forwarded: a failed forward leaves a backend connection behind that may take a later case's plan
			src = 0
		}
		if rd == 2 && len(body) < 2 {
			rd = 1
		}
		if src == 1 {
			rd = 0
			tags["proxied"] = true
		}
		status := []int{200, 200, 200, 404, 204, 304, 500}[r.Intn(7)]
		hdrs := [][2]string{{"Date", h1x2.FixedDate}}
		pieces := [][]byte{}
		if r.Chance(3, 4) {
			pieces = append(pieces, []byte("resp-"+id))
			if r.Chance(1, 6) {
				pieces = append(pieces, text(r, 520))
			}
		}
		plen := 0
		for _, p := range pieces {
			plen += len(p)
		}
		if src != 1 && r.Chance(1, 2) {
			hdrs = append(hdrs, [2]string{"Content-Length", fmt.Sprint(plen)})
		}
		if r.Chance(1, 15) {
			hdrs = append(hdrs, [2]string{"Connection", "close"})
			tags["respclose"] = true
		}
		errf := 0
		if src == 0 && r.Chance(1, 25) {
			errf = 1
		}
		scripts = append(scripts, script(id, src, rd, status, hdrs, pieces, errf))
	}
	class := fmt.Sprintf("n%d", n)
	for _, t := range []string{"evilbody", "expect-withheld", "expect-sent", "malformed", "shortbody", "badexpect", "proxied", "chunk-edge-ok", "chunk-edge-bad", "trailer-ok", "trailer-bad"} {
		if tags[t] {
			class += "-" + t
		}
	}
	return class, hv.L{reqs, scripts}
}

func main() {
	hv.Main(&hv.Spec{Prop: "C28", Gen: gen, Impl: impl, NQuick: 1200, NThorough: 40000})
	if env != nil {
		env.Srv.Close()
	}
	e2e.RemoveAll()
	os.Stdout.Sync()
}
