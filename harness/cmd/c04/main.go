// C04: weighted least connection (bal_slb.BalanceRR.Balance(WlcSmooth/WlcSimple)) vs model Wlc.v.
// input : [ conf ops seed ]  conf = [[id w] ...] ; ops = [0 m] Balance (m=4 smooth, 3 simple) | [1 id n] connNum := n
//         | [2 id b] SetAvail ; seed seeds math/rand (WlcSimple picks rand.Int() % len(candidates))
// output: per-op observation: picked id (-1 = error) or 0.
package main

import (
	"fmt"
	"math/rand"

	"verif/harness/hv"

	"github.com/bfenetworks/bfe/bfe_balance/backend"
	"github.com/bfenetworks/bfe/bfe_balance/bal_slb"
	"github.com/bfenetworks/bfe/bfe_config/bfe_cluster_conf/cluster_table_conf"
)

func mkConf(v hv.Val) cluster_table_conf.SubClusterBackend {
	var conf cluster_table_conf.SubClusterBackend
	for _, e := range hv.AsList(v) {
		p := hv.AsList(e)
		id, w := int(hv.AsInt(p[0])), int(hv.AsInt(p[1]))
		name := fmt.Sprintf("b%d", id)
		addr := fmt.Sprintf("10.0.%d.%d", id/256, id%256)
		port := 8000 + id
		conf = append(conf, &cluster_table_conf.BackendConf{Name: &name, Addr: &addr, Port: &port, Weight: &w})
	}
	return conf
}

func impl(in hv.Val) hv.Val {
	top := hv.AsList(in)
	rand.Seed(hv.AsInt(top[2]))
	brr := bal_slb.NewBalanceRR("sub")
	brr.Init(mkConf(top[0]))
	find := func(id int) *backend.BfeBackend {
		for _, b := range bal_slb.VerifC04Backends(brr) {
			if b.Port-8000 == id {
				return b
			}
		}
		return nil
	}
	out := hv.L{}
	for _, o := range hv.AsList(top[1]) {
		op := hv.AsList(o)
		switch hv.AsInt(op[0]) {
		case 0:
			b, err := brr.Balance(int(hv.AsInt(op[1])), nil)
			if err != nil || b == nil {
				out = append(out, hv.I(-1))
			} else {
				out = append(out, hv.I(b.Port-8000))
			}
		case 1:
			if b := find(int(hv.AsInt(op[1]))); b != nil {
				backend.VerifC04SetConnNum(b, int(hv.AsInt(op[2])))
			}
			out = append(out, hv.I(0))
		case 2:
			if b := find(int(hv.AsInt(op[1]))); b != nil {
				b.SetAvail(hv.AsBool(op[2]))
			}
			out = append(out, hv.I(0))
		default:
			panic("bad op")
		}
	}
	return out
}

func gen(r *hv.Rng, i int, tier string) (string, hv.Val) {
	n := r.Range(1, 6)
	if r.Chance(1, 12) {
		n = r.Range(7, 10)
	}
	ws := make([]int, n)
	conf := hv.L{}
	big := r.Chance(1, 5)
	for j := range ws {
		switch {
		case r.Chance(1, 10):
			ws[j] = -r.Intn(2) // 0 or -1: never eligible
		case big:
			ws[j] = r.Range(1, 10000)
		default:
			ws[j] = r.Range(1, 6)
		}
		conf = append(conf, hv.L{hv.I(j), hv.I(ws[j])})
	}
	ops := hv.L{}
	class := "mixed"
	// initial connection counts: many exact ratio ties  conn = q * w
	style := r.Intn(4)
	q := r.Range(0, 5)
	for j := 0; j < n; j++ {
		w := ws[j]
		if w <= 0 {
			w = 1
		}
		var c int
		switch style {
		case 0: // all tied at ratio q
			c = q * w
			class = "all-tied"
		case 1: // tied or off by one connection
			c = q*w + r.Range(-1, 1)
			if c < 0 {
				c = 0
			}
			class = "near-tie"
		case 2: // random
			if big {
				c = r.Intn(1000001)
			} else {
				c = r.Intn(12)
			}
		default: // zero connections everywhere (start-up)
			c = 0
			class = "zero-conn"
		}
		if c != 0 || r.Chance(1, 4) {
			ops = append(ops, hv.L{hv.I(1), hv.I(j), hv.I(c)})
		}
	}
	if big {
		class += "-big"
	}
	steps := r.Range(2, 24)
	for s := 0; s < steps; s++ {
		switch x := r.Intn(10); {
		case x < 5:
			m := 4
			if r.Chance(1, 3) {
				m = 3
			}
			ops = append(ops, hv.L{hv.I(0), hv.I(m)})
		case x < 8:
			j := r.Intn(n)
			w := ws[j]
			if w <= 0 {
				w = 1
			}
			c := r.Range(0, 6) * w
			if r.Chance(1, 3) {
				c += r.Range(0, 2)
			}
			ops = append(ops, hv.L{hv.I(1), hv.I(j), hv.I(c)})
		default:
			ops = append(ops, hv.L{hv.I(2), hv.I(r.Intn(n)), hv.Bool(r.Chance(1, 2))})
		}
	}
	ops = append(ops, hv.L{hv.I(0), hv.I(4)}, hv.L{hv.I(0), hv.I(3)})
	return class, hv.L{conf, ops, hv.I(r.Intn(1 << 30))}
}

func main() {
	hv.Main(&hv.Spec{Prop: "C04", Gen: gen, Impl: impl, NQuick: 6000, NThorough: 300000})
}
