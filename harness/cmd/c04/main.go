// C04: weighted least connection (bal_slb.BalanceRR.Balance(WlcSmooth/WlcSimple)) vs model Wlc.v.
// input : [ conf ops seed ]  conf = [[id w] ...] ; ops = [0 m] Balance (m=4 smooth, 3 simple) | [1 id n] connNum := n
//         | [2 id b] SetAvail ; seed seeds math/rand (WlcSimple picks rand.Int() % len(candidates))
// output: per-op observation: picked id (-1 = error) or 0.
package main

import (
	"fmt"
	"math/rand"
	"net"
	"time"

	"verif/harness/hv"

	"github.com/bfenetworks/bfe/bfe_balance/backend"
	"github.com/bfenetworks/bfe/bfe_balance/bal_gslb"
	"github.com/bfenetworks/bfe/bfe_balance/bal_slb"
	"github.com/bfenetworks/bfe/bfe_basic"
	"github.com/bfenetworks/bfe/bfe_config/bfe_cluster_conf/cluster_conf"
	"github.com/bfenetworks/bfe/bfe_config/bfe_cluster_conf/cluster_table_conf"
	"github.com/bfenetworks/bfe/bfe_config/bfe_cluster_conf/gslb_conf"
	"github.com/bfenetworks/bfe/bfe_http"
	"github.com/spaolacci/murmur3"
)

func errCode(err error) int {
	switch err {
	case nil:
		return 0
	case bfe_basic.ErrBkNoSubCluster:
		return 1
	case bfe_basic.ErrGslbBlackhole:
		return 2
	case bfe_basic.ErrBkNoBackend:
		return 3
	case bfe_basic.ErrBkNoSubClusterCross:
		return 4
	case bfe_basic.ErrBkCrossRetryBalance:
		return 5
	case bfe_basic.ErrBkRetryTooMany:
		return 6
	}
	return 99
}

// kind 8: [8 [mode rmax cross] subs ops] through BalanceGslb (encoding of RunC03.v)
func implG(top hv.L) hv.Val {
	pr := hv.AsList(top[1])
	modeI, rmax, cross := int(hv.AsInt(pr[0])), int(hv.AsInt(pr[1])), int(hv.AsInt(pr[2]))
	gc := gslb_conf.GslbClusterConf{}
	backs := cluster_table_conf.ClusterBackend{}
	for _, sv := range hv.AsList(top[2]) {
		s := hv.AsList(sv)
		name := hv.AsStr(s[0])
		gc[name] = int(hv.AsInt(s[1]))
		conf := cluster_table_conf.SubClusterBackend{}
		for _, bv := range hv.AsList(s[2]) {
			b := hv.AsList(bv)
			id, w := int(hv.AsInt(b[0])), int(hv.AsInt(b[1]))
			bn := fmt.Sprintf("%s-%d", name, id)
			addr := "10.0.0.1"
			port := 1000 + id
			conf = append(conf, &cluster_table_conf.BackendConf{Name: &bn, Addr: &addr, Port: &port, Weight: &w})
		}
		backs[name] = conf
	}
	bal := bal_gslb.NewBalanceGslb("cluster")
	bal.Init(gc)
	bal.BackendInit(backs)
	st := cluster_conf.ClientIpOnly
	hdr := ""
	sticky := modeI == 2
	// the balance mode as an operator may spell it; the real conf check (as run by the cluster_conf loader)
	// normalises it before SetGslbBasic
	spell := (rmax + cross + len(gc)) % 3
	mode := []string{"WRR", "wrr", "Wrr"}[spell]
	if modeI == 1 {
		mode = []string{"WLC", "wlc", "Wlc"}[spell]
	}
	gb := cluster_conf.GslbBasicConf{CrossRetry: &cross, RetryMax: &rmax,
		HashConf: &cluster_conf.HashConf{HashStrategy: &st, HashHeader: &hdr, SessionSticky: &sticky}, BalanceMode: &mode}
	if err := cluster_conf.GslbBasicConfCheck(&gb); err != nil {
		return hv.Err(8)
	}
	bal.SetGslbBasic(gb)
	find := func(sub string, id int) *backend.BfeBackend {
		for _, b := range bal_gslb.VerifC04Backends(bal)[sub] {
			if b.Port-1000 == id {
				return b
			}
		}
		return nil
	}
	out := hv.L{}
	for _, ov := range hv.AsList(top[3]) {
		op := hv.AsList(ov)
		switch hv.AsInt(op[0]) {
		case 0:
			key := hv.AsBytes(op[3])
			if hv.String(op[2]) != hv.String(hv.U(murmur3.Sum64(key))) {
				return hv.Err(7)
			}
			req := &bfe_basic.Request{HttpRequest: &bfe_http.Request{Header: make(bfe_http.Header), RequestURI: "/"},
				Stat: &bfe_basic.RequestStat{}}
			req.ClientAddr = &net.TCPAddr{IP: net.IP(key), Port: 1}
			req.RetryTime = int(hv.AsInt(op[1]))
			b, err := bal.Balance(req)
			bid := -1
			if b != nil {
				bid = b.Port - 1000
				if b.SubCluster != req.Backend.SubclusterName {
					bid = -7
				}
			}
			out = append(out, hv.L{hv.I(errCode(err)), hv.S(req.Backend.SubclusterName), hv.I(bid), hv.I(req.RetryTime),
				hv.Bool(req.Stat.IsCrossCluster), hv.I(errCode(req.ErrCode))})
		case 1:
			if b := find(hv.AsStr(op[1]), int(hv.AsInt(op[2]))); b != nil {
				b.SetAvail(hv.AsBool(op[3]))
			}
			out = append(out, hv.L{})
		case 2:
			if b := find(hv.AsStr(op[1]), int(hv.AsInt(op[2]))); b != nil {
				backend.VerifC04SetConnNum(b, int(hv.AsInt(op[3])))
			}
			out = append(out, hv.L{})
		default:
			panic("bad op")
		}
	}
	return out
}

// WLC (2/3) or sticky (1/3) cluster whose requests mostly end in the cross-cluster branch: the hashed sub-cluster
// is entirely down or the retry count is past retryMax; connection counts with distinct ratios and ties
func genG(r *hv.Rng) (string, hv.Val) {
	mode := 1
	class := "gslb-wlc"
	if r.Chance(1, 3) {
		mode = 2
		class = "gslb-sticky"
	}
	rmax := r.Range(0, 2)
	cross := r.Range(1, 2)
	names := []string{"bj", "gz", "sh", "nj"}
	ns := r.Range(2, 3)
	subs := hv.L{}
	ops := hv.L{}
	type sb struct {
		name string
		ids  []int
		ws   []int
	}
	var gs []sb
	for j := 0; j < ns; j++ {
		w := r.Range(1, 4)
		if j > 0 && r.Chance(1, 4) {
			w = 0 // never a first choice, but usable for the cross retry
		}
		nb := r.Range(2, 5)
		bl := hv.L{}
		g := sb{name: names[j]}
		for k := 0; k < nb; k++ {
			bw := r.Range(1, 4)
			if r.Chance(1, 8) {
				bw = 0
			}
			bl = append(bl, hv.L{hv.I(k), hv.I(bw)})
			g.ids = append(g.ids, k)
			g.ws = append(g.ws, bw)
		}
		subs = append(subs, hv.L{hv.S(names[j]), hv.I(w), bl})
		gs = append(gs, g)
	}
	// connection counts
	for _, g := range gs {
		q := r.Range(0, 3)
		for k, id := range g.ids {
			w := g.ws[k]
			if w <= 0 {
				w = 1
			}
			c := 0
			switch r.Intn(3) {
			case 0:
				c = q * w // tie
			case 1:
				c = q*w + r.Range(0, 2)
			default:
				c = r.Intn(10)
			}
			ops = append(ops, hv.L{hv.I(2), hv.S(g.name), hv.I(id), hv.I(c)})
		}
	}
	// make one or all-but-one sub-cluster completely unavailable
	downAll := r.Intn(ns)
	for j, g := range gs {
		if j == downAll || r.Chance(1, 4) {
			for _, id := range g.ids {
				ops = append(ops, hv.L{hv.I(1), hv.S(g.name), hv.I(id), hv.I(0)})
			}
		}
	}
	calls := r.Range(3, 10)
	for c := 0; c < calls; c++ {
		retry := 0
		if r.Chance(1, 3) {
			retry = rmax + 1 // past retryMax: straight to the cross-cluster branch
		}
		key := r.Bytes(16)
		ops = append(ops, hv.L{hv.I(0), hv.I(retry), hv.U(murmur3.Sum64(key)), hv.B(key)})
		if r.Chance(1, 3) {
			g := gs[r.Intn(len(gs))]
			k := r.Intn(len(g.ids))
			ops = append(ops, hv.L{hv.I(2), hv.S(g.name), hv.I(g.ids[k]), hv.I(r.Intn(12))})
		}
	}
	return class, hv.L{hv.I(8), hv.L{hv.I(mode), hv.I(rmax), hv.I(cross)}, subs, ops}
}

func mkConf(v hv.Val) cluster_table_conf.SubClusterBackend {
	var conf cluster_table_conf.SubClusterBackend
	for _, e := range hv.AsList(v) {
		p := hv.AsList(e)
		id, w := int(hv.AsInt(p[0])), int(hv.AsInt(p[1]))
		name := fmt.Sprintf("b%d", id)
		addr := fmt.Sprintf("10.0.%d.%d", id/256, id%256)
		switch id % 3 {
		case 1:
			addr = fmt.Sprintf("fd00::%x", id+1)
		case 2:
			addr = fmt.Sprintf("h-%d.example", id)
		}
		port := 8000 + id
		conf = append(conf, &cluster_table_conf.BackendConf{Name: &name, Addr: &addr, Port: &port, Weight: &w})
	}
	return conf
}

// kind 7: [7 conf ops] one BalanceRR, WlcSmooth, slow start + connection counts
func impl7(top hv.L) hv.Val {
	brr := bal_slb.NewBalanceRR("sub")
	brr.Init(mkConf(top[1]))
	find := func(id int) *backend.BfeBackend {
		for _, b := range bal_slb.VerifC04Backends(brr) {
			if b.Port-8000 == id {
				return b
			}
		}
		return nil
	}
	out := hv.L{}
	for _, o := range hv.AsList(top[2]) {
		op := hv.AsList(o)
		switch hv.AsInt(op[0]) {
		case 0:
			k := int(hv.AsInt(op[1]))
			ps := make(hv.L, 0, k)
			for j := 0; j < k; j++ {
				b, err := brr.Balance(bal_slb.WlcSmooth, nil)
				if err != nil || b == nil {
					ps = append(ps, hv.I(-1))
				} else {
					ps = append(ps, hv.I(b.Port-8000))
				}
			}
			out = append(out, ps)
			continue
		case 1:
			brr.Update(mkConf(op[1]))
		case 2:
			if b := find(int(hv.AsInt(op[1]))); b != nil {
				b.SetAvail(hv.AsBool(op[2]))
			}
		case 3:
			brr.SetSlowStart(int(hv.AsInt(op[1])))
		case 4:
			bal_slb.VerifC04SetElapsed(brr, 8000+int(hv.AsInt(op[1])), time.Duration(hv.AsInt(op[2]))*time.Millisecond)
		case 5:
			if b := find(int(hv.AsInt(op[1]))); b != nil {
				b.SetRestart(true)
			}
		case 6:
			if b := find(int(hv.AsInt(op[1]))); b != nil {
				backend.VerifC04SetConnNum(b, int(hv.AsInt(op[2])))
			}
		default:
			panic("bad op")
		}
		out = append(out, hv.L{})
	}
	return out
}

func rampAt(T, final, num, den int) int {
	e := T * 1000 * num / den
	if final > 0 {
		for (final*e)%(1000*T)+final*2000 >= 1000*T && (final*e)/(1000*T) < final {
			e += 500
		}
	}
	return e
}

// WLC with a backend inside its slow-start ramp: its CURRENT weight (below the target) decides the comparison
func gen7(r *hv.Rng) (string, hv.Val) {
	n := r.Range(1, 3)
	ws := make([]int, n)
	conf := hv.L{}
	for j := range ws {
		ws[j] = r.Range(1, 4)
		conf = append(conf, hv.L{hv.I(j), hv.I(ws[j])})
	}
	T := []int{3600, 7200}[r.Intn(2)]
	ops := hv.L{hv.L{hv.I(3), hv.I(T)}}
	pk := func(k int) { ops = append(ops, hv.L{hv.I(0), hv.I(k)}) }
	setConns := func(ids []int, wts []int) {
		q := r.Range(0, 4)
		for k, id := range ids {
			c := 0
			switch r.Intn(3) {
			case 0:
				c = q * wts[k]
			case 1:
				c = q*wts[k] + r.Range(-1, 1)
			default:
				c = r.Intn(12)
			}
			if c < 0 {
				c = 0
			}
			ops = append(ops, hv.L{hv.I(6), hv.I(id), hv.I(c)})
		}
	}
	ids := make([]int, n)
	for j := range ids {
		ids[j] = j
	}
	setConns(ids, ws)
	pk(r.Range(1, 3))
	class := "ss-wlc-add"
	var tid, tw int
	if r.Bool() {
		tid, tw = n, r.Range(2, 5)
		next := append(hv.L{}, conf...)
		next = append(next, hv.L{hv.I(tid), hv.I(tw)})
		ops = append(ops, hv.L{hv.I(1), next})
		ids = append(ids, tid)
		ws = append(ws, tw)
	} else {
		class = "ss-wlc-restart"
		tid = r.Intn(n)
		tw = ws[tid]
		ops = append(ops, hv.L{hv.I(2), hv.I(tid), hv.I(0)})
		pk(r.Range(1, 2))
		ops = append(ops, hv.L{hv.I(5), hv.I(tid)}, hv.L{hv.I(2), hv.I(tid), hv.I(1)})
	}
	pk(1) // ramp starts
	for _, f := range [][2]int{{r.Range(1, 4), 10}, {r.Range(5, 9), 10}, {1, 1}, {14, 10}} {
		if r.Chance(3, 4) {
			ops = append(ops, hv.L{hv.I(4), hv.I(tid), hv.I(rampAt(T, tw*100, f[0], f[1]))})
			setConns(ids, ws)
			pk(r.Range(1, 4))
			if r.Bool() {
				// the cold backend heavier than it looks by its target weight
				ops = append(ops, hv.L{hv.I(6), hv.I(tid), hv.I(r.Range(1, 2*tw))})
				pk(r.Range(1, 3))
			}
		}
	}
	return class, hv.L{hv.I(7), conf, ops}
}

func impl(in hv.Val) hv.Val {
	top := hv.AsList(in)
	if len(top) == 4 {
		return implG(top)
	}
	if _, isList := top[0].(hv.L); !isList && hv.AsInt(top[0]) == 7 {
		return impl7(top)
	}
	rand.Seed(hv.AsInt(top[2]))
	brr := bal_slb.NewBalanceRR("sub")
	brr.Init(mkConf(top[0]))
	find := func(id int) *backend.BfeBackend {
		for _, b := range bal_slb.VerifC04Backends(brr) {
			if b.Port-8000 == id {
				return b
			}
		}
		return nil
	}
	out := hv.L{}
	for _, o := range hv.AsList(top[1]) {
		op := hv.AsList(o)
		switch hv.AsInt(op[0]) {
		case 0:
			b, err := brr.Balance(int(hv.AsInt(op[1])), nil)
			if err != nil || b == nil {
				out = append(out, hv.I(-1))
			} else {
				out = append(out, hv.I(b.Port-8000))
			}
		case 1:
			if b := find(int(hv.AsInt(op[1]))); b != nil {
				backend.VerifC04SetConnNum(b, int(hv.AsInt(op[2])))
			}
			out = append(out, hv.I(0))
		case 2:
			if b := find(int(hv.AsInt(op[1]))); b != nil {
				b.SetAvail(hv.AsBool(op[2]))
			}
			out = append(out, hv.I(0))
		default:
			panic("bad op")
		}
	}
	return out
}

func gen(r *hv.Rng, i int, tier string) (string, hv.Val) {
	if r.Chance(1, 4) {
		return genG(r)
	}
	if r.Chance(1, 4) {
		return gen7(r)
	}
	n := r.Range(1, 6)
	if r.Chance(1, 12) {
		n = r.Range(7, 10)
	}
	ws := make([]int, n)
	conf := hv.L{}
	big := r.Chance(1, 5)
	for j := range ws {
		switch {
		case r.Chance(1, 10):
			ws[j] = -r.Intn(2) // 0 or -1: never eligible
		case big:
			ws[j] = r.Range(1, 10000)
		default:
			ws[j] = r.Range(1, 6)
		}
		conf = append(conf, hv.L{hv.I(j), hv.I(ws[j])})
	}
	ops := hv.L{}
	class := "mixed"
	// initial connection counts: many exact ratio ties  conn = q * w
	style := r.Intn(4)
	q := r.Range(0, 5)
	for j := 0; j < n; j++ {
		w := ws[j]
		if w <= 0 {
			w = 1
		}
		var c int
		switch style {
		case 0: // all tied at ratio q
			c = q * w
			class = "all-tied"
		case 1: // tied or off by one connection
			c = q*w + r.Range(-1, 1)
			if c < 0 {
				c = 0
			}
			class = "near-tie"
		case 2: // random
			if big {
				c = r.Intn(1000001)
			} else {
				c = r.Intn(12)
			}
		default: // zero connections everywhere (start-up)
			c = 0
			class = "zero-conn"
		}
		if c != 0 || r.Chance(1, 4) {
			ops = append(ops, hv.L{hv.I(1), hv.I(j), hv.I(c)})
		}
	}
	if big {
		class += "-big"
	}
	steps := r.Range(2, 24)
	for s := 0; s < steps; s++ {
		switch x := r.Intn(10); {
		case x < 5:
			m := 4
			if r.Chance(1, 3) {
				m = 3
			}
			ops = append(ops, hv.L{hv.I(0), hv.I(m)})
		case x < 8:
			j := r.Intn(n)
			w := ws[j]
			if w <= 0 {
				w = 1
			}
			c := r.Range(0, 6) * w
			if r.Chance(1, 3) {
				c += r.Range(0, 2)
			}
			ops = append(ops, hv.L{hv.I(1), hv.I(j), hv.I(c)})
		default:
			ops = append(ops, hv.L{hv.I(2), hv.I(r.Intn(n)), hv.Bool(r.Chance(1, 2))})
		}
	}
	ops = append(ops, hv.L{hv.I(0), hv.I(4)}, hv.L{hv.I(0), hv.I(3)})
	return class, hv.L{conf, ops, hv.I(r.Intn(1 << 30))}
}

func main() {
	hv.Main(&hv.Spec{Prop: "C04", Gen: gen, Impl: impl, NQuick: 5000, NThorough: 300000})
}
