// C08: retries are safe and bounded.  Whole-server harness (package e2e).
// input / output / topology: see coq/run/RunC08.v.  One server per (RetryMax, CrossRetry, RetryLevel).
package main

import (
	"fmt"
	"os"
	"sort"
	"strings"

	"verif/harness/e2e"
	"verif/harness/hv"

	"github.com/bfenetworks/bfe/bfe_module"
)

type env struct {
	srv  *e2e.Server
	plan *e2e.Plan
	live map[int]*e2e.Backend
	idx  map[string]int
}

var envs = map[[3]int]*env{}

func getEnv(rm, cr, level int) *env {
	k := [3]int{rm, cr, level}
	if e, ok := envs[k]; ok {
		return e
	}
	n := len(envs)
	plan := e2e.NewPlan()
	name := func(i int) string { return fmt.Sprintf("k%d_%d", n, i) }
	a0, c0, e0 := e2e.NewBackend(name(0)), e2e.NewBackend(name(2)), e2e.NewBackend(name(4))
	a0.Plan, c0.Plan, e0.Plan = plan, plan, plan
	a1, c1 := e2e.DeadBackend(name(1), 0), e2e.DeadBackend(name(3), 1)
	srv := e2e.Start(e2e.Options{
		Products: []e2e.Product{{Name: "p", Hosts: []string{"example.org"}, Cluster: "c"}},
		Clusters: []e2e.Cluster{{Name: "c", RetryMax: rm, CrossRetry: cr, RetryLevel: level, TimeoutResponseHeader: 300,
			SubClusters: []e2e.SubCluster{
				{Name: "s1", Weight: 100, Backends: []*e2e.Backend{a0, a1}},
				{Name: "s2", Weight: 0, Backends: []*e2e.Backend{c0, c1}},
				{Name: "s3", Weight: 0, Backends: []*e2e.Backend{e0}},
				{Name: "GSLB_BLACKHOLE", Weight: 0}}}},
		Handlers: 1,
	})
	e := &env{srv, plan, map[int]*e2e.Backend{0: a0, 2: c0, 4: e0}, map[string]int{}}
	for i := 0; i < 5; i++ {
		e.idx[name(i)] = i
	}
	envs[k] = e
	return e
}

var methods = []string{"GET", "POST", "HEAD", "PUT"}

func impl(in hv.Val) hv.Val {
	l := hv.AsList(in)
	if len(l) != 6 {
		return hv.Err(0)
	}
	rm, cr, level := int(hv.AsInt(l[0])), int(hv.AsInt(l[1])), int(hv.AsInt(l[2]))
	method, body := int(hv.AsInt(l[3])), int(hv.AsInt(l[4]))
	steps := hv.AsList(l[5])
	if rm < 0 || rm > 5 || cr < 0 || cr > 3 || level < 0 || level > 1 || method < 0 || method > 3 || body < 0 || body > 3 || len(steps) > 12 {
		return hv.Err(0)
	}
	e := getEnv(rm, cr, level)
	e.plan.Reset()
	for _, b := range e.live {
		b.Reset()
	}
	e.srv.Mod.ResetCalls()
	e.srv.Mod.SetScript(e2e.Script{})
	ok200 := e2e.OK("ok")
	r500 := []byte("HTTP/1.1 500 X\r\nContent-Length: 2\r\n\r\nno")
	if method == 2 { // HEAD: no body bytes
		ok200 = []byte("HTTP/1.1 200 OK\r\nContent-Length: 2\r\n\r\n")
		r500 = []byte("HTTP/1.1 500 X\r\nContent-Length: 2\r\n\r\n")
	}
	for _, b := range e.live {
		b.Default = e2e.Reply(ok200)
	}
	var holds []e2e.Step
	for _, sv := range steps {
		switch hv.AsInt(sv) {
		case 0:
			e.plan.PushFor("r", e2e.Reply(ok200))
		case 1:
			e.plan.PushFor("r", e2e.ReadHeadClose())
		case 2:
			e.plan.PushFor("r", e2e.Partial([]byte("HTTP/1.1 20")))
		case 4:
			e.plan.PushFor("r", e2e.Reply(r500))
		case 5:
			h := e2e.Hold(ok200)
			holds = append(holds, h)
			e.plan.PushFor("r", h)
		default:
			return hv.Err(0)
		}
	}
	defer func() {
		for _, h := range holds {
			e2e.Release(h)
		}
	}()
	var sb strings.Builder
	fmt.Fprintf(&sb, "%s /c08 HTTP/1.1\r\nHost: example.org\r\nConnection: close\r\nX-Verif-Id: r\r\n", methods[method])
	switch body {
	case 0:
		sb.WriteString("\r\n")
	case 1:
		sb.WriteString("Content-Length: 0\r\n\r\n")
	case 2:
		sb.WriteString("Content-Length: 3\r\n\r\nabc")
	case 3:
		sb.WriteString("Transfer-Encoding: chunked\r\n\r\n3\r\nabc\r\n0\r\n\r\n")
	}
	c := e.srv.Dial()
	defer c.Close()
	c.Send([]byte(sb.String()))
	status := 0
	if r, err := c.ReadResponseTo(methods[method]); err == nil {
		status = r.Status
	}
	if _, closed := c.ReadUntilClose(); !closed {
		return hv.Timeout()
	}
	att := hv.L{}
	for _, cl := range e.srv.Mod.Calls() {
		if cl.Point == bfe_module.HandleForward && cl.ReqID == "r" {
			att = append(att, hv.I(e.idx[cl.Backend]))
		}
	}
	type seen struct {
		seq int64
		id  int
	}
	var ss []seen
	for id, b := range e.live {
		for _, bc := range b.Conns() {
			if len(bc.Bytes) > 0 {
				ss = append(ss, seen{bc.Seq, id})
			}
		}
	}
	sort.Slice(ss, func(i, j int) bool { return ss[i].seq < ss[j].seq })
	saw := hv.L{}
	for _, s := range ss {
		saw = append(saw, hv.I(s.id))
	}
	return hv.L{att, saw, hv.I(status)}
}

func gen(r *hv.Rng, i int, tier string) (string, hv.Val) {
	rm := []int{0, 1, 2, 3, 5}[r.Intn(5)]
	cr := []int{0, 0, 1, 2, 3}[r.Intn(5)]
	level := r.Intn(2)
	method := []int{0, 0, 0, 1, 2, 3}[r.Intn(6)]
	body := []int{0, 0, 1, 2, 3}[r.Intn(5)]
	if method == 2 {
		body = []int{0, 1}[r.Intn(2)]
	}
	if r.Chance(1, 3) { // the class where replaying is allowed
		level, method, body = 1, 0, r.Intn(2)
	}
	steps := hv.L{}
	class := "ok-first"
	if r.Chance(3, 4) {
		nf := r.Intn(rm + cr + 3)
		for k := 0; k < nf; k++ {
			if r.Chance(1, 30) {
				steps = append(steps, hv.I(5))
			} else {
				steps = append(steps, hv.I(1+r.Intn(2)))
			}
		}
		if nf > 0 {
			class = "fail-run"
		}
	}
	steps = append(steps, hv.I([]int{0, 0, 0, 4}[r.Intn(4)]))
	safe := level == 1 && method == 0 && body <= 1
	if safe {
		class += "-safe"
	} else if method == 0 {
		class += "-get"
	} else {
		class += "-" + strings.ToLower(methods[method])
	}
	if i == 0 {
		return "triv-ok", hv.L{hv.I(0), hv.I(0), hv.I(0), hv.I(0), hv.I(0), hv.L{hv.I(0)}}
	}
	return class, hv.L{hv.I(rm), hv.I(cr), hv.I(level), hv.I(method), hv.I(body), steps}
}

func main() {
	hv.Main(&hv.Spec{Prop: "C08", Gen: gen, Impl: impl, NQuick: 1500, NThorough: 30000})
	for _, e := range envs {
		e.srv.Close()
	}
	e2e.RemoveAll()
	os.Stdout.Sync()
}
