// C08: retries are safe and bounded.  Whole-server harness (package e2e).
// input / output / topology: see coq/run/RunC08.v.  One server per (RetryMax, CrossRetry, RetryLevel).
package main

import (
	"errors"
	"fmt"
	"io"
	"io/ioutil"
	"os"
	"sort"
	"strings"
	"sync"

	"verif/harness/e2e"
	"verif/harness/hv"

	"github.com/bfenetworks/bfe/bfe_fcgi"
	"github.com/bfenetworks/bfe/bfe_http"
	"github.com/bfenetworks/bfe/bfe_module"
)

type env struct {
	srv  *e2e.Server
	plan *e2e.Plan
	live map[int]*e2e.Backend
	idx  map[string]int
	dead map[string]bool // host:port of the refusing addresses

	// reload histories (env of key {-1,-1,-1} only): the dynamic cluster is re-created under a new name for every case
	main  []e2e.SubCluster
	nDyn  int

	mu    sync.Mutex
	steps []int // outcome script of the current case, consumed by attempts that reach a live backend
	ok200 []byte
	r500  []byte
	holds []e2e.Step
}

// injector is the fault-injecting transport in front of the cluster's real transport (installed through the hook
// bfe_server.VerifC08WrapTransport).  Attempts to a refusing address pass through (real ConnectError).  For the others the
// next step of the case decides: codes 0,1,2,4,5 are played by the fake backend over the real transport; codes >= 11 let
// the real round trip succeed (the backend receives the request and replies 200) and then return the chosen error type,
// so that every case of clusterInvoke's error switch is driven separately and deterministically.
type injector struct {
	real bfe_http.RoundTripper
	e    *env
}

func (j *injector) RoundTrip(req *bfe_http.Request) (*bfe_http.Response, error) {
	e := j.e
	if e.dead[req.URL.Host] {
		return j.real.RoundTrip(req)
	}
	e.mu.Lock()
	code := 0
	if len(e.steps) > 0 {
		code, e.steps = e.steps[0], e.steps[1:]
	}
	switch code {
	case 0:
		e.plan.PushFor("r", e2e.Reply(e.ok200))
	case 1:
		e.plan.PushFor("r", e2e.ReadHeadClose())
	case 2:
		e.plan.PushFor("r", e2e.Partial([]byte("HTTP/1.1 20")))
	case 4:
		e.plan.PushFor("r", e2e.Reply(e.r500))
	case 5:
		h := e2e.Hold(e.ok200)
		e.holds = append(e.holds, h)
		e.plan.PushFor("r", h)
	default:
		e.plan.PushFor("r", e2e.Reply(e.ok200))
	}
	e.mu.Unlock()
	res, err := j.real.RoundTrip(req)
	if code < 11 {
		return res, err
	}
	if err != nil {
		return res, err // unexpected: shows up as a disagreement
	}
	io.Copy(ioutil.Discard, res.Body)
	res.Body.Close()
	inj := errors.New("injected")
	switch code {
	case 11:
		return nil, bfe_http.WriteRequestError{Err: inj}
	case 12:
		return nil, bfe_http.ReadRespHeaderError{Err: inj}
	case 13:
		return nil, bfe_http.RespHeaderTimeoutError{}
	case 14:
		return nil, bfe_http.TransportBrokenError{}
	case 16:
		return nil, bfe_fcgi.WriteRequestError{Err: inj}
	case 17:
		return nil, bfe_fcgi.ReadRespHeaderError{Err: inj}
	}
	return nil, inj
}

var envs = map[[4]int]*env{}

func getEnv(rm, cr, level int) *env { return getEnvK(0, rm, cr, level) }

// tag 1 = the server used for reload histories (its configuration is rewritten by every such case)
func getEnvK(tag, rm, cr, level int) *env {
	k := [4]int{tag, rm, cr, level}
	if e, ok := envs[k]; ok {
		return e
	}
	n := len(envs)
	plan := e2e.NewPlan()
	name := func(i int) string { return fmt.Sprintf("k%d_%d", n, i) }
	a0, c0, e0 := e2e.NewBackend(name(0)), e2e.NewBackend(name(2)), e2e.NewBackend(name(4))
	a0.Plan, c0.Plan, e0.Plan = plan, plan, plan
	a1, c1 := e2e.DeadBackend(name(1), 0), e2e.DeadBackend(name(3), 1)
	y0, y1 := e2e.NewBackend(name(5)), e2e.DeadBackend(name(6), 2)
	y0.Plan = plan
	srv := e2e.Start(e2e.Options{
		Products: []e2e.Product{{Name: "p", Hosts: []string{"example.org"}, Cluster: "c"},
			{Name: "py", Hosts: []string{"y.example.org"}, Cluster: "cy"},
			{Name: "px", Hosts: []string{"x.example.org"}, Cluster: "cx"}},
		Clusters: []e2e.Cluster{
			// topo 1: the primary sub-cluster has no backend, the second one (weight 0) has a live and a refusing backend
			{Name: "cy", RetryMax: rm, CrossRetry: cr, RetryLevel: level, TimeoutResponseHeader: 300,
				SubClusters: []e2e.SubCluster{{Name: "s1", Weight: 100}, {Name: "s2", Weight: 0, Backends: []*e2e.Backend{y0, y1}},
					{Name: "GSLB_BLACKHOLE", Weight: 0}}},
			// topo 2: no sub-cluster has a backend
			{Name: "cx", RetryMax: rm, CrossRetry: cr, RetryLevel: level,
				SubClusters: []e2e.SubCluster{{Name: "s1", Weight: 100}, {Name: "s2", Weight: 0}}},
			{Name: "c", RetryMax: rm, CrossRetry: cr, RetryLevel: level, TimeoutResponseHeader: 300,
			SubClusters: []e2e.SubCluster{
				{Name: "s1", Weight: 100, Backends: []*e2e.Backend{a0, a1}},
				{Name: "s2", Weight: 0, Backends: []*e2e.Backend{c0, c1}},
				{Name: "s3", Weight: 0, Backends: []*e2e.Backend{e0}},
				{Name: "GSLB_BLACKHOLE", Weight: 0}}}},
		Handlers: 1,
	})
	e := &env{srv: srv, plan: plan, live: map[int]*e2e.Backend{0: a0, 2: c0, 4: e0, 5: y0}, idx: map[string]int{},
		dead: map[string]bool{a1.Addr(): true, c1.Addr(): true, y1.Addr(): true}}
	for _, cn := range []string{"c", "cy"} {
		if !srv.Bfe.VerifC08WrapTransport(cn, func(rt bfe_http.RoundTripper) bfe_http.RoundTripper { return &injector{rt, e} }) {
			panic("c08: no transport for cluster " + cn)
		}
	}
	for i := 0; i < 7; i++ {
		e.idx[name(i)] = i
	}
	e.main = []e2e.SubCluster{
		{Name: "s1", Weight: 100, Backends: []*e2e.Backend{a0, a1}},
		{Name: "s2", Weight: 0, Backends: []*e2e.Backend{c0, c1}},
		{Name: "s3", Weight: 0, Backends: []*e2e.Backend{e0}},
		{Name: "GSLB_BLACKHOLE", Weight: 0}}
	envs[k] = e
	return e
}

// reloadTo puts a dynamic cluster with the given retry settings into service through the reload path and routes
// d.example.org to it; the fault-injecting transport is installed on it afterwards (a reload re-creates transports).
func (e *env) reloadTo(name string, rm, cr, level int) bool {
	products := []e2e.Product{{Name: "p", Hosts: []string{"example.org"}, Cluster: "c"},
		{Name: "pd", Hosts: []string{"d.example.org"}, Cluster: name}}
	clusters := []e2e.Cluster{
		{Name: "c", RetryMax: 2, CrossRetry: 1, RetryLevel: 1, TimeoutResponseHeader: 300, SubClusters: e.main},
		{Name: name, RetryMax: rm, CrossRetry: cr, RetryLevel: level, TimeoutResponseHeader: 300, SubClusters: e.main}}
	if err := e.srv.Reload(products, "", clusters); err != nil {
		return false
	}
	return e.srv.Bfe.VerifC08WrapTransport(name, func(rt bfe_http.RoundTripper) bfe_http.RoundTripper { return &injector{rt, e} })
}

var methods = []string{"GET", "POST", "HEAD", "PUT"}

func impl(in hv.Val) hv.Val {
	l := hv.AsList(in)
	if len(l) < 6 || len(l) > 8 {
		return hv.Err(0)
	}
	hist := 0
	if len(l) == 8 {
		hist = int(hv.AsInt(l[7]))
		if hist < 0 || hist > 3 || hv.AsInt(l[6]) != 0 {
			return hv.Err(0)
		}
	}
	topo := 0
	if len(l) >= 7 {
		topo = int(hv.AsInt(l[6]))
		if topo < 0 || topo > 2 {
			return hv.Err(0)
		}
	}
	host := []string{"example.org", "y.example.org", "x.example.org"}[topo]
	rm, cr, level := int(hv.AsInt(l[0])), int(hv.AsInt(l[1])), int(hv.AsInt(l[2]))
	method, body := int(hv.AsInt(l[3])), int(hv.AsInt(l[4]))
	steps := hv.AsList(l[5])
	if rm < 0 || rm > 30 || cr < 0 || cr > 3 || level < 0 || level > 1 || method < 0 || method > 3 || body < 0 || body > 3 || len(steps) > 40 {
		return hv.Err(0)
	}
	e := getEnv(rm, cr, level)
	if hist > 0 {
		// the server of this env started with RetryMax 2 / CrossRetry 1 / RetryGet; the cluster under test arrives by reload
		e = getEnvK(1, 2, 1, 1)
		e.nDyn++
		name := fmt.Sprintf("d%d", e.nDyn)
		ok := true
		switch hist {
		case 1:
			ok = e.reloadTo(name, rm, cr, level)
		case 2:
			ok = e.reloadTo(name, (rm+2)%6, (cr+1)%4, 1-level) && e.reloadTo(name, rm, cr, level)
		case 3:
			ok = e.reloadTo(name, rm, cr, level) && e.reloadTo(name, rm, cr, level)
		}
		if !ok {
			return hv.Err(3)
		}
		host = "d.example.org"
	}
	e.plan.Reset()
	for _, b := range e.live {
		b.Reset()
	}
	e.srv.Mod.ResetCalls()
	e.srv.Mod.SetScript(e2e.Script{})
	ok200 := e2e.OK("ok")
	r500 := []byte("HTTP/1.1 500 X\r\nContent-Length: 2\r\n\r\nno")
	if method == 2 { // HEAD: no body bytes
		ok200 = []byte("HTTP/1.1 200 OK\r\nContent-Length: 2\r\n\r\n")
		r500 = []byte("HTTP/1.1 500 X\r\nContent-Length: 2\r\n\r\n")
	}
	for _, b := range e.live {
		b.Default = e2e.Reply(ok200)
	}
	e.mu.Lock()
	e.steps, e.ok200, e.r500, e.holds = nil, ok200, r500, nil
	for _, sv := range steps {
		c := int(hv.AsInt(sv))
		switch c {
		case 0, 1, 2, 4, 5, 11, 12, 13, 14, 16, 17, 18:
			e.steps = append(e.steps, c)
		default:
			e.mu.Unlock()
			return hv.Err(0)
		}
	}
	e.mu.Unlock()
	defer func() {
		e.mu.Lock()
		for _, h := range e.holds {
			e2e.Release(h)
		}
		e.holds = nil
		e.mu.Unlock()
	}()
	var sb strings.Builder
	fmt.Fprintf(&sb, "%s /c08 HTTP/1.1\r\nHost: %s\r\nConnection: close\r\nX-Verif-Id: r\r\n", methods[method], host)
	switch body {
	case 0:
		sb.WriteString("\r\n")
	case 1:
		sb.WriteString("Content-Length: 0\r\n\r\n")
	case 2:
		sb.WriteString("Content-Length: 3\r\n\r\nabc")
	case 3:
		sb.WriteString("Transfer-Encoding: chunked\r\n\r\n3\r\nabc\r\n0\r\n\r\n")
	}
	c := e.srv.Dial()
	defer c.Close()
	c.Send([]byte(sb.String()))
	status := 0
	if r, err := c.ReadResponseTo(methods[method]); err == nil {
		status = r.Status
	}
	if _, closed := c.ReadUntilClose(); !closed {
		return hv.Timeout()
	}
	att := hv.L{}
	for _, cl := range e.srv.Mod.Calls() {
		if cl.Point == bfe_module.HandleForward && cl.ReqID == "r" {
			att = append(att, hv.I(e.idx[cl.Backend]))
		}
	}
	type seen struct {
		seq int64
		id  int
	}
	var ss []seen
	for id, b := range e.live {
		for _, bc := range b.Conns() {
			if len(bc.Bytes) > 0 {
				ss = append(ss, seen{bc.Seq, id})
			}
		}
	}
	sort.Slice(ss, func(i, j int) bool { return ss[i].seq < ss[j].seq })
	saw := hv.L{}
	for _, s := range ss {
		saw = append(saw, hv.I(s.id))
	}
	return hv.L{att, saw, hv.I(status)}
}

var kinds = []int{11, 12, 13, 14, 16, 17, 18, 1, 2}

// structured stream: every error kind x method x body shape x retry level once (RetryMax 2, CrossRetry 1)
func structured() []hv.Val {
	var out []hv.Val
	for _, k := range kinds {
		for m := 0; m < 4; m++ {
			for b := 0; b < 4; b++ {
				if m == 2 && b >= 2 {
					continue
				}
				for lv := 0; lv < 2; lv++ {
					out = append(out, hv.L{hv.I(2), hv.I(1), hv.I(lv), hv.I(m), hv.I(b), hv.L{hv.I(k), hv.I(0)}})
				}
			}
		}
	}
	return out
}

var structuredCases = structured()

func gen(r *hv.Rng, i int, tier string) (string, hv.Val) {
	if i > 0 && i <= len(structuredCases) {
		in := structuredCases[i-1]
		return fmt.Sprintf("kind%d", hv.AsInt(hv.AsList(hv.AsList(in)[5])[0])), in
	}
	rm := []int{0, 1, 2, 3, 5}[r.Intn(5)]
	cr := []int{0, 0, 1, 2, 3}[r.Intn(5)]
	level := r.Intn(2)
	method := []int{0, 0, 0, 1, 2, 3}[r.Intn(6)]
	body := []int{0, 0, 1, 2, 3}[r.Intn(5)]
	if method == 2 {
		body = []int{0, 1}[r.Intn(2)]
	}
	if r.Chance(1, 3) { // the class where replaying is allowed
		level, method, body = 1, 0, r.Intn(2)
	}
	steps := hv.L{}
	class := "ok-first"
	if r.Chance(3, 4) {
		nf := r.Intn(rm + cr + 3)
		for k := 0; k < nf; k++ {
			if r.Chance(1, 30) {
				steps = append(steps, hv.I(5))
			} else if r.Chance(1, 2) {
				steps = append(steps, hv.I(kinds[r.Intn(len(kinds))]))
			} else {
				steps = append(steps, hv.I(1+r.Intn(2)))
			}
		}
		if nf > 0 {
			class = "fail-run"
		}
	}
	steps = append(steps, hv.I([]int{0, 0, 0, 4}[r.Intn(4)]))
	safe := level == 1 && method == 0 && body <= 1
	if safe {
		class += "-safe"
	} else if method == 0 {
		class += "-get"
	} else {
		class += "-" + strings.ToLower(methods[method])
	}
	if i == 0 {
		return "triv-ok", hv.L{hv.I(0), hv.I(0), hv.I(0), hv.I(0), hv.I(0), hv.L{hv.I(0)}}
	}
	if r.Chance(1, 50) { // the hard cap of 20 loop iterations: RetryMax 25, a replayable GET, 19..30 failing attempts
		n := 18 + r.Intn(13)
		st := hv.L{}
		for k := 0; k < n; k++ {
			st = append(st, hv.I([]int{12, 14, 11, 13}[r.Intn(4)]))
		}
		st = append(st, hv.I(0))
		return "cap20", hv.L{hv.I(25), hv.I(r.Intn(3)), hv.I(1), hv.I(0), hv.I(r.Intn(2)), st}
	}
	if r.Chance(1, 10) { // the cluster gets its retry settings through the reload path
		h := []int{1, 1, 2, 3}[r.Intn(4)]
		return fmt.Sprintf("reload%d-%s", h, class), hv.L{hv.I(rm), hv.I(cr), hv.I(level), hv.I(method), hv.I(body), steps, hv.I(0), hv.I(h)}
	}
	if r.Chance(1, 8) {
		topo := 1 + r.Intn(2)
		if r.Chance(3, 4) {
			topo = 1
		}
		return fmt.Sprintf("topo%d-%s", topo, class), hv.L{hv.I(rm), hv.I(cr), hv.I(level), hv.I(method), hv.I(body), steps, hv.I(topo)}
	}
	return class, hv.L{hv.I(rm), hv.I(cr), hv.I(level), hv.I(method), hv.I(body), steps}
}

func main() {
	hv.Main(&hv.Spec{Prop: "C08", Gen: gen, Impl: impl, NQuick: 1500, NThorough: 30000})
	for _, e := range envs {
		e.srv.Close()
	}
	e2e.RemoveAll()
	os.Stdout.Sync()
}
