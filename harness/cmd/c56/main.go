// C56: mod_doh.RequestToDnsMsg (requestToMsgGet / requestToMsgPost / setClientSubnet) vs model Doh.v.
// input : [method:B values:LB body:B limit:Z remote:LB client:LB oracle fail:Z]
//   fail = -1, or k: the body reader delivers body[:k] and then returns io.ErrUnexpectedEOF (short body vs Content-Length)
//   values = values of the "dns" query parameter (after URL decoding); body = POST body;
//   limit  = value of maxPostMsgLength for this case (0 = leave the package default, which must be 8192);
//   remote/client = raw IP bytes of Request.RemoteAddr / Request.ClientAddr (0 or 1 element each; 0 = nil);
//   oracle = [[buf res] ...] table of the external miekg/dns codec at the buffers the code may parse:
//            res = [] (Unpack fails) | [canon nExtra nOpt rcode] with canon = Pack(Unpack(buf)), rcode = Msg.Rcode.
// output: Err 1 (rejected) | Err 2 (result does not pack) |
//         [nExtra nOpt canon []] when RemoteAddr is nil (canon of the whole result) |
//         [nExtra nOpt canonWithoutLastExtra last], last = [name rrtype udpsize ttl [[code family mask scope addr]...]] for an OPT RR
// further inputs: [1 retryMax timeoutMs] -> NewDnsClient configuration [net udpSize timeoutMs singleInflight retryMax];
//   [2 reqA reqB] -> two concurrent DnsClient.Fetch calls against an in-process UDP upstream (answers after 30 ms):
//   [[okA replyIdA] [okB replyIdB] [[id family mask scope addr] ... sorted by id]] = what the upstream received
package main

import (
	"encoding/base64"
	"io"
	"io/ioutil"
	"sort"
	"sync"
	"time"
	"net"
	"net/url"

	"verif/harness/hv"

	"github.com/bfenetworks/bfe/bfe_basic"
	"github.com/bfenetworks/bfe/bfe_http"
	"github.com/bfenetworks/bfe/bfe_modules/mod_doh"
	"github.com/miekg/dns"
)

var defaultLimit int64 = -1

// bodyReader delivers data in small reads (size depends on the data length only) and ends with io.EOF or,
// when failAt >= 0, with io.ErrUnexpectedEOF after failAt bytes.
type bodyReader struct {
	data   []byte
	pos    int
	chunk  int
	failAt int
}

func (b *bodyReader) Read(p []byte) (int, error) {
	end := len(b.data)
	if b.failAt >= 0 {
		end = b.failAt
	}
	if b.pos >= end {
		if b.failAt >= 0 {
			return 0, io.ErrUnexpectedEOF
		}
		return 0, io.EOF
	}
	n := b.chunk
	if n > len(p) {
		n = len(p)
	}
	if n > end-b.pos {
		n = end - b.pos
	}
	copy(p, b.data[b.pos:b.pos+n])
	b.pos += n
	return n, nil
}
func (b *bodyReader) Close() error { return nil }

func countOpt(m *dns.Msg) int {
	n := 0
	for _, rr := range m.Extra {
		if rr.Header().Rrtype == dns.TypeOPT {
			n++
		}
	}
	return n
}

func describeRR(rr dns.RR) hv.Val {
	h := rr.Header()
	opt, ok := rr.(*dns.OPT)
	if !ok {
		return hv.L{hv.S(h.Name), hv.I(int(h.Rrtype))}
	}
	opts := hv.L{}
	for _, o := range opt.Option {
		if s, ok := o.(*dns.EDNS0_SUBNET); ok {
			var addr []byte
			if s.Family == 1 {
				addr = s.Address.To4()
			} else {
				addr = s.Address.To16()
			}
			opts = append(opts, hv.L{hv.I(int(o.Option())), hv.I(int(s.Family)), hv.I(int(s.SourceNetmask)), hv.I(int(s.SourceScope)), hv.B(addr)})
		} else {
			opts = append(opts, hv.L{hv.I(int(o.Option()))})
		}
	}
	return hv.L{hv.S(h.Name), hv.I(int(h.Rrtype)), hv.I(int(h.Class)), hv.U(uint64(h.Ttl)), opts}
}

func buildReq(in hv.Val) (*bfe_basic.Request, hv.L) {
	top := hv.AsList(in)
	method := hv.AsStr(top[0])
	values := hv.AsList(top[1])
	body := hv.AsBytes(top[2])
	limit := hv.AsInt(top[3])
	remote := hv.AsList(top[4])
	client := hv.AsList(top[5])
	failAt := int(hv.AsInt(top[7]))

	if defaultLimit < 0 {
		defaultLimit = mod_doh.VerifSetMaxPostMsgLength(8192)
		mod_doh.VerifSetMaxPostMsgLength(defaultLimit)
	}
	if limit == 0 {
		mod_doh.VerifSetMaxPostMsgLength(defaultLimit)
	} else {
		mod_doh.VerifSetMaxPostMsgLength(limit)
	}
	q := url.Values{}
	q.Add("ct", "application/dns-message")
	for _, v := range values {
		q.Add("dns", hv.AsStr(v))
	}
	hr := &bfe_http.Request{Method: method, URL: &url.URL{Scheme: "https", Host: "example.org", Path: "/dns-query", RawQuery: q.Encode()},
		Header: bfe_http.Header{}, Body: &bodyReader{data: body, chunk: 1 + (len(body)*7+3)%61, failAt: failAt}}
	req := new(bfe_basic.Request)
	req.HttpRequest = hr
	if len(remote) == 1 {
		req.RemoteAddr = &net.TCPAddr{IP: net.IP(append([]byte(nil), hv.AsBytes(remote[0])...)), Port: 4000}
	}
	if len(client) == 1 {
		req.ClientAddr = &net.TCPAddr{IP: net.IP(append([]byte(nil), hv.AsBytes(client[0])...)), Port: 5000}
	}
	return req, remote
}

// ---- in-process upstream resolver
type upEntry struct {
	id   int
	desc hv.Val
}

var (
	upOnce sync.Once
	upAddr string
	upMu   sync.Mutex
	upLog  []upEntry
)

func startUpstream() {
	pc, err := net.ListenPacket("udp", "127.0.0.1:0")
	if err != nil {
		panic(err)
	}
	upAddr = pc.LocalAddr().String()
	h := dns.HandlerFunc(func(w dns.ResponseWriter, r *dns.Msg) {
		fam, mask, scope := 0, 0, 0
		var addr []byte
		if opt := r.IsEdns0(); opt != nil {
			for _, o := range opt.Option {
				if s, ok := o.(*dns.EDNS0_SUBNET); ok {
					fam, mask, scope = int(s.Family), int(s.SourceNetmask), int(s.SourceScope)
					if s.Family == 1 {
						addr = s.Address.To4()
					} else {
						addr = s.Address.To16()
					}
				}
			}
		}
		upMu.Lock()
		upLog = append(upLog, upEntry{int(r.Id), hv.L{hv.I(int(r.Id)), hv.I(fam), hv.I(mask), hv.I(scope), hv.B(addr)}})
		upMu.Unlock()
		time.Sleep(30 * time.Millisecond)
		m := new(dns.Msg)
		m.SetReply(r)
		_ = w.WriteMsg(m)
	})
	srv := &dns.Server{PacketConn: pc, Handler: h}
	go func() { _ = srv.ActivateAndServe() }()
}

func fetchPair(a, b hv.Val) hv.Val {
	upOnce.Do(startUpstream)
	upMu.Lock()
	upLog = nil
	upMu.Unlock()
	client := mod_doh.NewDnsClient(&mod_doh.DnsConf{Address: upAddr, RetryMax: 0, Timeout: 8000})
	reqA, _ := buildReq(a)
	reqB, _ := buildReq(b)
	res := make([]hv.Val, 2)
	var wg sync.WaitGroup
	one := func(k int, req *bfe_basic.Request) {
		defer wg.Done()
		defer func() {
			if recover() != nil {
				res[k] = hv.L{hv.I(-2), hv.I(0)}
			}
		}()
		resp, err := client.Fetch(req)
		if err != nil {
			res[k] = hv.L{hv.I(0), hv.I(0)}
			return
		}
		data, _ := ioutil.ReadAll(resp.Body)
		m := new(dns.Msg)
		if err := m.Unpack(data); err != nil {
			res[k] = hv.L{hv.I(0), hv.I(1)}
			return
		}
		res[k] = hv.L{hv.I(1), hv.I(int(m.Id))}
	}
	wg.Add(2)
	go one(0, reqA)
	time.Sleep(8 * time.Millisecond) // B arrives while A is still waiting for the upstream
	go one(1, reqB)
	wg.Wait()
	upMu.Lock()
	log := append([]upEntry(nil), upLog...)
	upMu.Unlock()
	sort.SliceStable(log, func(i, j int) bool { return log[i].id < log[j].id })
	lv := hv.L{}
	for _, e := range log {
		lv = append(lv, e.desc)
	}
	return hv.L{res[0], res[1], lv}
}

func impl(in hv.Val) hv.Val {
	top := hv.AsList(in)
	if _, isBytes := top[0].(hv.B); !isBytes {
		switch hv.AsInt(top[0]) {
		case 1:
			netw, udp, to, single, retry, _ := mod_doh.VerifDnsClientConfigC56(&mod_doh.DnsConf{Address: "127.0.0.1:53",
				RetryMax: int(hv.AsInt(top[1])), Timeout: int(hv.AsInt(top[2]))})
			return hv.L{hv.S(netw), hv.I(udp), hv.Z(to), hv.Bool(single), hv.I(retry)}
		case 2:
			return fetchPair(top[1], top[2])
		}
		return hv.Err(9)
	}
	req, remote := buildReq(in)
	msg, err := mod_doh.RequestToDnsMsg(req)
	if err != nil {
		return hv.Err(1)
	}
	// what goes on the wire: pack, then re-parse with the vendored miekg/dns
	wire, err := msg.Pack()
	if err != nil {
		return hv.Err(2)
	}
	back := new(dns.Msg)
	if err := back.Unpack(wire); err != nil {
		return hv.Err(3)
	}
	ne := len(back.Extra)
	if len(remote) == 0 { // nothing is appended without RemoteAddr: report the whole message
		canon, err := back.Pack()
		if err != nil {
			return hv.Err(5)
		}
		return hv.L{hv.I(ne), hv.I(countOpt(back)), hv.B(canon), hv.L{}}
	}
	if ne == 0 {
		return hv.Err(4)
	}
	last := back.Extra[ne-1]
	nopt := countOpt(back)
	rest := back.Copy()
	rest.Extra = rest.Extra[:ne-1]
	canon, err := rest.Pack()
	if err != nil {
		return hv.Err(5)
	}
	return hv.L{hv.I(ne), hv.I(nopt), hv.B(canon), describeRR(last)}
}

// ---- oracle: Pack(Unpack(buf))
func oracleEntry(buf []byte) hv.Val {
	m := new(dns.Msg)
	if err := m.Unpack(buf); err != nil {
		return hv.L{hv.B(buf), hv.L{}}
	}
	canon, err := m.Pack()
	if err != nil {
		return hv.L{hv.B(buf), hv.L{}}
	}
	// the canonical form must itself be stable under a further round trip (checked here so that the
	// "message preserved" comparison is meaningful); unstable messages are treated as unparseable by nobody:
	return hv.L{hv.B(buf), hv.L{hv.B(canon), hv.I(len(m.Extra)), hv.I(countOpt(m)), hv.I(m.Rcode)}}
}

var names = []string{"example.org.", "a.b.c.example.com.", ".", "xn--bcher-kva.example.", "very-long-label-very-long-label-very-long-label-very-long.example."}

func genMsg(r *hv.Rng) (*dns.Msg, string) {
	m := new(dns.Msg)
	m.Id = uint16(r.Intn(65536))
	m.RecursionDesired = r.Bool()
	m.CheckingDisabled = r.Chance(1, 4)
	m.AuthenticatedData = r.Chance(1, 6)
	qt := []uint16{dns.TypeA, dns.TypeAAAA, dns.TypeMX, dns.TypeTXT, dns.TypeSRV, dns.TypeANY}
	nq := 1
	if r.Chance(1, 10) {
		nq = r.Intn(3)
	}
	for i := 0; i < nq; i++ {
		m.Question = append(m.Question, dns.Question{Name: r.Pick(names), Qtype: qt[r.Intn(len(qt))], Qclass: dns.ClassINET})
	}
	class := "plain"
	if r.Chance(1, 8) { // an additional non-OPT record
		m.Extra = append(m.Extra, &dns.TXT{Hdr: dns.RR_Header{Name: r.Pick(names), Rrtype: dns.TypeTXT, Class: dns.ClassINET, Ttl: uint32(r.Intn(1000))}, Txt: []string{"hello"}})
		class = "extra"
	}
	if r.Chance(1, 5) { // the client already uses EDNS0 (what browsers do)
		o := new(dns.OPT)
		o.Hdr.Name = "."
		o.Hdr.Rrtype = dns.TypeOPT
		o.SetUDPSize([]uint16{512, 1232, 4096}[r.Intn(3)])
		if r.Bool() {
			o.SetDo()
		}
		switch r.Intn(3) {
		case 0:
			o.Option = append(o.Option, &dns.EDNS0_PADDING{Padding: make([]byte, r.Intn(40))})
		case 1:
			o.Option = append(o.Option, &dns.EDNS0_SUBNET{Code: dns.EDNS0SUBNET, Family: 1, SourceNetmask: 24, Address: net.IPv4(192, 0, 2, 0)})
		}
		m.Extra = append(m.Extra, o)
		class = "edns"
	}
	if r.Chance(1, 10) {
		m.Answer = append(m.Answer, &dns.A{Hdr: dns.RR_Header{Name: r.Pick(names), Rrtype: dns.TypeA, Class: dns.ClassINET, Ttl: 60}, A: net.IPv4(10, 0, 0, byte(r.Intn(256)))})
	}
	return m, class
}

func genIP(r *hv.Rng) ([]byte, string) {
	switch r.Intn(8) {
	case 0, 1, 2:
		return r.Bytes(4), "v4"
	case 3:
		b := net.IPv4(byte(r.Intn(256)), byte(r.Intn(256)), byte(r.Intn(256)), byte(r.Intn(256)))
		return []byte(b), "v4in16"
	case 4:
		b := r.Bytes(16)
		for i := 0; i < 10; i++ {
			b[i] = 0
		} // ::xxxx:a.b.c.d, mostly not mapped
		if r.Bool() {
			b[10], b[11] = 0xff, 0xff
			return b, "v4in16"
		}
		if b[10] == 0xff && b[11] == 0xff {
			b[10] = 0xfe
		}
		return b, "v6"
	default:
		b := r.Bytes(16)
		if r.Bool() {
			copy(b, []byte{0x20, 0x01, 0x0d, 0xb8})
		}
		allz := true
		for i := 0; i < 10; i++ {
			if b[i] != 0 {
				allz = false
			}
		}
		if allz {
			b[0] = 0x20
		}
		return b, "v6"
	}
}

// two clients asking the same question at the same time (different IDs, different addresses)
func genPair(r *hv.Rng) (string, hv.Val) {
	q := dns.Question{Name: r.Pick(names), Qtype: []uint16{dns.TypeA, dns.TypeAAAA, dns.TypeTXT}[r.Intn(3)], Qclass: dns.ClassINET}
	ida := r.Intn(65536)
	idb := (ida + 1 + r.Intn(65535)) % 65536
	one := func(id int) (hv.Val, string) {
		m := new(dns.Msg)
		m.Id = uint16(id)
		m.RecursionDesired = true
		m.Question = []dns.Question{q}
		wire, _ := m.Pack()
		ip, c := genIP(r)
		remote := hv.L{hv.B(ip)}
		client := hv.L{}
		if r.Chance(1, 3) {
			cip, cc := genIP(r)
			client = hv.L{hv.B(cip)}
			c = cc
		}
		if r.Bool() {
			return hv.L{hv.S("GET"), hv.L{hv.S(base64.RawURLEncoding.EncodeToString(wire))}, hv.B(nil), hv.I(0), remote, client, hv.L{oracleEntry(wire)}, hv.I(-1)}, c
		}
		return hv.L{hv.S("POST"), hv.L{}, hv.B(wire), hv.I(0), remote, client, hv.L{oracleEntry(wire)}, hv.I(-1)}, c
	}
	a, ca := one(ida)
	b, cb := one(idb)
	return "fetch/pair-" + ca + "-" + cb, hv.L{hv.I(2), a, b}
}

func gen(r *hv.Rng, i int, tier string) (string, hv.Val) {
	if i%100 == 7 {
		return genPair(r)
	}
	if i%100 == 57 {
		return "fetch/conf", hv.L{hv.I(1), hv.I(r.Intn(4)), hv.I(r.Range(1, 5000))}
	}
	m, mclass := genMsg(r)
	wire, err := m.Pack()
	if err != nil {
		wire = []byte{0, 1, 2}
	}
	// damage
	dmg := ""
	switch k := r.Intn(20); {
	case k == 0:
		wire = wire[:r.Intn(len(wire))]
		dmg = "cut"
	case k == 1:
		wire = append(wire, r.Bytes(r.Range(1, 20))...)
		dmg = "trail"
	case k == 2:
		wire[r.Intn(len(wire))] ^= byte(1 << uint(r.Intn(8)))
		dmg = "flip"
	case k == 3:
		wire = r.Bytes(r.Intn(30))
		dmg = "rand"
	}
	remoteB, rc := genIP(r)
	remote := hv.L{hv.B(remoteB)}
	client := hv.L{}
	ipclass := rc
	if r.Chance(1, 20) {
		remote = hv.L{}
		ipclass = "noremote"
	}
	if r.Chance(1, 3) {
		c, cc := genIP(r)
		client = hv.L{hv.B(c)}
		ipclass = cc + "-via-" + rc
	}
	method := "POST"
	if r.Bool() {
		method = "GET"
	}
	if r.Chance(1, 25) {
		method = r.Pick([]string{"PUT", "HEAD", "get", "post", ""})
	}
	limit := 0
	values := hv.L{}
	body := []byte{}
	var bufs [][]byte
	class := method + "/" + mclass
	if dmg != "" {
		class += "-" + dmg
	}
	if method == "POST" || (method != "GET" && r.Bool()) {
		body = wire
		switch k := r.Intn(10); {
		case k < 4: // default limit, small body
		case k < 8: // small limit around the body length
			limit = len(wire) + r.Range(-3, 3)
			if limit < 1 {
				limit = 1
			}
			class += "/limit"
		case k == 8: // oversized by trailing bytes or by more records than fit
			limit = r.Range(12, 64)
			class += "/limit-small"
		default:
			if tier != "quick" || r.Chance(1, 4) { // real limit: pad the body with trailing bytes up to around 8192
				pad := 8192 - len(wire) + r.Range(-2, 2)
				body = append(append([]byte{}, wire...), make([]byte, pad)...)
				class += "/limit-8192"
			}
		}
		if r.Chance(1, 6) && limit == 0 { // message with many additional records, cut at a record boundary by the limit
			big := m.Copy()
			for j := 0; j < r.Range(2, 6); j++ {
				big.Extra = append(big.Extra, &dns.TXT{Hdr: dns.RR_Header{Name: "t.example.", Rrtype: dns.TypeTXT, Class: dns.ClassINET, Ttl: 1}, Txt: []string{"0123456789"}})
			}
			if w2, err := big.Pack(); err == nil {
				body = w2
				// one such TXT record is 11 (name) + 10 (type class ttl rdlength) + 11 (rdata) = 32 bytes
				limit = len(w2) - 32*r.Range(0, 2)
				if r.Chance(1, 3) {
					limit += r.Range(-1, 1)
				}
				class = method + "/records-vs-limit"
			}
		}
		lim := limit
		if lim == 0 {
			lim = 8192
		}
		bufs = append(bufs, body)
		if len(body) > lim {
			bufs = append(bufs, body[:lim])
		}
	}
	if method == "GET" || (method != "POST" && len(body) == 0) {
		enc := base64.RawURLEncoding.EncodeToString(wire)
		switch k := r.Intn(24); {
		case k == 0:
			enc = base64.URLEncoding.EncodeToString(wire) // padded
			class += "/b64-padded"
		case k == 1:
			enc = base64.RawStdEncoding.EncodeToString(wire) // + and /
			class += "/b64-std"
		case k == 2:
			p := r.Intn(len(enc) + 1)
			enc = enc[:p] + r.Pick([]string{"\n", "\r", "\r\n", " ", "=", "!", "%"}) + enc[p:]
			class += "/b64-junk"
		case k == 3 && len(enc) > 0:
			enc = enc[:len(enc)-1]
			class += "/b64-short"
		case k == 4:
			values = append(values, hv.S(enc))
			class += "/two-values"
		case k == 5:
			enc = ""
			class += "/b64-empty"
		}
		if k := r.Intn(30); k == 0 {
			class += "/no-value"
		} else {
			values = append(values, hv.S(enc))
		}
		for _, v := range values {
			if b, err := base64.RawURLEncoding.DecodeString(hv.AsStr(v)); err == nil {
				bufs = append(bufs, b)
			}
		}
	}
	oracle := hv.L{}
	seen := map[string]bool{}
	for _, b := range bufs {
		if !seen[string(b)] {
			seen[string(b)] = true
			oracle = append(oracle, oracleEntry(b))
		}
	}
	class += "/" + ipclass
	// body reader failures (short body vs Content-Length): before / at / after the limit, at 0 and at the end
	fail := -1
	if len(body) > 0 && r.Chance(1, 6) {
		lim := limit
		if lim == 0 {
			lim = 8192
		}
		switch r.Intn(6) {
		case 0:
			fail = 0
		case 1:
			fail = len(body)
		case 2:
			fail = lim - 1
		case 3:
			fail = lim
		case 4:
			fail = lim + 1
		default:
			fail = r.Intn(len(body) + 1)
		}
		if fail < 0 {
			fail = 0
		}
		if fail > len(body) {
			fail = len(body)
		}
		class += "/readerr"
	}
	return class, hv.L{hv.S(method), values, hv.B(body), hv.I(limit), remote, client, oracle, hv.I(fail)}
}

func main() {
	hv.Main(&hv.Spec{Prop: "C56", Gen: gen, Impl: impl, NQuick: 6000, NThorough: 300000})
}
