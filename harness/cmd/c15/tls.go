// C15, TLS part: hot reload of the TLS tables (MultiCertMap: vip table, SNI table, default certificate; TLSServerRuleMap).
// Input kind [100 [op ...]], see coq/model/SnapshotTlsWire.v.
//
// TLS configuration version t (1..3): default certificate CN d<t>; certificate CN s<t> (DNS sni.example.org); certificate
// CN v<t> (DNS vip.example.org) named by the rule of product pr with vip 10.0.0.1 (t = 1, 3) resp. 10.0.0.2 (t = 2); the
// rule's NextProtos and DefaultNextProtos start with http/1.1 (t = 1), h2 (t = 2), spdy/3.1 (t = 3).  The version a
// handshake was answered from is read off the certificate's CommonName and the negotiated ALPN protocol.  The vip of a
// connection is supplied by a harness-owned listener whose connections implement bfe_util.AddressFetcher.
package main

import (
	"crypto/rand"
	"crypto/rsa"
	"crypto/tls"
	"crypto/x509"
	"crypto/x509/pkix"
	"encoding/pem"
	"fmt"
	"io/ioutil"
	"math/big"
	"net"
	"net/url"
	"os"
	"path/filepath"
	"sync"
	"time"

	"verif/harness/hv"

	"github.com/bfenetworks/bfe/bfe_config/bfe_tls_conf/server_cert_conf"
	"github.com/bfenetworks/bfe/bfe_config/bfe_tls_conf/tls_rule_conf"
	"github.com/bfenetworks/bfe/bfe_server"
	"github.com/bfenetworks/bfe/bfe_tls"
)

type vipConn struct {
	net.Conn
	vip *net.TCPAddr
}

func (c *vipConn) VirtualAddr() net.Addr {
	if c.vip == nil {
		return nil
	}
	return c.vip
}
func (c *vipConn) BalancerAddr() net.Addr { return nil }

type vipListener struct {
	net.Listener
	vip *net.TCPAddr
}

func (l *vipListener) Accept() (net.Conn, error) {
	c, err := l.Listener.Accept()
	if err != nil {
		return nil, err
	}
	return &vipConn{Conn: c, vip: l.vip}, nil
}

type tlsEnv struct {
	dir   string
	addr  [2]string // [0] listener without vip, [1] listener whose connections carry vip 10.0.0.1
	certs [4]map[string]*bfe_tls.Certificate
	rules [4]tls_rule_conf.TlsRuleMap
}

var T *tlsEnv

var protosOf = map[int][]string{1: {"http/1.1"}, 2: {"h2", "http/1.1"}, 3: {"spdy/3.1", "http/1.1"}}

func writeTLSVersion(dir string, t int, key *rsa.PrivateKey, keyPEM []byte, badRule bool) {
	os.MkdirAll(dir, 0755)
	certConf := M{}
	mk := func(cn string, dns ...string) {
		tmpl := &x509.Certificate{
			SerialNumber: big.NewInt(int64(1000*t) + int64(len(certConf))), Subject: pkix.Name{CommonName: cn, Organization: []string{"verif"}},
			NotBefore: time.Unix(1500000000, 0), NotAfter: time.Unix(4000000000, 0), DNSNames: dns,
			KeyUsage: x509.KeyUsageDigitalSignature | x509.KeyUsageKeyEncipherment, ExtKeyUsage: []x509.ExtKeyUsage{x509.ExtKeyUsageServerAuth},
		}
		der, err := x509.CreateCertificate(rand.Reader, tmpl, tmpl, &key.PublicKey, key)
		if err != nil {
			panic(err)
		}
		crt, kf := filepath.Join(dir, cn+".crt"), filepath.Join(dir, cn+".key")
		ioutil.WriteFile(crt, pem.EncodeToMemory(&pem.Block{Type: "CERTIFICATE", Bytes: der}), 0644)
		ioutil.WriteFile(kf, keyPEM, 0644)
		certConf[cn] = M{"ServerCertFile": crt, "ServerKeyFile": kf}
	}
	d, s, v := fmt.Sprintf("d%d", t), fmt.Sprintf("s%d", t), fmt.Sprintf("v%d", t)
	mk(d, "default.example.org")
	mk(s, "sni.example.org")
	mk(v, "vip.example.org")
	writeJSON(filepath.Join(dir, "server_cert_conf.data"), M{"Version": fmt.Sprint(t), "Config": M{"Default": d, "CertConf": certConf}})
	vip := "10.0.0.1"
	if t == 2 {
		vip = "10.0.0.2"
	}
	cn := v
	if badRule {
		cn = "no_such_cert"
	}
	writeJSON(filepath.Join(dir, "tls_rule_conf.data"), M{"Version": fmt.Sprint(t), "DefaultNextProtos": protosOf[t],
		"Config": M{"pr": M{"VipConf": []string{vip}, "SniConf": []string{"vip.example.org"}, "CertName": cn,
			"NextProtos": protosOf[t], "Grade": "C", "ClientAuth": false}}})
}

func tlsSetup() *tlsEnv {
	if T != nil {
		return T
	}
	e := setup()
	t := &tlsEnv{dir: filepath.Join(e.srv.ConfRoot, "x3tls")}
	key, err := rsa.GenerateKey(rand.Reader, 2048)
	if err != nil {
		panic(err)
	}
	keyPEM := pem.EncodeToMemory(&pem.Block{Type: "RSA PRIVATE KEY", Bytes: x509.MarshalPKCS1PrivateKey(key)})
	for v := 1; v <= 3; v++ {
		d := filepath.Join(t.dir, fmt.Sprintf("t%d", v))
		writeTLSVersion(d, v, key, keyPEM, false)
		writeTLSVersion(filepath.Join(t.dir, fmt.Sprintf("bad%d", v)), v, key, keyPEM, true)
		cc, err := server_cert_conf.ServerCertConfLoad(filepath.Join(d, "server_cert_conf.data"), e.srv.ConfRoot)
		if err != nil {
			panic(err)
		}
		if t.certs[v], err = server_cert_conf.ServerCertParse(cc); err != nil {
			panic(err)
		}
		rc, err := tls_rule_conf.TlsRuleConfLoad(filepath.Join(d, "tls_rule_conf.data"))
		if err != nil {
			panic(err)
		}
		t.rules[v] = rc.Config
	}
	for k := 0; k < 2; k++ {
		ln, err := net.Listen("tcp", "127.0.0.1:0")
		if err != nil {
			panic(err)
		}
		vl := &vipListener{Listener: ln}
		if k == 1 {
			vl.vip = &net.TCPAddr{IP: net.ParseIP("10.0.0.1"), Port: 443}
		}
		t.addr[k] = ln.Addr().String()
		go e.srv.Bfe.ServeHttps(bfe_server.NewHttpsListener(vl, e.srv.Bfe.TLSConfig))
	}
	T = t
	return t
}

func (t *tlsEnv) reload(v int, bad bool) error {
	d := fmt.Sprintf("t%d", v)
	if bad {
		d = fmt.Sprintf("bad%d", v)
	}
	return E.srv.Bfe.TLSConfReload(url.Values{"path": {filepath.Join(t.dir, d)}})
}

// directUpdate calls MultiCertMap.Update; rej 0 = good, 2 = a rule names an unknown certificate, 3 = no default certificate.
func (t *tlsEnv) directUpdate(v, rej int) error {
	certs := map[string]*bfe_tls.Certificate{}
	for k, c := range t.certs[v] {
		certs[k] = c
	}
	rules := tls_rule_conf.TlsRuleMap{}
	for k, r := range t.rules[v] {
		rc := *r
		rules[k] = &rc
	}
	switch rej {
	case 2:
		rules["pr"].CertName = "no_such_cert"
	case 3:
		delete(certs, server_cert_conf.DefaultCert)
	}
	return E.srv.Bfe.MultiCert.Update(certs, rules)
}

// probe does one handshake; returns (kind, version, rule version); kind 0 = handshake failed.
func (t *tlsEnv) probe(who int) (int, int, int) {
	addr, sni := t.addr[0], ""
	switch who {
	case 0:
		sni = "sni.example.org"
	case 1:
		addr, sni = t.addr[1], "sni.example.org"
	case 3:
		sni = "unknown.example.org"
	}
	raw, err := net.DialTimeout("tcp", addr, E.srv.Deadline)
	if err != nil {
		return 0, 0, 0
	}
	defer raw.Close()
	raw.SetDeadline(time.Now().Add(E.srv.Deadline))
	c := tls.Client(raw, &tls.Config{InsecureSkipVerify: true, ServerName: sni, MaxVersion: tls.VersionTLS12,
		NextProtos: []string{"h2", "spdy/3.1", "http/1.1"}})
	if err := c.Handshake(); err != nil {
		if os.Getenv("VERIF_DEBUG") != "" {
			fmt.Fprintf(os.Stderr, "tls probe %d: %v\n", who, err)
		}
		return 0, 0, 0
	}
	st := c.ConnectionState()
	if len(st.PeerCertificates) == 0 {
		return 0, 0, 0
	}
	cn := st.PeerCertificates[0].Subject.CommonName
	kind, ver := 0, 0
	if len(cn) == 2 && cn[1] >= '1' && cn[1] <= '3' {
		ver = int(cn[1] - '0')
		kind = map[byte]int{'v': 1, 's': 2, 'd': 3}[cn[0]]
	}
	rule := map[string]int{"http/1.1": 1, "": 1, "h2": 2, "spdy/3.1": 3}[st.NegotiatedProtocol]
	return kind, ver, rule
}

func tlsLegal(in hv.L) (hv.L, bool) {
	if len(in) != 2 {
		return nil, false
	}
	if _, isL := in[0].(hv.L); isL {
		return nil, false
	}
	if _, isB := in[0].(hv.B); isB {
		return nil, false
	}
	if hv.AsInt(in[0]) != 100 {
		return nil, false
	}
	ops, ok := in[1].(hv.L)
	if !ok || len(ops) > 16 {
		return nil, false
	}
	in3 := func(lo, hi, x int) bool { return lo <= x && x <= hi }
	for _, ov := range ops {
		op, ok := ov.(hv.L)
		if !ok || len(op) < 2 {
			return nil, false
		}
		for _, x := range op {
			if _, isL := x.(hv.L); isL {
				return nil, false
			}
			if _, isB := x.(hv.B); isB {
				return nil, false
			}
		}
		a := func(k int) int { return int(hv.AsInt(op[k])) }
		switch a(0) {
		case 1, 3:
			if len(op) != 2 || !in3(1, 3, a(1)) {
				return nil, false
			}
		case 2:
			if len(op) != 3 || !in3(1, 3, a(1)) || !in3(1, 3, a(2)) {
				return nil, false
			}
		case 4:
			if len(op) != 2 || !in3(0, 3, a(1)) {
				return nil, false
			}
		case 5:
			if len(op) != 4 || !in3(0, 1000000, a(1)) || !in3(1, 6, a(2)) || !in3(1, 3, a(3)) {
				return nil, false
			}
		default:
			return nil, false
		}
	}
	return ops, true
}

func (t *tlsEnv) burst(seed, n, tf int) bool {
	var wg, rg sync.WaitGroup
	stop := make(chan struct{})
	ok := true
	var mu sync.Mutex
	fail := func() { mu.Lock(); ok = false; mu.Unlock() }
	stopped := func(k, min int) bool {
		if k < min {
			return false
		}
		select {
		case <-stop:
			return true
		default:
			return false
		}
	}
	for w := 0; w < 2; w++ { // two loops of complete TLS reloads cycling through the versions
		rg.Add(1)
		go func(w int) {
			defer rg.Done()
			for k := 0; !stopped(k, 2); k++ {
				if t.reload(1+(seed+k+w)%3, false) != nil {
					fail()
				}
			}
		}(w)
	}
	rg.Add(1)
	go func() { // updates that are rejected at the default-certificate check
		defer rg.Done()
		for k := 0; !stopped(k, 2); k++ {
			if t.directUpdate(1+(seed+2+k)%3, 3) == nil {
				fail()
			}
		}
	}()
	for c := 0; c < 4; c++ {
		wg.Add(1)
		go func() {
			defer wg.Done()
			for j := 0; j < n; j++ {
				kind, ver, _ := t.probe(1)
				// vip 10.0.0.1 + known SNI: versions 1 and 3 answer with their vip certificate, version 2 with its SNI certificate
				if !((kind == 1 && (ver == 1 || ver == 3)) || (kind == 2 && ver == 2)) {
					if os.Getenv("VERIF_DEBUG") != "" {
						fmt.Fprintf(os.Stderr, "tls burst: mixed answer kind=%d ver=%d\n", kind, ver)
					}
					fail()
				}
			}
		}()
	}
	wg.Wait()
	close(stop)
	rg.Wait()
	if t.reload(tf, false) != nil {
		return false
	}
	return ok
}

func tlsImpl(ops hv.L) hv.Val {
	t := tlsSetup()
	if t.reload(1, false) != nil {
		return hv.Err(2)
	}
	code := func(err error) hv.Val {
		if err != nil {
			return hv.L{hv.I(1)}
		}
		return hv.L{hv.I(0)}
	}
	obs := hv.L{}
	for _, ov := range ops {
		op := ov.(hv.L)
		a := func(k int) int { return int(hv.AsInt(op[k])) }
		switch a(0) {
		case 1:
			obs = append(obs, code(t.reload(a(1), false)))
		case 2:
			if a(2) == 1 {
				obs = append(obs, code(t.reload(a(1), true)))
			} else {
				obs = append(obs, code(t.directUpdate(a(1), a(2))))
			}
		case 3:
			obs = append(obs, code(t.directUpdate(a(1), 0)))
		case 4:
			k, v, r := t.probe(a(1))
			obs = append(obs, hv.L{hv.I(k), hv.I(v), hv.I(r)})
		case 5:
			obs = append(obs, hv.L{hv.Bool(t.burst(a(1), a(2), a(3)))})
		}
	}
	return obs
}

func genTLS(r *hv.Rng) (string, hv.Val) {
	n := r.Range(3, 12)
	ops := hv.L{}
	bad, burst := 0, false
	for k := 0; k < n; k++ {
		c := r.Intn(100)
		switch {
		case c < 18:
			ops = append(ops, hv.L{hv.I(1), hv.I(r.Range(1, 3))})
		case c < 40:
			ops = append(ops, hv.L{hv.I(2), hv.I(r.Range(1, 3)), hv.I(r.Range(1, 3))})
			bad++
		case c < 50:
			ops = append(ops, hv.L{hv.I(3), hv.I(r.Range(1, 3))})
		case c < 95 || burst:
			ops = append(ops, hv.L{hv.I(4), hv.I(r.Intn(4))})
		default:
			ops = append(ops, hv.L{hv.I(5), hv.I(r.Intn(1000000)), hv.I(r.Range(1, 4)), hv.I(r.Range(1, 3))})
			burst = true
		}
		if k > 0 && r.Chance(1, 2) { // most changes are followed by a look at what handshakes get now
			ops = append(ops, hv.L{hv.I(4), hv.I(r.Intn(4))})
		}
	}
	if len(ops) > 16 {
		ops = ops[:16]
	}
	class := "tls"
	if bad > 0 {
		class += "-failedreload"
	}
	if burst {
		class += "-burst"
	}
	return class, hv.L{hv.I(100), ops}
}
