// C15: hot reload is atomic: every request is handled under ONE configuration snapshot, in-flight requests keep theirs.
// Whole-server harness (package e2e).  Input / output format: see coq/run/RunC15.v.
//
// Configuration version v (1..3): host example.org -> product p<v> -> cluster c<v>; cluster_conf holds ONLY c<v>; all file
// versions are "<v>".  Gslb generation g (1..2): every cluster c<v> -> fake backend bk_<v>_<g>.  The version directories are
// written once and loaded with the `path` parameter of ServerDataConfReload / GslbDataConfReload, so nothing is written
// while reloads run concurrently.  Requests are held at callback points through verifmod's OnCall observer (it runs in
// the request's goroutine), which makes "reload while the request is between two lookups" a deterministic scenario.
package main

import (
	"encoding/json"
	"fmt"
	"io/ioutil"
	"net/url"
	"os"
	"path/filepath"
	"strconv"
	"strings"
	"sync"
	"time"

	"verif/harness/e2e"
	"verif/harness/hv"

	"github.com/bfenetworks/bfe/bfe_basic"
	"github.com/bfenetworks/bfe/bfe_module"
	"github.com/bfenetworks/bfe/bfe_route"
)

const NV, NG = 3, 2

type M = map[string]interface{}

type rec struct {
	snap, p, c, cc, b, g int
}

type hold struct {
	point   int // callback point to stop at (-1 = none)
	reached chan struct{}
	release chan struct{}
}

type env struct {
	ka   *e2e.Client // the case's persistent keep-alive client connection (op 7)
	srv  *e2e.Server
	dir  string
	mu   sync.Mutex
	recs map[string]*rec
	hold map[string]*hold
}

var E *env

func writeJSON(path string, v interface{}) {
	b, err := json.MarshalIndent(v, "", " ")
	if err != nil {
		panic(err)
	}
	if err := ioutil.WriteFile(path, b, 0644); err != nil {
		panic(err)
	}
}

func clusterConf(name string) M {
	return M{
		"BackendConf": M{"TimeoutConnSrv": 2000, "TimeoutResponseHeader": 8000, "MaxIdleConnsPerHost": 0, "RetryLevel": 0},
		"CheckConf":   M{"Schem": "tcp", "FailNum": 1 << 30, "CheckInterval": 1000000},
		"GslbBasic": M{"CrossRetry": 0, "RetryMax": 1,
			"HashConf": M{"HashStrategy": 0, "HashHeader": "Cookie:UID", "SessionSticky": false}},
		"ClusterBasic": M{"TimeoutReadClient": 30000, "TimeoutWriteClient": 60000, "TimeoutReadClientAgain": 30000,
			"ReqWriteBufferSize": 512, "ReqFlushInterval": 0, "ResFlushInterval": -1, "CancelOnClientClose": false},
	}
}

// writeServerData writes version v into dir; broken: 0 = good, 1 = route file is not JSON, 2 = route names a cluster
// that cluster_conf lacks (ServerDataConf.check fails), 3 = cluster_conf file missing.
func writeServerData(dir string, v int, broken int) {
	os.MkdirAll(dir, 0755)
	ver := strconv.Itoa(v)
	p, c := "p"+ver, "c"+ver
	writeJSON(filepath.Join(dir, "host_rule.data"), M{"Version": ver, "DefaultProduct": nil,
		"Hosts": M{"tag_" + p: []string{"example.org"}}, "HostTags": M{p: []string{"tag_" + p}}})
	writeJSON(filepath.Join(dir, "vip_rule.data"), M{"Version": ver, "Vips": M{}})
	rc := c
	if broken == 2 {
		rc = "c_missing"
	}
	writeJSON(filepath.Join(dir, "route_rule.data"), M{"Version": ver,
		"ProductRule": M{p: []M{{"Cond": "default_t()", "ClusterName": rc}}}})
	if broken == 1 {
		ioutil.WriteFile(filepath.Join(dir, "route_rule.data"), []byte("{ \"Version\": \"x\", \"ProductRule\": {"), 0644)
	}
	if broken != 3 {
		writeJSON(filepath.Join(dir, "cluster_conf.data"), M{"Version": ver, "Config": M{c: clusterConf(c)}})
	}
}

func bkName(v, g int) string { return fmt.Sprintf("bk_%d_%d", v, g) }

func writeGslb(dir string, g int, bks map[string]*e2e.Backend) {
	os.MkdirAll(dir, 0755)
	gs, tb := M{}, M{}
	for v := 1; v <= NV; v++ {
		c := fmt.Sprintf("c%d", v)
		b := bks[bkName(v, g)]
		gs[c] = M{"s1": 100, "GSLB_BLACKHOLE": 0}
		tb[c] = M{"s1": []M{{"Addr": b.IP, "Name": b.Name, "Port": b.Port, "Weight": 10}}}
	}
	writeJSON(filepath.Join(dir, "gslb.data"), M{"Clusters": gs, "Hostname": "", "Ts": strconv.Itoa(g)})
	writeJSON(filepath.Join(dir, "cluster_table.data"), M{"Config": tb, "Version": strconv.Itoa(g)})
}

func num(s, prefix string) int {
	if !strings.HasPrefix(s, prefix) {
		if s == "" {
			return 0
		}
		return -1
	}
	n, err := strconv.Atoi(s[len(prefix):])
	if err != nil {
		return -1
	}
	return n
}

func bkNum(name string) (v, g int) {
	if name == "" {
		return 0, 0
	}
	if _, err := fmt.Sscanf(name, "bk_%d_%d", &v, &g); err != nil {
		return -1, -1
	}
	return
}

var holdPoint = map[int]int{1: bfe_module.HandleBeforeLocation, 2: bfe_module.HandleFoundProduct,
	3: bfe_module.HandleAfterLocation, 4: bfe_module.HandleForward}

func snapVersion(sdc *bfe_route.ServerDataConf) int {
	hv := sdc.HostTable.GetVersions()
	cv := sdc.ClusterTable.GetVersions()
	a, b, c := num(hv.HostTag, ""), num(hv.ProductRoute, ""), num(cv.ClusterConfVer, "")
	if a != b || a != c {
		return -1 // one *ServerDataConf object is loaded as a whole; cannot happen
	}
	return a
}

func (e *env) onCall(c e2e.Call, req *bfe_basic.Request) {
	if req == nil || c.ReqID == "" {
		return
	}
	e.mu.Lock()
	r := e.recs[c.ReqID]
	if r == nil {
		r = &rec{}
		e.recs[c.ReqID] = r
	}
	if sdc, ok := req.SvrDataConf.(*bfe_route.ServerDataConf); ok && sdc != nil {
		v := snapVersion(sdc)
		if r.snap != 0 && r.snap != v {
			v = -1 // the request's snapshot object changed between two callback points
		}
		r.snap = v
	}
	set := func(dst *int, v int) {
		if v == 0 {
			return
		}
		if *dst != 0 && *dst != v {
			v = -1
		}
		*dst = v
	}
	set(&r.p, num(req.Route.Product, "p"))
	set(&r.c, num(req.Route.ClusterName, "c"))
	set(&r.cc, num(req.Backend.ClusterName, "c"))
	if req.Trans.Backend != nil {
		b, g := bkNum(req.Trans.Backend.Name)
		set(&r.b, b)
		set(&r.g, g)
	}
	h := e.hold[c.ReqID]
	e.mu.Unlock()
	if h != nil && h.point == c.Point {
		rel := h.release
		h.reached <- struct{}{}
		select {
		case <-rel:
		case <-time.After(e.srv.Deadline):
		}
	}
}

func setup() *env {
	if E != nil {
		return E
	}
	bks := map[string]*e2e.Backend{}
	var clusters []e2e.Cluster
	for v := 1; v <= NV; v++ {
		for g := 1; g <= NG; g++ {
			bks[bkName(v, g)] = e2e.NewBackend(bkName(v, g))
		}
		clusters = append(clusters, e2e.Cluster{Name: fmt.Sprintf("c%d", v), RetryMax: 1,
			SubClusters: []e2e.SubCluster{{Name: "s1", Weight: 100, Backends: []*e2e.Backend{bks[bkName(v, 1)], bks[bkName(v, 2)]}}}})
	}
	srv := e2e.Start(e2e.Options{
		Products: []e2e.Product{{Name: "p1", Hosts: []string{"example.org"}, Cluster: "c1"}},
		Clusters: clusters, Handlers: 1,
	})
	e := &env{srv: srv, dir: filepath.Join(srv.ConfRoot, "x3"), recs: map[string]*rec{}, hold: map[string]*hold{}}
	for v := 1; v <= NV; v++ {
		writeServerData(filepath.Join(e.dir, fmt.Sprintf("sv%d", v)), v, 0)
		writeServerData(filepath.Join(e.dir, fmt.Sprintf("bad%d", v)), v, v)
	}
	for g := 1; g <= NG; g++ {
		writeGslb(filepath.Join(e.dir, fmt.Sprintf("g%d", g)), g, bks)
		// failing gslb reloads: g = 1 gslb.data is not JSON, g = 2 cluster_table.data is missing
		bad := filepath.Join(e.dir, fmt.Sprintf("gbad%d", g))
		writeGslb(bad, 3-g, bks)
		if g == 1 {
			ioutil.WriteFile(filepath.Join(bad, "gslb.data"), []byte("{ \"Clusters\": {"), 0644)
		} else {
			os.Remove(filepath.Join(bad, "cluster_table.data"))
		}
	}
	srv.Mod.OnCall = e.onCall
	// happens-before edge for the server goroutines that read OnCall under verifmod's mutex (the field is set after
	// Start has already launched the accept loop; the harness is built with -race)
	srv.Mod.SetScript(e2e.Script{})
	E = e
	if err := e.reload(1, false); err != nil {
		panic(err)
	}
	if err := e.gslb(1); err != nil {
		panic(err)
	}
	return e
}

func (e *env) reload(v int, bad bool) error {
	d := fmt.Sprintf("sv%d", v)
	if bad {
		d = fmt.Sprintf("bad%d", v)
	}
	return e.srv.Bfe.ServerDataConfReload(url.Values{"path": {filepath.Join(e.dir, d)}})
}
func (e *env) gslb(g int) error {
	return e.srv.Bfe.GslbDataConfReload(url.Values{"path": {filepath.Join(e.dir, fmt.Sprintf("g%d", g))}})
}
func (e *env) current() int { return snapVersion(e.srv.Bfe.GetServerConf()) }

type result struct {
	status int
	body   string
}

type active struct {
	id   string
	hp   int
	h    *hold
	done chan result
}

func (e *env) view(id string, res *result) hv.Val {
	e.mu.Lock()
	r := rec{}
	if x := e.recs[id]; x != nil {
		r = *x
	}
	e.mu.Unlock()
	st := 0
	if res != nil {
		st = res.status
		b, g := bkNum(res.body)
		if b != r.b || g != r.g { // the backend that answered is not the one chosen at HandleForward
			r.b, r.g = -1, -1
		}
	}
	return hv.L{hv.I(r.snap), hv.I(r.p), hv.I(r.c), hv.I(r.cc), hv.I(r.b), hv.I(r.g), hv.I(st)}
}

func (e *env) get(id string) result {
	r, _ := e.srv.Get("example.org", "/c15", "X-Verif-Id: "+id)
	if r == nil {
		return result{}
	}
	return result{r.Status, string(r.Body)}
}

// advance lets request a run to hold point hp (0 = completion); returns the view, or nil on deadline.
func (e *env) advance(a *active, hp int) hv.Val {
	e.mu.Lock()
	old := a.h
	nh := &hold{point: -1, reached: make(chan struct{}, 1), release: make(chan struct{})}
	if hp != 0 {
		nh.point = holdPoint[hp]
	}
	e.hold[a.id] = nh
	a.h = nh
	e.mu.Unlock()
	if old != nil {
		close(old.release)
	} else {
		go func() { a.done <- e.get(a.id) }()
	}
	a.hp = hp
	select {
	case <-nh.reached:
		if hp == 0 {
			return nil
		}
		return e.view(a.id, nil)
	case res := <-a.done:
		a.done <- res // keep for a later reader
		if hp != 0 {
			// completed before reaching the hold point: report what is there (status set => mismatch with the model)
			return e.view(a.id, &res)
		}
		return e.view(a.id, &res)
	case <-time.After(e.srv.Deadline):
		return nil
	}
}

var caseNo int

func legal(ops hv.L) bool {
	if len(ops) > 14 {
		return false
	}
	hp := map[int]int{}
	act := map[int]bool{}
	for _, ov := range ops {
		op, ok := ov.(hv.L)
		if !ok || len(op) < 1 {
			return false
		}
		for _, x := range op {
			if _, isL := x.(hv.L); isL {
				return false
			}
			if _, isB := x.(hv.B); isB {
				return false
			}
		}
		a := func(k int) int { return int(hv.AsInt(op[k])) }
		in := func(lo, hi, x int) bool { return lo <= x && x <= hi }
		switch a(0) {
		case 1, 6:
			if len(op) != 2 || !in(1, NV, a(1)) {
				return false
			}
		case 2:
			if len(op) != 2 || !in(1, NG, a(1)) {
				return false
			}
		case 3:
			if len(op) != 3 || !in(0, 2, a(1)) || !in(0, 4, a(2)) || act[a(1)] {
				return false
			}
			if a(2) != 0 {
				act[a(1)] = true
				hp[a(1)] = a(2)
			}
		case 4:
			if len(op) != 3 || !in(0, 2, a(1)) || !in(0, 4, a(2)) || !act[a(1)] {
				return false
			}
			if a(2) == 0 {
				act[a(1)] = false
			} else if hp[a(1)] < a(2) {
				hp[a(1)] = a(2)
			} else {
				return false
			}
		case 7:
			if len(op) != 1 {
				return false
			}
		case 8:
			if len(op) != 2 || !in(1, NG, a(1)) {
				return false
			}
		case 5:
			if len(op) != 6 || !in(0, 1000000, a(1)) || !in(1, 6, a(2)) || !in(0, 3, a(3)) || !in(1, NV, a(4)) || !in(1, NG, a(5)) {
				return false
			}
		default:
			return false
		}
	}
	return true
}

func (e *env) burst(tag string, seed, nreq, nrel, vf, gf int) bool {
	var wg, rg sync.WaitGroup
	stop := make(chan struct{})
	okAll := true
	var okMu sync.Mutex
	fail := func() { okMu.Lock(); okAll = false; okMu.Unlock() }
	if nrel > 0 {
		rg.Add(3)
		for w := 0; w < 2; w++ { // two concurrent server-data reloaders cycling through the versions, at least nrel reloads each
			go func(w int) {
				defer rg.Done()
				for k := 0; ; k++ {
					if k >= nrel {
						select {
						case <-stop:
							return
						default:
						}
					}
					if err := e.reload(1+(seed+k+w)%NV, false); err != nil {
						fail()
					}
				}
			}(w)
		}
		go func() {
			defer rg.Done()
			for k := 0; ; k++ {
				if k >= 1 {
					select {
					case <-stop:
						return
					default:
					}
				}
				if err := e.gslb(1 + (seed+k)%NG); err != nil {
					fail()
				}
			}
		}()
	}
	for cidx := 0; cidx < 4; cidx++ {
		wg.Add(1)
		go func(cidx int) {
			defer wg.Done()
			for j := 0; j < nreq; j++ {
				id := fmt.Sprintf("%s.%d.%d", tag, cidx, j)
				res := e.get(id)
				e.mu.Lock()
				r := rec{}
				if x := e.recs[id]; x != nil {
					r = *x
				}
				e.mu.Unlock()
				b, g := bkNum(res.body)
				if res.status != 200 || r.snap < 1 || r.p != r.snap || r.c != r.snap || r.cc != r.snap || r.b != r.snap ||
					b != r.b || g != r.g || g < 1 || g > NG {
					if os.Getenv("VERIF_DEBUG") != "" {
						fmt.Fprintf(os.Stderr, "burst inconsistent: %s %+v status=%d body=%q\n", id, r, res.status, res.body)
					}
					fail()
				}
			}
		}(cidx)
	}
	wg.Wait()
	close(stop)
	rg.Wait()
	if e.reload(vf, false) != nil || e.gslb(gf) != nil {
		return false
	}
	return okAll
}

func impl(in hv.Val) hv.Val {
	ops, isL := in.(hv.L)
	if isL {
		if tops, ok := tlsLegal(ops); ok {
			return tlsImpl(tops)
		}
	}
	if !isL || !legal(ops) {
		return hv.Err(0)
	}
	e := setup()
	caseNo++
	e.mu.Lock()
	e.recs = map[string]*rec{}
	e.hold = map[string]*hold{}
	e.mu.Unlock()
	if e.ka != nil {
		e.ka.Close()
		e.ka = nil
	}
	// every case starts from version 1 / generation 1
	if e.reload(1, false) != nil || e.gslb(1) != nil {
		return hv.Err(2)
	}
	acts := map[int]*active{}
	defer func() { // never leave a request hanging inside the server
		for _, a := range acts {
			if a != nil && a.h != nil {
				e.mu.Lock()
				e.hold[a.id] = nil
				e.mu.Unlock()
				close(a.h.release)
				select {
				case <-a.done:
				case <-time.After(e.srv.Deadline):
				}
			}
		}
	}()
	obs := hv.L{}
	for k, ov := range ops {
		op := ov.(hv.L)
		a := func(i int) int { return int(hv.AsInt(op[i])) }
		switch a(0) {
		case 1:
			code := 0
			if e.reload(a(1), false) != nil {
				code = 1
			}
			obs = append(obs, hv.L{hv.I(code), hv.I(e.current())})
		case 6:
			code := 0
			if e.reload(a(1), true) != nil {
				code = 1
			}
			obs = append(obs, hv.L{hv.I(code), hv.I(e.current())})
		case 2:
			code := 0
			if e.gslb(a(1)) != nil {
				code = 1
			}
			obs = append(obs, hv.L{hv.I(code)})
		case 3, 4:
			rid, hp := a(1), a(2)
			var act *active
			if a(0) == 3 {
				act = &active{id: fmt.Sprintf("q%d.%d.%d", caseNo, k, rid), done: make(chan result, 2)}
				acts[rid] = act
			} else {
				act = acts[rid]
			}
			v := e.advance(act, hp)
			if v == nil {
				return hv.Timeout()
			}
			if hp == 0 {
				act.h = nil
				acts[rid] = nil
			}
			obs = append(obs, v)
		case 8:
			code := 0
			if e.srv.Bfe.GslbDataConfReload(url.Values{"path": {filepath.Join(e.dir, fmt.Sprintf("gbad%d", a(1)))}}) != nil {
				code = 1
			}
			obs = append(obs, hv.L{hv.I(code)})
		case 7:
			id := fmt.Sprintf("k%d.%d", caseNo, k)
			if e.ka == nil {
				e.ka = e.srv.Dial()
			}
			res := result{}
			if e.ka.Send([]byte("GET /c15 HTTP/1.1\r\nHost: example.org\r\nX-Verif-Id: "+id+"\r\n\r\n")) == nil {
				if r, err := e.ka.ReadResponse(); err == nil {
					res = result{r.Status, string(r.Body)}
				}
			}
			obs = append(obs, e.view(id, &res))
		case 5:
			ok := e.burst(fmt.Sprintf("b%d.%d", caseNo, k), a(1), a(2), a(3), a(4), a(5))
			obs = append(obs, hv.L{hv.Bool(ok)})
		}
	}
	return obs
}

func gen(r *hv.Rng, i int, tier string) (string, hv.Val) {
	if i == 0 {
		return "triv-one-request", hv.L{hv.L{hv.I(3), hv.I(0), hv.I(0)}}
	}
	if i%3 == 2 { // TLS tables
		return genTLS(r)
	}
	if i%97 == 4 { // malformed / illegal op orders
		bad := []hv.Val{
			hv.L{hv.L{hv.I(4), hv.I(0), hv.I(0)}},                                  // continue a request that was never started
			hv.L{hv.L{hv.I(3), hv.I(0), hv.I(2)}, hv.L{hv.I(3), hv.I(0), hv.I(1)}}, // start an active rid
			hv.L{hv.L{hv.I(3), hv.I(0), hv.I(3)}, hv.L{hv.I(4), hv.I(0), hv.I(2)}}, // hold points must increase
			hv.L{hv.L{hv.I(1), hv.I(4)}},                                           // unknown version
			hv.L{hv.L{hv.I(9)}}, hv.I(3), hv.L{hv.L{hv.I(2), hv.I(3)}}, hv.L{hv.L{hv.I(7), hv.I(1)}}, hv.L{hv.L{}},
			hv.L{hv.I(100), hv.L{hv.L{hv.I(4), hv.I(7)}}}, hv.L{hv.I(100), hv.I(1)}, hv.L{hv.I(100), hv.L{hv.L{hv.I(2), hv.I(1)}}},
		}
		return "triv-malformed", bad[r.Intn(len(bad))]
	}
	var ops hv.L
	hp := map[int]int{}
	n := r.Range(2, 10)
	reloadsWhileHeld, hasBurst, badReload, keep := 0, false, false, 0
	for k := 0; k < n; k++ {
		var held, free []int
		for rid := 0; rid < 3; rid++ {
			if hp[rid] > 0 {
				held = append(held, rid)
			} else {
				free = append(free, rid)
			}
		}
		c := r.Intn(100)
		switch {
		case c < 28: // reload
			if r.Chance(1, 6) {
				ops = append(ops, hv.L{hv.I(6), hv.I(r.Range(1, NV))})
				badReload = true
			} else {
				ops = append(ops, hv.L{hv.I(1), hv.I(r.Range(1, NV))})
			}
			if len(held) > 0 {
				reloadsWhileHeld++
			}
		case c < 33:
			ops = append(ops, hv.L{hv.I(2), hv.I(r.Range(1, NG))})
		case c < 36:
			ops = append(ops, hv.L{hv.I(8), hv.I(r.Range(1, NG))})
			badReload = true
		case c < 44:
			ops = append(ops, hv.L{hv.I(7)})
			keep++
		case c < 65 && len(free) > 0:
			rid := free[r.Intn(len(free))]
			h := []int{0, 1, 1, 2, 2, 3, 4}[r.Intn(7)]
			ops = append(ops, hv.L{hv.I(3), hv.I(rid), hv.I(h)})
			hp[rid] = h
		case c < 92 && len(held) > 0:
			rid := held[r.Intn(len(held))]
			h := 0
			if hp[rid] < 4 && r.Chance(2, 3) {
				h = r.Range(hp[rid]+1, 4)
			}
			ops = append(ops, hv.L{hv.I(4), hv.I(rid), hv.I(h)})
			hp[rid] = h
		case c >= 92 && !hasBurst:
			ops = append(ops, hv.L{hv.I(5), hv.I(r.Intn(1000000)), hv.I(r.Range(1, 6)), hv.I(r.Intn(4)), hv.I(r.Range(1, NV)), hv.I(r.Range(1, NG))})
			hasBurst = true
		default:
			ops = append(ops, hv.L{hv.I(1), hv.I(r.Range(1, NV))})
			if len(held) > 0 {
				reloadsWhileHeld++
			}
		}
	}
	for rid := 0; rid < 3; rid++ { // let every held request finish so that its whole life is observed
		if hp[rid] > 0 && len(ops) < 14 {
			ops = append(ops, hv.L{hv.I(4), hv.I(rid), hv.I(0)})
		}
	}
	class := "seq"
	if reloadsWhileHeld > 0 {
		class = fmt.Sprintf("reload-inflight%d", reloadsWhileHeld)
	}
	if badReload {
		class += "-badreload"
	}
	if hasBurst {
		class += "-burst"
	}
	if keep > 1 {
		class += "-keepalive"
	}
	return class, ops
}

func main() {
	hv.Main(&hv.Spec{Prop: "C15", Gen: gen, Impl: impl, NQuick: 300, NThorough: 20000})
	if E != nil {
		E.srv.Close()
	}
	e2e.RemoveAll()
	os.Stdout.Sync()
}
