// C26: hop-by-hop headers are not forwarded.  Whole-server harness (package e2e).
//
// input : [mode [[name value] ...]]
//   mode   0 = "GET /p" without body, 1 = "POST /p" followed by the 3-byte body "abc", 2 = "POST /p" followed by the
//          chunked body "3\r\nabc\r\n0\r\n\r\n", 3 = "GET /p" followed by the chunked body "0\r\n\r\n",
//          4 = "GET /p HTTP/1.0" without body (all other modes are HTTP/1.1)
//   pairs  the header lines the client sends after "Host: example.org", verbatim "name: value\r\n", in this order.
//          The generator (not impl) is responsible for putting the framing headers that match the mode into the list.
// output: [line ...]  the header lines (without CRLF, without the request line) of the request the fake backend received
//         for this case, in wire order; or [-1 status] when no request reached the backend (status of BFE's reply, 0 none).
// One server, no stock modules, one backend, no keep-alive towards the backend (one backend connection per request).
package main

import (
	"bytes"
	"os"
	"strings"

	"verif/harness/e2e"
	"verif/harness/hv"
)

var (
	srv *e2e.Server
	bk  *e2e.Backend
)

func setup() {
	if srv != nil {
		return
	}
	bk = e2e.NewBackend("bk")
	srv = e2e.Start(e2e.Options{
		Products: []e2e.Product{{Name: "p", Hosts: []string{"example.org"}, Cluster: "c"}},
		Clusters: []e2e.Cluster{{Name: "c", RetryMax: 0,
			SubClusters: []e2e.SubCluster{{Name: "s1", Weight: 100, Backends: []*e2e.Backend{bk}}}}},
		Handlers: 1,
	})
}

func impl(in hv.Val) hv.Val {
	l := hv.AsList(in)
	if len(l) != 2 {
		return hv.Err(0)
	}
	mode := int(hv.AsInt(l[0]))
	if mode < 0 || mode > 4 {
		return hv.Err(0)
	}
	var sb bytes.Buffer
	if mode == 4 {
		sb.WriteString("GET /p HTTP/1.0\r\nHost: example.org\r\n")
	} else if mode == 0 || mode == 3 {
		sb.WriteString("GET /p HTTP/1.1\r\nHost: example.org\r\n")
	} else {
		sb.WriteString("POST /p HTTP/1.1\r\nHost: example.org\r\n")
	}
	for _, p := range hv.AsList(l[1]) {
		kv := hv.AsList(p)
		if len(kv) != 2 {
			return hv.Err(0)
		}
		sb.Write(hv.AsBytes(kv[0]))
		sb.WriteString(": ")
		sb.Write(hv.AsBytes(kv[1]))
		sb.WriteString("\r\n")
	}
	sb.WriteString("\r\n")
	switch mode {
	case 1:
		sb.WriteString("abc")
	case 2:
		sb.WriteString("3\r\nabc\r\n0\r\n\r\n")
	case 3:
		sb.WriteString("0\r\n\r\n")
	}
	setup()
	bk.Reset()
	srv.Mod.ResetCalls()
	c := srv.Dial()
	defer c.Close()
	c.Send(sb.Bytes())
	status := 0
	if r, err := c.ReadResponse(); err == nil {
		status = r.Status
	}
	c.Close()
	conns := bk.Conns()
	if len(conns) == 0 {
		return hv.Err(status)
	}
	raw := conns[0].Bytes
	end := bytes.Index(raw, []byte("\r\n\r\n"))
	if end < 0 {
		return hv.Err(1000 + status)
	}
	lines := strings.Split(string(raw[:end]), "\r\n")
	out := hv.L{}
	for _, ln := range lines[1:] {
		out = append(out, hv.S(ln))
	}
	return out
}

// ---------------------------------------------------------------------------------------------------------------
// generator

var hopNames = []string{"Connection", "connection", "CONNECTION", "Keep-Alive", "keep-alive", "Proxy-Authenticate",
	"Proxy-Authorization", "proxy-authorization", "TE", "Te", "te", "Trailer", "trailer", "Trailers", "Upgrade", "upgrade",
	"Proxy-Connection"}
var plainNames = []string{"X-Foo", "x-foo", "X-Bar", "Accept", "Accept-Encoding", "User-Agent", "Cookie", "X-Custom-1",
	"Content-Type", "x_under", "Keep-Alive-X", "Tea", "Connection-Id", "Via", "Cache-Control", "Pragma", "pragma"}
var connTokens = []string{"close", "keep-alive", "Keep-Alive", "x-foo", "X-Foo", "X-Bar", "x-bar", "te", "TE", "upgrade", "cookie",
	"Cookie", "x-custom-1", "trailer", "accept", "", "user-agent", "x_under", "content-type", "proxy-connection"}
var plainVals = []string{"1", "a", "gzip", "abc def", "", "x, y", "trailers", "close", "timeout=5, max=100"}

func connValue(r *hv.Rng) string {
	n := r.Intn(4)
	if n == 0 && r.Bool() {
		return ""
	}
	var ts []string
	for i := 0; i <= n; i++ {
		ts = append(ts, r.Pick(connTokens))
	}
	seps := []string{", ", ",", " , ", ",  "}
	return strings.Join(ts, r.Pick(seps))
}

func valueFor(r *hv.Rng, name string) string {
	switch strings.ToLower(name) {
	case "connection", "proxy-connection":
		return connValue(r)
	case "keep-alive":
		return r.Pick([]string{"timeout=5, max=100", "300", ""})
	case "te":
		return r.Pick([]string{"trailers", "trailers", "gzip", "trailers, deflate", "deflate;q=0.5", "", "Trailers", "trailers "})
	case "trailer", "trailers":
		return r.Pick([]string{"X-Foo", "Expires", "x-bar, X-Foo", ""})
	case "upgrade":
		return r.Pick([]string{"h2c", "websocket", "HTTP/2.0, SHTTP/1.3", ""})
	case "pragma":
		return r.Pick([]string{"no-cache", "no-cache", "No-Cache", "x", ""})
	case "proxy-authenticate":
		return r.Pick([]string{"Basic realm=x", ""})
	case "proxy-authorization":
		return r.Pick([]string{"Basic QWxhZGRpbjpvcGVu", ""})
	}
	return r.Pick(plainVals)
}

// isWebsocketUpgrade mirrors bfe_websocket.CheckUpgradeWebSocket on the generated list (first value of each field):
// such requests are upgrade requests, which the property excludes.
func isWebsocketUpgrade(mode int, hs [][2]string) bool {
	if mode != 0 && mode != 3 && mode != 4 {
		return false
	}
	first := func(n string) (string, bool) {
		for _, h := range hs {
			if strings.EqualFold(h[0], n) {
				return strings.TrimSpace(h[1]), true
			}
		}
		return "", false
	}
	u, _ := first("Upgrade")
	c, _ := first("Connection")
	return strings.ToLower(u) == "websocket" && strings.Contains(strings.ToLower(c), "upgrade")
}

func gen(r *hv.Rng, i int, tier string) (string, hv.Val) {
	mode := 0
	switch r.Intn(10) {
	case 0, 1:
		mode = 1
	case 2, 3:
		mode = 2
	case 4:
		mode = 3
	case 5:
		mode = 4
	}
	class := "mix"
	var hs [][2]string
	add := func(n string) { hs = append(hs, [2]string{n, valueFor(r, n)}) }
	switch r.Intn(6) {
	case 0: // only ordinary fields
		class = "plain"
		for k := r.Intn(5); k >= 0; k-- {
			add(r.Pick(plainNames))
		}
	case 1: // Connection-nominated fields
		class = "conn-nominated"
		add(r.Pick([]string{"Connection", "connection"}))
		for k := r.Intn(4); k >= 0; k-- {
			add(r.Pick(plainNames))
		}
		if r.Bool() {
			add("Connection")
		}
	case 2: // every listed hop header once
		class = "all-hop"
		for _, n := range []string{"Connection", "Keep-Alive", "Proxy-Authenticate", "Proxy-Authorization", "TE", "Trailer", "Upgrade"} {
			if r.Chance(4, 5) {
				add(n)
			}
		}
		add(r.Pick(plainNames))
	case 3: // repeated hop fields (first value possibly empty)
		class = "repeated-hop"
		n := r.Pick(hopNames)
		hs = append(hs, [2]string{n, r.Pick([]string{"", valueFor(r, n)})})
		add(r.Pick(plainNames))
		add(n)
		if r.Bool() {
			add(strings.ToLower(n))
		}
	default:
		for k := r.Intn(7); k >= 0; k-- {
			if r.Chance(3, 5) {
				add(r.Pick(hopNames))
			} else {
				add(r.Pick(plainNames))
			}
		}
	}
	// framing headers matching the mode, at a random position
	ins := func(n, v string) {
		p := r.Intn(len(hs) + 1)
		hs = append(hs[:p], append([][2]string{{n, v}}, hs[p:]...)...)
	}
	switch mode {
	case 1:
		ins(r.Pick([]string{"Content-Length", "content-length"}), "3")
	case 2, 3:
		te := r.Pick([]string{"chunked", "Chunked", " chunked", "CHUNKED", "chunked "})
		if r.Chance(1, 12) {
			te = r.Pick([]string{"identity, chunked", "gzip, chunked", "chunked, chunked", "identity"}) // rejected (400)
		}
		ins(r.Pick([]string{"Transfer-Encoding", "transfer-encoding"}), te)
		if r.Chance(1, 20) {
			ins("Transfer-Encoding", "chunked") // a second Transfer-Encoding line: rejected (400)
		}
		if r.Chance(1, 4) {
			ins("Content-Length", "3") // chunked trumps Content-Length
		}
	case 0, 4:
		if r.Chance(1, 20) {
			ins("Transfer-Encoding", "identity") // rejected (400)
		}
		if r.Chance(1, 10) {
			ins("Content-Length", r.Pick([]string{"0", "0", "0", "", "+0"})) // empty / signed: rejected (400)
		}
	}
	for isWebsocketUpgrade(mode, hs) {
		for k := range hs {
			if strings.EqualFold(hs[k][0], "Upgrade") {
				hs[k][1] = "h2c"
			}
		}
	}
	if i == 0 {
		class, mode, hs = "triv-empty", 0, nil
	}
	pairs := hv.L{}
	for _, h := range hs {
		pairs = append(pairs, hv.L{hv.S(h[0]), hv.S(h[1])})
	}
	return class, hv.L{hv.I(mode), pairs}
}

func main() {
	hv.Main(&hv.Spec{Prop: "C26", Gen: gen, Impl: impl, NQuick: 2500, NThorough: 100000})
	if srv != nil {
		srv.Close()
	}
	e2e.RemoveAll()
	os.Stdout.Sync()
}
