// C35: HTTP/2 stream state machine.  Scripted client + channel-driven handler (package h2c33)
// against bfe_http2.Server.ServeConn; model coq/model/H2Stream.v.
// input: [[isw maxStreams] [[op a b c d] ...]]  (see harness/h2c33/engine.go for ops and observations)
package main

import (
	"time"

	"verif/harness/h2c33"
	"verif/harness/hv"
)

func step(op, a, b, c, d int) hv.Val { return hv.L{hv.I(op), hv.I(a), hv.I(b), hv.I(c), hv.I(d)} }

// generator-side guess of the stream phases (1 open, 2 half-closed(remote), 3 closed): only used to
// keep connection-fatal frames (GOAWAY / close) rare before the end of a script
func gen(r *hv.Rng, i int, tier string) (string, hv.Val) {
	isw := 0
	if r.Chance(1, 4) {
		isw = []int{1, 50, 1000, 70000}[r.Intn(4)]
	}
	maxs := 0
	if r.Chance(1, 2) {
		maxs = r.Range(1, 4)
	}
	lim := maxs
	if lim == 0 {
		lim = 200
	}
	n := r.Range(2, 32)
	var steps hv.L
	phase := map[int]int{}
	var ids []int
	running := map[int]bool{}
	next := 1
	class := "seq"
	limitHit := false
	pickID := func(f func(id int) bool) (int, bool) {
		var c []int
		for _, id := range ids {
			if f(id) {
				c = append(c, id)
			}
		}
		if len(c) == 0 {
			return 0, false
		}
		return c[r.Intn(len(c))], true
	}
	nopen := func() int {
		k := 0
		for _, id := range ids {
			if phase[id] != 3 {
				k++
			}
		}
		return k
	}
	for len(steps) < n {
		fatalOK := len(steps) >= n-2 || r.Chance(1, 25)
		k := r.Intn(100)
		overLimit := maxs > 0 && fatalOK && nopen() >= lim && r.Bool()
		if overLimit {
			k = 0 // one stream more than advertised
		}
		switch {
		case k < 20 || len(ids) == 0: // new stream
			id := next
			fatal := nopen() >= lim
			if fatalOK && !overLimit {
				switch r.Intn(6) {
				case 0:
					id, fatal, class = next+1, true, "even-id"
				case 1:
					id, fatal = 0, true
				case 2:
					if next > 2 {
						id, fatal, class = next-2-2*r.Intn(2), true, "id-reuse"
						if id < 0 {
							id = 1
						}
						if phase[id] == 1 || phase[id] == 2 {
							fatal = false
						}
					}
				}
			}
			if fatal && !fatalOK {
				// over the limit: finish or reset a stream instead
				if id2, ok := pickID(func(id int) bool { return phase[id] != 3 }); ok {
					if running[id2] && r.Bool() {
						steps = append(steps, step(8, id2, 0, 0, 0))
						delete(running, id2)
					} else {
						steps = append(steps, step(3, id2, r.Intn(9), 0, 0))
					}
					phase[id2] = 3
				}
				continue
			}
			if fatal && nopen() >= lim {
				limitHit = true
			}
			if r.Chance(1, 8) && id == next {
				id = next + 2*r.Range(1, 3) // skips idle streams
			}
			es := r.Intn(2)
			kind := 0
			if r.Chance(1, 4) {
				kind = r.Range(1, 7)
			}
			okKind := kind == 0 || kind == 3 || (kind == 2 && es == 1)
			if r.Chance(1, 5) {
				kind += 10 // HEADERS + CONTINUATION
			}
			clen := -1
			if r.Chance(1, 5) {
				clen = r.Intn(20)
			}
			steps = append(steps, step(1, id, es, kind, clen))
			if id >= next && id%2 == 1 && kind%10 != 7 {
				next = id + 2
				ids = append(ids, id)
				if okKind {
					running[id] = true
					phase[id] = 1 + es
				} else {
					phase[id] = 3
				}
			}
		case k < 40: // HEADERS on an existing stream: trailers, HEADERS on half-closed; on closed = fatal
			id, ok := pickID(func(id int) bool { return fatalOK || phase[id] != 3 })
			if !ok {
				continue
			}
			kind := 1
			if r.Chance(1, 3) {
				kind = []int{0, 0, 3, 7, 11, 17}[r.Intn(6)]
			}
			es := r.Intn(2)
			steps = append(steps, step(1, id, es, kind, -1))
			kind %= 10
			class = "trailers"
			switch phase[id] {
			case 1:
				if es == 1 && kind == 1 {
					phase[id] = 2
				} else {
					phase[id] = 3
				}
			case 2:
				phase[id] = 3
			}
		case k < 60: // DATA on any stream state (never fatal except id 0)
			id, ok := pickID(func(id int) bool { return true })
			if !ok || r.Chance(1, 6) {
				id = r.Range(1, next+3)
			}
			if fatalOK && r.Chance(1, 4) {
				id = 0
			}
			pad := -1
			if r.Chance(1, 4) {
				pad = r.Intn(20)
			}
			es := r.Intn(2)
			steps = append(steps, step(2, id, r.Intn(30), pad, es))
			if phase[id] == 1 {
				if es == 1 {
					phase[id] = 2
				}
			} else if phase[id] == 2 {
				phase[id] = 3
			}
		case k < 70: // RST on open / closed; idle or 0 = fatal
			id, ok := pickID(func(id int) bool { return true })
			if !ok {
				continue
			}
			if r.Chance(1, 5) {
				id = r.Range(1, next-1) // closed or never-used id below the maximum: ignored
			}
			if fatalOK && r.Chance(1, 3) {
				id = []int{0, next, next + 1}[r.Intn(3)]
				class = "idle-rst"
			}
			steps = append(steps, step(3, id, r.Intn(9), 0, 0))
			if phase[id] != 0 {
				phase[id] = 3
			}
		case k < 84: // handler returns (interleaving with client frames)
			id, ok := pickID(func(id int) bool { return running[id] })
			if !ok {
				continue
			}
			if r.Chance(1, 2) {
				// the return races with a client frame while the final frame is in flight
				switch r.Intn(4) {
				case 0, 1:
					steps = append(steps, step(10, id, 3, r.Intn(9), 0))
				case 2:
					steps = append(steps, step(10, id, 4, []int{0, id, next}[r.Intn(3)], r.Range(1, 100)))
				default:
					steps = append(steps, step(10, id, 5, r.Range(0, 70000), 0))
				}
				class = "race"
			} else {
				steps = append(steps, step(8, id, 0, 0, 0))
			}
			delete(running, id)
			phase[id] = 3
		case k < 92: // handler reads
			id, ok := pickID(func(id int) bool { return running[id] })
			if !ok {
				continue
			}
			steps = append(steps, step(6, id, r.Range(1, 40), 0, 0))
		case k < 94:
			id, ok := pickID(func(id int) bool { return running[id] })
			if !ok {
				continue
			}
			steps = append(steps, step(7, id, 0, 0, 0))
		case k < 96:
			if !fatalOK {
				continue
			}
			steps = append(steps, step(9, r.Range(1, next+2), 0, 0, 0))
			class = "push"
		case k < 98:
			id, ok := pickID(func(id int) bool { return true })
			if !ok || r.Bool() {
				id = r.Range(0, next+2)
			}
			steps = append(steps, step(4, id, r.Range(1, 100), 0, 0))
		default:
			steps = append(steps, step(5, r.Range(0, 70000), 0, 0, 0))
		}
	}
	if limitHit {
		class += "+limit"
	}
	return class, hv.L{hv.L{hv.I(isw), hv.I(maxs)}, steps}
}

func main() {
	hv.Main(&hv.Spec{Prop: "C35", Gen: gen, Impl: h2c33.Run, NQuick: 500, NThorough: 20000, Deadline: 30 * time.Second})
}
