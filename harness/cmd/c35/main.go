// C35: HTTP/2 stream state machine.  Scripted client + channel-driven handler (package h2c33)
// against bfe_http2.Server.ServeConn; model coq/model/H2Stream.v.
// input: [[isw maxStreams] [[op a b c d] ...]]  (see harness/h2c33/engine.go for ops and observations)
package main

import (
	"time"

	"verif/harness/h2c33"
	"verif/harness/hv"
)

func step(op, a, b, c, d int) hv.Val { return hv.L{hv.I(op), hv.I(a), hv.I(b), hv.I(c), hv.I(d)} }

func gen(r *hv.Rng, i int, tier string) (string, hv.Val) {
	isw := 0
	if r.Chance(1, 4) {
		isw = []int{1, 50, 1000, 70000}[r.Intn(4)]
	}
	maxs := 0
	if r.Chance(1, 2) {
		maxs = r.Range(1, 4)
	}
	n := r.Range(2, 32)
	var steps hv.L
	var ids []int     // stream ids used so far (any outcome)
	var running []int // ids whose handler may still be running
	next := 1
	class := "seq"
	someID := func() int {
		switch {
		case len(ids) > 0 && r.Chance(3, 4):
			return ids[r.Intn(len(ids))]
		case r.Chance(1, 3):
			return r.Range(0, next+3)
		default:
			return next
		}
	}
	for len(steps) < n {
		k := r.Intn(100)
		switch {
		case k < 22 || len(ids) == 0: // new stream (mostly legal id)
			id := next
			switch r.Intn(14) {
			case 0:
				id = next + 1 // even
				class = "even-id"
			case 1:
				id = 0
			case 2:
				if next > 2 {
					id = next - 2 - 2*r.Intn(2) // not increasing / reuse
					class = "id-reuse"
				}
			case 3:
				id = next + 2*r.Range(1, 3) // skips idle streams
			}
			if id < 0 {
				id = 0
			}
			es := r.Intn(2)
			kind := 0
			if r.Chance(1, 8) {
				kind = r.Range(1, 2)
			}
			clen := -1
			if r.Chance(1, 5) {
				clen = r.Intn(20)
			}
			steps = append(steps, step(1, id, es, kind, clen))
			if id >= next && id%2 == 1 {
				next = id + 2
				ids = append(ids, id)
				if kind == 0 || (kind == 2 && es == 1) {
					running = append(running, id)
				}
			}
		case k < 40: // HEADERS on an existing stream: trailers, second HEADERS on half-closed, closed
			id := someID()
			kind := 1
			if r.Chance(1, 3) {
				kind = 0
			}
			steps = append(steps, step(1, id, r.Intn(4)/1%2, kind, -1))
			class = "trailers"
		case k < 60: // DATA on any stream state
			id := someID()
			pad := -1
			if r.Chance(1, 4) {
				pad = r.Intn(20)
			}
			steps = append(steps, step(2, id, r.Intn(30), pad, r.Intn(2)))
		case k < 70: // RST on open / closed / idle
			steps = append(steps, step(3, someID(), r.Intn(9), 0, 0))
		case k < 84: // handler returns (interleaving with client frames)
			if len(running) == 0 {
				continue
			}
			j := r.Intn(len(running))
			steps = append(steps, step(8, running[j], 0, 0, 0))
			running = append(running[:j], running[j+1:]...)
		case k < 92: // handler reads
			if len(running) == 0 {
				continue
			}
			steps = append(steps, step(6, running[r.Intn(len(running))], r.Range(1, 40), 0, 0))
		case k < 94:
			if len(running) == 0 {
				continue
			}
			steps = append(steps, step(7, running[r.Intn(len(running))], 0, 0, 0))
		case k < 96:
			steps = append(steps, step(9, r.Range(1, next+2), 0, 0, 0))
			class = "push"
		case k < 98:
			steps = append(steps, step(4, someID(), r.Range(1, 100), 0, 0))
		default:
			steps = append(steps, step(5, r.Range(0, 70000), 0, 0, 0))
		}
	}
	if maxs > 0 && len(ids) > maxs {
		class += "+limit"
	}
	return class, hv.L{hv.L{hv.I(isw), hv.I(maxs)}, steps}
}

func main() {
	hv.Main(&hv.Spec{Prop: "C35", Gen: gen, Impl: h2c33.Run, NQuick: 500, NThorough: 20000, Deadline: 30 * time.Second})
}
