// C53: mod_prison recordAndCheck over timed request histories vs model Prison.v.
// input : [period, stay, threshold, accessDictSize, prisonDictSize, [[key time] ...]]  (key -1 unsignable, -2 reload)
//          in units of 30 min; times non-decreasing.
// Periods are odd, stay and request times even, so that no comparison of the real code (start+period < now,
// now < freeTime) ever falls on an exact boundary: the real time that passes while the history is replayed on the
// virtual clock (far below one unit even on a stalled machine) cannot change a verdict.
// output: [0/1 ...] verdict of recordAndCheck per request
package main

import (
	"verif/harness/hv"

	"github.com/bfenetworks/bfe/bfe_modules/mod_prison"
)

const unit = int64(1800) * 1000 * 1000 * 1000 // 30 min in ns: real time spent replaying (ms) is negligible against it

const unitS = int64(1800) // the time unit in seconds (rule periods are configured in seconds)

// reload payload: accessDictSize + 1000*prisonDictSize + 10^6 * (0 | 1 + period + 100*stay + 10000*(threshold+1))
func reloadPayload(a, p int, cfg bool, period, stay, th int64) int64 {
	t := int64(a) + 1000*int64(p)
	if cfg {
		t += 1000000 * (1 + period + 100*stay + 10000*(th+1))
	}
	return t
}

var multiCmds = []string{"CLOSE", "FINISH", "PASS"}

func toSpecs(v hv.Val) []mod_prison.VerifRuleSpec {
	var out []mod_prison.VerifRuleSpec
	for _, rv := range hv.AsList(v) {
		x := hv.AsList(rv)
		out = append(out, mod_prison.VerifRuleSpec{CheckPeriodS: hv.AsInt(x[0]) * unitS, StayPeriodS: hv.AsInt(x[1]) * unitS,
			Threshold: int32(hv.AsInt(x[2])), Match: hv.AsInt(x[3]) != 0, Cmd: multiCmds[hv.AsInt(x[4])]})
	}
	return out
}

// several overlapping rules: [-7, global rules, product rules, ops] => [[code, checked, prison] per request]
func implMulti(l []hv.Val) hv.Val {
	m := mod_prison.VerifNewModule(toSpecs(l[1]), toSpecs(l[2]))
	out := hv.L{}
	var now int64
	first := true
	for _, ov := range hv.AsList(l[3]) {
		o := hv.AsList(ov)
		t := hv.AsInt(o[1])
		if !first {
			m.Advance((t - now) * unit)
		}
		first = false
		now = t
		code, c, p := m.Request(int(hv.AsInt(o[0])))
		out = append(out, hv.L{hv.I(code), hv.Z(c), hv.Z(p)})
	}
	return out
}

func genMulti(r *hv.Rng) (string, hv.Val) {
	class := "multi"
	mkRules := func(n int, strictFirst bool) hv.L {
		l := hv.L{}
		ths := []int{r.Range(0, 1), r.Range(1, 3), r.Range(2, 5)} // strict ... lax
		for j := 0; j < n; j++ {
			th := ths[j%3]
			if !strictFirst {
				th = ths[(n-1-j)%3]
			}
			match := 1
			if r.Chance(1, 6) {
				match = 0
			}
			cmd := pickI(r, 0, 0, 0, 1, 2)
			l = append(l, hv.L{hv.Z(int64(2*r.Range(0, 4) + 1)), hv.Z(int64(2 * r.Range(1, 5))), hv.I(th), hv.I(match), hv.I(cmd)})
		}
		return l
	}
	strictFirst := r.Chance(1, 2)
	if strictFirst {
		class = "multi-strict-first"
	} else {
		class = "multi-lax-first"
	}
	g := mkRules(r.Intn(3), strictFirst)
	p := mkRules(r.Range(1, 3), strictFirst)
	if len(g)+len(p) < 2 {
		p = mkRules(2, strictFirst)
	}
	nkeys := r.Range(1, 3)
	ops := hv.L{}
	t := int64(0)
	for n := r.Range(4, 40); n > 0; n-- {
		switch r.Intn(6) {
		case 0:
			t += 2
		case 1:
			t += 2 * int64(r.Range(1, 8))
		}
		k := int64(r.Intn(nkeys))
		if r.Chance(1, 40) {
			k = -1
		}
		ops = append(ops, hv.L{hv.Z(k), hv.Z(t)})
	}
	return class, hv.L{hv.Z(-7), g, p, ops}
}

func impl(in hv.Val) hv.Val {
	l := hv.AsList(in)
	if hv.AsInt(l[0]) == -7 {
		return implMulti(l)
	}
	period, stay, th := hv.AsInt(l[0]), hv.AsInt(l[1]), hv.AsInt(l[2])
	p := mod_prison.VerifNewPrison(period*unitS, stay*unitS, int32(th), int(hv.AsInt(l[3])), int(hv.AsInt(l[4])))
	out := hv.L{}
	var now int64
	first := true
	for _, ov := range hv.AsList(l[5]) {
		o := hv.AsList(ov)
		k := hv.AsInt(o[0])
		if k == -2 { // reload
			t := hv.AsInt(o[1])
			low, hi := t%1000000, t/1000000
			if hi > 0 {
				h := hi - 1
				period, stay, th = h%100, (h/100)%100, h/10000-1
			}
			p.Reload(period*unitS, stay*unitS, int32(th), int(low%1000), int(low/1000))
			out = append(out, hv.Bool(false))
			continue
		}
		t := hv.AsInt(o[1])
		if !first {
			p.Advance((t - now) * unit)
		}
		first = false
		now = t
		out = append(out, hv.Bool(p.Request(int(k))))
	}
	return out
}

// reload histories: bursts that jail several keys, reloads that change the dictionary sizes (separately) and possibly
// period/stay/threshold in between, then probes of all keys while the sentences still run
func genReload(r *hv.Rng) (string, hv.Val) {
	period := int64(2*r.Range(1, 4) + 1)
	stay := int64(2 * r.Range(3, 8))
	th := int64(r.Range(0, 2))
	period0, stay0, th0 := period, stay, th
	a0 := pickI(r, 1, 2, 3, 100)
	p0 := pickI(r, 1, 2, 2, 3)
	nkeys := r.Range(3, 6)
	ops := hv.L{}
	t := int64(2 * r.Range(0, 3))
	class := "reload-caps"
	burst := func(k int) {
		for j := int64(0); j <= th; j++ {
			ops = append(ops, hv.L{hv.Z(int64(k)), hv.Z(t)})
		}
	}
	probe := func() {
		for k := 0; k < nkeys; k++ {
			ops = append(ops, hv.L{hv.Z(int64(k)), hv.Z(t)})
		}
	}
	next := 0
	for ; next < r.Range(0, 2) && next < nkeys; next++ {
		burst(next)
	}
	nre := r.Range(1, 3)
	for i := 0; i < nre; i++ {
		a1 := pickI(r, 0, 1, 2, 3, 5, 100)
		p1 := pickI(r, 1, 2, 3, 5, 100, 100)
		cfg := r.Chance(1, 3)
		if cfg {
			class = "reload-cfg"
			th = int64(r.Range(0, 3))
			if r.Chance(1, 2) {
				period = int64(2*r.Range(1, 4) + 1)
			}
			if r.Chance(1, 2) {
				stay = int64(2 * r.Range(3, 8))
			}
		}
		ops = append(ops, hv.L{hv.Z(-2), hv.Z(reloadPayload(a1, p1, cfg, period, stay, th))})
		t += 2 * int64(r.Intn(2))
		for j := r.Range(1, 4); j > 0 && next < nkeys; j-- {
			burst(next)
			next++
		}
		t += 2
		probe()
	}
	t += 2
	probe()
	return class, hv.L{hv.Z(period0), hv.Z(stay0), hv.Z(th0), hv.Z(int64(a0)), hv.Z(int64(p0)), ops}
}

func gen(r *hv.Rng, i int, tier string) (string, hv.Val) {
	if r.Chance(1, 6) {
		return genReload(r)
	}
	if r.Chance(1, 5) {
		return genMulti(r)
	}
	period := int64(2*r.Range(0, 6) + 1) // odd number of units
	stay := int64(2 * r.Range(0, 5))     // even
	th := int64(r.Range(0, 5))
	if r.Chance(1, 30) {
		th = int64(r.Range(-1, 0))
	}
	nkeys := r.Range(1, 4)
	acap, pcap := int64(100), int64(100)
	evict := r.Chance(3, 10)
	if evict { // small dictionaries: LRU eviction of counters and prison records
		nkeys = r.Range(2, 6)
		acap = int64(r.Range(0, 3))
		pcap = int64(r.Range(0, 3))
		if r.Chance(1, 3) {
			acap = 100
		} else if r.Chance(1, 3) {
			pcap = 100
		}
		if th > 2 {
			th = int64(r.Range(0, 2))
		}
	} else if r.Chance(1, 5) { // exactly as many slots as keys: the no-eviction boundary
		acap, pcap = int64(nkeys), int64(nkeys)
	}
	n := r.Range(1, 50)
	class := "mixed"
	mode := r.Intn(6)
	ops := hv.L{}
	t := int64(2 * r.Range(0, 5))
	if mode == 5 {
		// jail probe: fill one window of key 0 up to the threshold, exceed it, then probe around the free time
		class = "jail-probe"
		if th < 0 {
			th = 0
		}
		t0 := t
		add := func(k, tt int64) { ops = append(ops, hv.L{hv.Z(k), hv.Z(tt)}) }
		last := t0
		for j := int64(0); j <= th; j++ { // th+1 requests inside [t0, t0+period]
			tt := t0
			if j > 0 && period > 1 {
				tt = t0 + 2*int64(r.Intn(int(period/2)+1))
			}
			if tt < last {
				tt = last
			}
			last = tt
			add(0, tt)
			if r.Chance(1, 4) {
				add(1, tt)
			}
		}
		free := t0 + period + stay // odd: never hit exactly
		probes := []int64{last, last + 2, free - 3, free - 1, free - 1, free + 1, free + 1, free + 3, free + 1 + period + 1}
		if r.Chance(1, 2) {
			// the jailed key keeps sending a burst of more than threshold requests right before the nominal release:
			// they must be denied WITHOUT being counted, so the request just after the free time of the ORIGINAL
			// jailing is admitted (a rule that counts them would extend the sentence)
			class = "jail-burst"
			probes = []int64{last}
			for j := int64(0); j < th+2+int64(r.Intn(3)); j++ {
				probes = append(probes, free-1)
			}
			probes = append(probes, free+1, free+1, free+3)
		}
		cur := last
		for _, pt := range probes {
			if pt < cur {
				continue
			}
			cur = pt
			add(0, pt)
			if r.Chance(1, 5) {
				add(1, pt)
			}
		}
		return class, hv.L{hv.Z(period), hv.Z(stay), hv.Z(th), hv.Z(acap), hv.Z(pcap), ops}
	}
	for j := 0; j < n; j++ {
		var dt int64
		switch mode {
		case 0: // dense bursts: mostly the same instant
			class = "burst"
			if r.Chance(1, 4) {
				dt = 2 * int64(r.Range(0, 2))
			}
		case 1: // around the period boundary
			class = "period-edge"
			dt = period + int64(r.Range(-3, 3))
			if r.Chance(1, 2) {
				dt = 0
			}
		case 2: // around the free time
			class = "free-edge"
			switch r.Intn(4) {
			case 0:
				dt = period + stay + int64(r.Range(-3, 3))
			case 1:
				dt = stay + int64(r.Range(-2, 2))
			default:
				dt = int64(r.Range(0, 2))
			}
		case 3:
			class = "slow"
			dt = int64(r.Range(0, int(2*period+stay+2)))
		default:
			dt = int64(r.Range(0, 4))
			if r.Chance(1, 6) {
				dt = int64(r.Range(0, int(2*(period+stay))))
			}
		}
		if dt < 0 {
			dt = 0
		}
		dt += dt % 2 // keep times even
		t += dt
		k := int64(r.Intn(nkeys))
		if r.Chance(1, 40) {
			k = -1
		}
		if r.Chance(1, 60) { // configuration reload: dictionaries are taken over, sizes can only grow
			rc := pickI(r, 0, 1, 2, 4, 100)
			ops = append(ops, hv.L{hv.Z(-2), hv.Z(reloadPayload(rc, pickI(r, rc, rc, 1, 3, 100), false, 0, 0, 0))})
		}
		ops = append(ops, hv.L{hv.Z(k), hv.Z(t)})
	}
	if evict {
		class += "-evict"
	}
	if n <= 1 {
		class = "triv-" + class
	}
	return class, hv.L{hv.Z(period), hv.Z(stay), hv.Z(th), hv.Z(acap), hv.Z(pcap), ops}
}

func main() {
	hv.Main(&hv.Spec{Prop: "C53", Gen: gen, Impl: impl, NQuick: 4000, NThorough: 200000})
}

func pickI(r *hv.Rng, xs ...int) int { return xs[r.Intn(len(xs))] }
