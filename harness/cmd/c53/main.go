// C53: mod_prison recordAndCheck over timed request histories vs model Prison.v.
// input : [period, stay, threshold, [[key time] ...]]  in units of 30 min; times non-decreasing.
// Periods are odd, stay and request times even, so that no comparison of the real code (start+period < now,
// now < freeTime) ever falls on an exact boundary: the real time that passes while the history is replayed on the
// virtual clock (far below one unit even on a stalled machine) cannot change a verdict.
// output: [0/1 ...] verdict of recordAndCheck per request
package main

import (
	"verif/harness/hv"

	"github.com/bfenetworks/bfe/bfe_modules/mod_prison"
)

const unit = int64(1800) * 1000 * 1000 * 1000 // 30 min in ns: real time spent replaying (ms) is negligible against it

func impl(in hv.Val) hv.Val {
	l := hv.AsList(in)
	p := mod_prison.VerifNewPrison(hv.AsInt(l[0])*unit, hv.AsInt(l[1])*unit, int32(hv.AsInt(l[2])), 1000)
	out := hv.L{}
	var now int64
	first := true
	for _, ov := range hv.AsList(l[3]) {
		o := hv.AsList(ov)
		t := hv.AsInt(o[1])
		if !first {
			p.Advance((t - now) * unit)
		}
		first = false
		now = t
		out = append(out, hv.Bool(p.Request(int(hv.AsInt(o[0])))))
	}
	return out
}

func gen(r *hv.Rng, i int, tier string) (string, hv.Val) {
	period := int64(2*r.Range(0, 6) + 1) // odd number of units
	stay := int64(2 * r.Range(0, 5))     // even
	th := int64(r.Range(0, 5))
	if r.Chance(1, 30) {
		th = int64(r.Range(-1, 0))
	}
	nkeys := r.Range(1, 4)
	n := r.Range(1, 50)
	class := "mixed"
	mode := r.Intn(5)
	ops := hv.L{}
	t := int64(2 * r.Range(0, 5))
	for j := 0; j < n; j++ {
		var dt int64
		switch mode {
		case 0: // dense bursts: mostly the same instant
			class = "burst"
			if r.Chance(1, 4) {
				dt = 2 * int64(r.Range(0, 2))
			}
		case 1: // around the period boundary
			class = "period-edge"
			dt = period + int64(r.Range(-3, 3))
			if r.Chance(1, 2) {
				dt = 0
			}
		case 2: // around the free time
			class = "free-edge"
			switch r.Intn(4) {
			case 0:
				dt = period + stay + int64(r.Range(-3, 3))
			case 1:
				dt = stay + int64(r.Range(-2, 2))
			default:
				dt = int64(r.Range(0, 2))
			}
		case 3:
			class = "slow"
			dt = int64(r.Range(0, int(2*period+stay+2)))
		default:
			dt = int64(r.Range(0, 4))
			if r.Chance(1, 6) {
				dt = int64(r.Range(0, int(2*(period+stay))))
			}
		}
		if dt < 0 {
			dt = 0
		}
		dt += dt % 2 // keep times even
		t += dt
		k := int64(r.Intn(nkeys))
		if r.Chance(1, 40) {
			k = -1
		}
		ops = append(ops, hv.L{hv.Z(k), hv.Z(t)})
	}
	if n <= 1 {
		class = "triv-" + class
	}
	return class, hv.L{hv.Z(period), hv.Z(stay), hv.Z(th), ops}
}

func main() {
	hv.Main(&hv.Spec{Prop: "C53", Gen: gen, Impl: impl, NQuick: 4000, NThorough: 200000})
}
