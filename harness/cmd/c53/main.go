// C53: mod_prison recordAndCheck over timed request histories vs model Prison.v.
// input : [period, stay, threshold, accessDictSize, prisonDictSize, [[key time] ...]]  (key -1 unsignable, -2 reload)
//          in units of 30 min; times non-decreasing.
// Periods are odd, stay and request times even, so that no comparison of the real code (start+period < now,
// now < freeTime) ever falls on an exact boundary: the real time that passes while the history is replayed on the
// virtual clock (far below one unit even on a stalled machine) cannot change a verdict.
// output: [0/1 ...] verdict of recordAndCheck per request
package main

import (
	"verif/harness/hv"

	"github.com/bfenetworks/bfe/bfe_modules/mod_prison"
)

const unit = int64(1800) * 1000 * 1000 * 1000 // 30 min in ns: real time spent replaying (ms) is negligible against it

func impl(in hv.Val) hv.Val {
	l := hv.AsList(in)
	p := mod_prison.VerifNewPrison(hv.AsInt(l[0])*unit, hv.AsInt(l[1])*unit, int32(hv.AsInt(l[2])), int(hv.AsInt(l[3])),
		int(hv.AsInt(l[4])))
	out := hv.L{}
	var now int64
	first := true
	for _, ov := range hv.AsList(l[5]) {
		o := hv.AsList(ov)
		k := hv.AsInt(o[0])
		if k == -2 { // reload with new dictionary sizes
			p.Reload(int(hv.AsInt(o[1])))
			out = append(out, hv.Bool(false))
			continue
		}
		t := hv.AsInt(o[1])
		if !first {
			p.Advance((t - now) * unit)
		}
		first = false
		now = t
		out = append(out, hv.Bool(p.Request(int(k))))
	}
	return out
}

func gen(r *hv.Rng, i int, tier string) (string, hv.Val) {
	period := int64(2*r.Range(0, 6) + 1) // odd number of units
	stay := int64(2 * r.Range(0, 5))     // even
	th := int64(r.Range(0, 5))
	if r.Chance(1, 30) {
		th = int64(r.Range(-1, 0))
	}
	nkeys := r.Range(1, 4)
	acap, pcap := int64(100), int64(100)
	evict := r.Chance(3, 10)
	if evict { // small dictionaries: LRU eviction of counters and prison records
		nkeys = r.Range(2, 6)
		acap = int64(r.Range(0, 3))
		pcap = int64(r.Range(0, 3))
		if r.Chance(1, 3) {
			acap = 100
		} else if r.Chance(1, 3) {
			pcap = 100
		}
		if th > 2 {
			th = int64(r.Range(0, 2))
		}
	} else if r.Chance(1, 5) { // exactly as many slots as keys: the no-eviction boundary
		acap, pcap = int64(nkeys), int64(nkeys)
	}
	n := r.Range(1, 50)
	class := "mixed"
	mode := r.Intn(6)
	ops := hv.L{}
	t := int64(2 * r.Range(0, 5))
	if mode == 5 {
		// jail probe: fill one window of key 0 up to the threshold, exceed it, then probe around the free time
		class = "jail-probe"
		if th < 0 {
			th = 0
		}
		t0 := t
		add := func(k, tt int64) { ops = append(ops, hv.L{hv.Z(k), hv.Z(tt)}) }
		last := t0
		for j := int64(0); j <= th; j++ { // th+1 requests inside [t0, t0+period]
			tt := t0
			if j > 0 && period > 1 {
				tt = t0 + 2*int64(r.Intn(int(period/2)+1))
			}
			if tt < last {
				tt = last
			}
			last = tt
			add(0, tt)
			if r.Chance(1, 4) {
				add(1, tt)
			}
		}
		free := t0 + period + stay // odd: never hit exactly
		probes := []int64{last, last + 2, free - 3, free - 1, free - 1, free + 1, free + 1, free + 3, free + 1 + period + 1}
		if r.Chance(1, 2) {
			// the jailed key keeps sending a burst of more than threshold requests right before the nominal release:
			// they must be denied WITHOUT being counted, so the request just after the free time of the ORIGINAL
			// jailing is admitted (a rule that counts them would extend the sentence)
			class = "jail-burst"
			probes = []int64{last}
			for j := int64(0); j < th+2+int64(r.Intn(3)); j++ {
				probes = append(probes, free-1)
			}
			probes = append(probes, free+1, free+1, free+3)
		}
		cur := last
		for _, pt := range probes {
			if pt < cur {
				continue
			}
			cur = pt
			add(0, pt)
			if r.Chance(1, 5) {
				add(1, pt)
			}
		}
		return class, hv.L{hv.Z(period), hv.Z(stay), hv.Z(th), hv.Z(acap), hv.Z(pcap), ops}
	}
	for j := 0; j < n; j++ {
		var dt int64
		switch mode {
		case 0: // dense bursts: mostly the same instant
			class = "burst"
			if r.Chance(1, 4) {
				dt = 2 * int64(r.Range(0, 2))
			}
		case 1: // around the period boundary
			class = "period-edge"
			dt = period + int64(r.Range(-3, 3))
			if r.Chance(1, 2) {
				dt = 0
			}
		case 2: // around the free time
			class = "free-edge"
			switch r.Intn(4) {
			case 0:
				dt = period + stay + int64(r.Range(-3, 3))
			case 1:
				dt = stay + int64(r.Range(-2, 2))
			default:
				dt = int64(r.Range(0, 2))
			}
		case 3:
			class = "slow"
			dt = int64(r.Range(0, int(2*period+stay+2)))
		default:
			dt = int64(r.Range(0, 4))
			if r.Chance(1, 6) {
				dt = int64(r.Range(0, int(2*(period+stay))))
			}
		}
		if dt < 0 {
			dt = 0
		}
		dt += dt % 2 // keep times even
		t += dt
		k := int64(r.Intn(nkeys))
		if r.Chance(1, 40) {
			k = -1
		}
		if r.Chance(1, 60) { // configuration reload: dictionaries are taken over, sizes can only grow
			ops = append(ops, hv.L{hv.Z(-2), hv.Z(int64(pickI(r, 0, 1, 2, 4, 100)))})
		}
		ops = append(ops, hv.L{hv.Z(k), hv.Z(t)})
	}
	if evict {
		class += "-evict"
	}
	if n <= 1 {
		class = "triv-" + class
	}
	return class, hv.L{hv.Z(period), hv.Z(stay), hv.Z(th), hv.Z(acap), hv.Z(pcap), ops}
}

func main() {
	hv.Main(&hv.Spec{Prop: "C53", Gen: gen, Impl: impl, NQuick: 4000, NThorough: 200000})
}

func pickI(r *hv.Rng, xs ...int) int { return xs[r.Intn(len(xs))] }
