// C41: TLS server negotiation (bfe_tls readClientHello: version, cipher suite, ALPN/NPN, fallback SCSV,
// resumption policy) vs model TlsNego.v.  The real readClientHello runs on a ClientHello that went
// through clientHelloMsg.marshal/unmarshal; see hooks/bfe_tls/zz_verif_c41.go.
// input [cfg hello] (layout in coq/run/RunC41.v); output [0 alert] | [1 resume vers suite alpn npn protos]
package main

import (
	"verif/harness/hv"

	"github.com/bfenetworks/bfe/bfe_server"
	"github.com/bfenetworks/bfe/bfe_tls"
)

func u16s(v hv.Val) []uint16 {
	l := hv.AsList(v)
	out := make([]uint16, len(l))
	for i, x := range l {
		out[i] = uint16(hv.AsInt(x))
	}
	return out
}
func strs(v hv.Val) []string {
	l := hv.AsList(v)
	out := make([]string, len(l))
	for i, x := range l {
		out[i] = hv.AsStr(x)
	}
	return out
}
func nilIfEmpty16(x []uint16) []uint16 {
	if len(x) == 0 {
		return nil
	}
	return x
}

func impl(in hv.Val) hv.Val {
	top := hv.AsList(in)
	c, h := hv.AsList(top[0]), hv.AsList(top[1])
	cfg := &bfe_tls.VerifC41Config{
		MinVersion: uint16(hv.AsInt(c[0])), MaxVersion: uint16(hv.AsInt(c[1])), PreferServer: hv.AsBool(c[2]),
		Priority: nilIfEmpty16(u16s(c[4])), NextProtos: strs(c[5]), Curves: u16s(c[6]), Poodle: hv.AsBool(c[7]),
		TicketsDisabled: hv.AsBool(c[8]), ClientAuth: int(hv.AsInt(c[9])), Ecdsa: hv.AsBool(c[10]),
	}
	if so := hv.AsList(c[3]); len(so) == 1 {
		cfg.CipherSuites = u16s(so[0])
		if cfg.CipherSuites == nil {
			cfg.CipherSuites = []uint16{}
		}
	}
	if ro := hv.AsList(c[11]); len(ro) == 1 {
		r := hv.AsList(ro[0])
		cfg.HasRule = true
		cfg.RuleGrade, cfg.RuleProtos = hv.AsStr(r[0]), strs(r[1])
		cfg.RuleChacha, cfg.RuleClientAuth = hv.AsBool(r[2]), hv.AsBool(r[3])
	}
	for _, e := range hv.AsList(c[12]) {
		p := hv.AsList(e)
		r := hv.AsList(p[1])
		cfg.Rules = append(cfg.Rules, bfe_tls.VerifC41SniRule{Sni: hv.AsStr(p[0]), Grade: hv.AsStr(r[0]),
			Protos: strs(r[1]), Chacha: hv.AsBool(r[2]), ClientAuth: hv.AsBool(r[3])})
	}
	for _, e := range hv.AsList(c[13]) {
		p := hv.AsList(e)
		cfg.Certs = append(cfg.Certs, bfe_tls.VerifC41Cert{Name: hv.AsStr(p[0]), Ecdsa: hv.AsBool(p[1])})
	}
	cfg.CacheMode = int(hv.AsInt(c[14]))
	hello := &bfe_tls.VerifC41Hello{
		Vers: uint16(hv.AsInt(h[0])), Suites: nilIfEmpty16(u16s(h[1])), Comp: hv.AsBytes(h[2]), Curves: u16s(h[3]),
		Points: hv.AsBytes(h[4]), Alpn: strs(h[5]), Npn: hv.AsBool(h[6]), Sni: hv.AsStr(h[7]),
		SessionId: hv.AsBytes(h[8]),
	}
	tk := hv.AsList(h[9])
	hello.TicketKind = int(hv.AsInt(tk[0]))
	if hello.TicketKind == 2 {
		hello.SVers, hello.SSuite, hello.SCerts = uint16(hv.AsInt(tk[1])), uint16(hv.AsInt(tk[2])), int(hv.AsInt(tk[3]))
	}
	ck := hv.AsList(h[10])
	hello.CacheKind = int(hv.AsInt(ck[0]))
	if hello.CacheKind == 2 {
		hello.CVers, hello.CSuite, hello.CCerts = uint16(hv.AsInt(ck[1])), uint16(hv.AsInt(ck[2])), int(hv.AsInt(ck[3]))
	}
	// the real serving path: Config -> HttpsListener -> n x UpdateSessionTicketKey (Config.Clone +
	// UpdateListener) -> Accept -> readClientHello on the listener's live Config
	config := bfe_tls.VerifC41BuildConfig(cfg, hello)
	ln := bfe_server.NewHttpsListener(bfe_tls.VerifC41Listener{}, config)
	reloads := int(hv.AsInt(c[15]))
	for k := 0; k < reloads; k++ {
		key := make([]byte, 48)
		for j := range key {
			key[j] = byte(17*k + j + 3)
		}
		ln.UpdateSessionTicketKey(key)
	}
	nc, err := bfe_server.VerifC41TlsListener(ln).Accept()
	if err != nil {
		panic(err)
	}
	conn := nc.(*bfe_tls.Conn)
	diff := bfe_tls.VerifC41ConfigDiff(config, bfe_tls.VerifC41ConnConfig(conn))
	r := bfe_tls.VerifC41NegotiateOn(conn, hello)
	if r.Err {
		return hv.L{hv.L{hv.I(0), hv.I(r.Alert)}, hv.LS(diff)}
	}
	return hv.L{hv.L{hv.I(1), hv.Bool(r.Resume), hv.I(int(r.Vers)), hv.I(int(r.Suite)), hv.S(r.Alpn), hv.Bool(r.Npn),
		hv.LS(r.Protos)}, hv.LS(diff)}
}

// ---- generator ----
var real = []int{0xcca8, 0xcca9, 0xc02f, 0xc02b, 0xc011, 0xc007, 0xc013, 0xc009, 0xc014, 0xc00a, 0x0005, 0x002f,
	0x0035, 0xc012, 0x000a, 0xe019}
var other = []int{0x5600, 0x00ff, 0x1301, 0x009c, 0x0a0a}
var protoNames = []string{"h2", "http/1.1", "spdy/3.1", "stream", "h2c"}
var versions = []int{0x0300, 0x0301, 0x0302, 0x0303}

func pick(r *hv.Rng, xs ...int) int { return xs[r.Intn(len(xs))] }

func suiteList(r *hv.Rng, n int, extra int) []int {
	out := make([]int, 0, n)
	for i := 0; i < n; i++ {
		if r.Intn(100) < extra {
			out = append(out, other[r.Intn(len(other))])
		} else {
			out = append(out, real[r.Intn(len(real))])
		}
	}
	return out
}
func protoList(r *hv.Rng) []string {
	var out []string
	switch r.Intn(6) {
	case 0:
		return nil
	case 1:
		return []string{"h2"}
	case 2:
		return []string{"h2", "http/1.1"}
	}
	for _, p := range protoNames {
		if r.Bool() {
			out = append(out, p)
		}
	}
	if r.Bool() { // order matters for mutualProtocol
		for i := len(out) - 1; i > 0; i-- {
			j := r.Intn(i + 1)
			out[i], out[j] = out[j], out[i]
		}
	}
	return out
}

var sniPool = []string{"a.com", "www.a.com", "WWW.A.COM", "a.com.", "x.y.com", "b.org..", "z", ".", "www.b.org", "A.com"}
var certKeys = []string{"a.com", "*.a.com", "*.*.com", "*.*.*", "b.org", "*", "*.com", "www.b.org", "*.y.com", ""}
var grades = []string{"A+", "A", "B", "C", "X"}

func ruleVal(r *hv.Rng, grade string) hv.Val {
	return hv.L{hv.S(grade), hv.LS(protoList(r)), hv.Bool(r.Bool()), hv.Bool(r.Chance(1, 5))}
}

// session entry (ticket or cache): none / undecodable / a session biased to be resumable
func sessionVal(r *hv.Rng, vers int, suites []int) (hv.Val, bool) {
	switch r.Intn(10) {
	case 0:
		return hv.L{hv.I(1)}, false
	case 1, 2, 3, 4:
		sv := versions[r.Intn(4)]
		if r.Chance(2, 3) && vers >= 0x0300 && vers <= 0x0303 { // not above the client's
			sv = 0x0300 + r.Intn(vers-0x0300+1)
		}
		ss := real[r.Intn(len(real))]
		if len(suites) > 0 && r.Chance(3, 4) {
			ss = suites[r.Intn(len(suites))]
		}
		return hv.L{hv.I(2), hv.I(sv), hv.I(ss), hv.I(pick(r, 0, 0, 1, 2))}, true
	}
	return hv.L{hv.I(0)}, false
}

// grade x version x RC4 boundary stream: default suite list, a client offering one RC4 and one or two
// non-RC4 suites at exactly version v, every grade, both Ssl3PoodleProofed values, both preference orders
func genGrade(r *hv.Rng, i int) (string, hv.Val) {
	g := grades[i%5]
	v := versions[(i/5)%4]
	poodle := (i/20)%2 == 1
	prefer := (i/40)%2 == 1
	rc4 := pick(r, 0x0005, 0xc011)
	other := pick(r, 0x002f, 0x0035, 0xc013, 0x000a)
	suites := []int{rc4, other}
	if r.Bool() {
		suites = []int{other, rc4}
	}
	switch r.Intn(4) {
	case 0:
		suites = []int{rc4}
	case 1:
		suites = []int{other}
	case 2:
		suites = append(suites, 0xc02f)
	}
	maxV := pick(r, 0, 0, 0x0303, v)
	minV := pick(r, 0, 0, 0x0300, v)
	var ruleOpt hv.Val = hv.L{hv.L{hv.S(g), hv.LS(nil), hv.Bool(false), hv.Bool(false)}}
	var rules hv.Val = hv.L{}
	sni := ""
	if r.Chance(1, 3) { // the grade comes from an SNI-selected rule; the default rule has another grade
		sni = "a.com"
		rules = hv.L{hv.L{hv.S(sni), hv.L{hv.S(g), hv.LS(nil), hv.Bool(false), hv.Bool(false)}}}
		ruleOpt = hv.L{hv.L{hv.S(grades[(i+1+r.Intn(4))%5]), hv.LS(nil), hv.Bool(false), hv.Bool(false)}}
	}
	cfg := hv.L{hv.I(minV), hv.I(maxV), hv.Bool(prefer), hv.L{}, hv.L{}, hv.LS(nil), hv.L{}, hv.Bool(poodle),
		hv.Bool(false), hv.I(0), hv.Bool(false), ruleOpt, rules, hv.L{}, hv.I(0), hv.I(pick(r, 0, 1, 2))}
	var tk hv.Val = hv.L{hv.I(0)}
	if r.Chance(1, 4) { // resumption must respect the grade as well
		tk = hv.L{hv.I(2), hv.I(pick(r, v, v, 0x0300, 0x0301)), hv.I(suites[r.Intn(len(suites))]), hv.I(0)}
	}
	hello := hv.L{hv.I(v), hv.LI(suites), hv.B([]byte{0}), hv.LI([]int{23}), hv.B([]byte{0}), hv.LS(nil), hv.Bool(false),
		hv.S(sni), hv.B{}, tk, hv.L{hv.I(0)}}
	return "grade-" + g, hv.L{cfg, hello}
}

func gen(r *hv.Rng, i int, tier string) (string, hv.Val) {
	if i%8 == 0 {
		return genGrade(r, i/8)
	}
	class := ""
	// ---- config
	minV, maxV := 0, 0
	if r.Chance(2, 5) {
		minV = versions[r.Intn(4)]
	}
	if r.Bool() {
		maxV = versions[r.Intn(4)]
	}
	effMin, effMax := minV, maxV
	if effMin == 0 {
		effMin = 0x0300
	}
	if effMax == 0 {
		effMax = 0x0303
	}
	if effMin > effMax { // keep the configured range non-empty
		minV, effMin = 0, 0x0300
	}
	prefer := r.Bool()
	var suitesOpt hv.Val = hv.L{}
	cfgSuites := real
	if r.Chance(1, 2) {
		cfgSuites = suiteList(r, r.Range(0, 9), 8)
		suitesOpt = hv.L{hv.LI(cfgSuites)}
	}
	var prio []int
	if r.Chance(1, 2) {
		n := len(cfgSuites)
		if r.Chance(1, 6) {
			n = r.Intn(6)
		}
		cur := 0
		for k := 0; k < n; k++ {
			if r.Chance(1, 2) {
				cur += r.Range(0, 2)
			}
			if r.Chance(1, 15) { // non-monotone priorities
				cur = r.Intn(4)
			}
			prio = append(prio, cur)
		}
		if prefer && n == len(cfgSuites) {
			class = "equiv-"
		}
	}
	var curves []int
	if r.Chance(1, 4) {
		for _, c := range []int{23, 24, 25, 29} {
			if r.Bool() {
				curves = append(curves, c)
			}
		}
	}
	var ruleOpt hv.Val = hv.L{}
	if r.Chance(3, 5) {
		grade := []string{"A+", "A", "B", "C", "C", "X"}[r.Intn(6)]
		ruleOpt = hv.L{hv.L{hv.S(grade), hv.LS(protoList(r)), hv.Bool(r.Bool()), hv.Bool(r.Chance(1, 5))}}
	}
	// SNI-specific rules and named certificates (distinct keys)
	rules := hv.L{}
	if r.Chance(1, 3) {
		seen := map[string]bool{}
		for k := r.Range(1, 2); k > 0; k-- {
			n := sniPool[r.Intn(len(sniPool))]
			if !seen[n] {
				seen[n] = true
				rules = append(rules, hv.L{hv.S(n), ruleVal(r, grades[r.Intn(5)])})
			}
		}
	}
	certs := hv.L{}
	if r.Chance(1, 3) {
		seen := map[string]bool{}
		for k := r.Range(1, 3); k > 0; k-- {
			n := certKeys[r.Intn(len(certKeys))]
			if !seen[n] {
				seen[n] = true
				certs = append(certs, hv.L{hv.S(n), hv.Bool(r.Bool())})
			}
		}
	}
	cacheMode := pick(r, 0, 0, 1, 1, 1, 2)
	ticketsDisabled := r.Chance(1, 6)
	cfg := hv.L{hv.I(minV), hv.I(maxV), hv.Bool(prefer), suitesOpt, hv.LI(prio), hv.LS(protoList(r)), hv.LI(curves),
		hv.Bool(r.Bool()), hv.Bool(ticketsDisabled), hv.I(r.Intn(5)), hv.Bool(r.Chance(1, 3)), ruleOpt, rules, certs,
		hv.I(cacheMode), hv.I(pick(r, 0, 0, 1, 1, 2, 3))}

	// ---- hello
	vers := versions[r.Intn(4)]
	if r.Chance(1, 2) { // inside the configured range
		vers = effMin + r.Intn(effMax-effMin+1)
		if r.Chance(1, 3) {
			vers = effMax
		}
	}
	if r.Chance(1, 10) {
		vers = pick(r, 0x0304, 0x02ff, 0x0200, 0x0400)
	}
	var suites []int
	if r.Chance(3, 5) { // share the server's list
		for _, s := range cfgSuites {
			if r.Chance(1, 2) {
				suites = append(suites, s)
			}
		}
	}
	suites = append(suites, suiteList(r, r.Range(0, 6), 10)...)
	if r.Chance(1, 4) {
		suites = append(suites, 0x5600)
		class += "scsv-"
	}
	if r.Chance(1, 4) {
		for i := len(suites) - 1; i > 0; i-- {
			j := r.Intn(i + 1)
			suites[i], suites[j] = suites[j], suites[i]
		}
	}
	comp := [][]byte{{0}, {0}, {0}, {0}, {0}, {0}, {0}, {0}, {0}, {0}, {0}, {1, 0}, {1}, {}}[r.Intn(14)]
	hcurves := [][]int{{}, {23}, {23}, {29, 23}, {29}, {24, 25}, {23, 24, 25}}[r.Intn(7)]
	points := [][]byte{{}, {0}, {0}, {0}, {1}, {1, 0}}[r.Intn(6)]
	var alpn []string
	if r.Chance(3, 5) {
		alpn = protoList(r)
	}
	sid := []byte{}
	if r.Chance(1, 3) {
		sid = r.Bytes(32)
	}
	tk, good := sessionVal(r, vers, suites)
	if good {
		class += "ticket-"
	}
	var ck hv.Val = hv.L{hv.I(0)}
	if len(sid) > 0 || r.Chance(1, 10) {
		var g2 bool
		ck, g2 = sessionVal(r, vers, suites)
		if g2 && cacheMode == 1 && len(sid) > 0 {
			class += "cache-"
		}
	}
	sni := ""
	if r.Chance(3, 5) {
		sni = sniPool[r.Intn(len(sniPool))]
	}
	hello := hv.L{hv.I(vers), hv.LI(suites), hv.B(comp), hv.LI(hcurves), hv.B(points), hv.LS(alpn), hv.Bool(r.Bool()),
		hv.S(sni), hv.B(sid), tk, ck}
	if len(alpn) > 0 {
		class += "alpn"
	} else {
		class += "npn"
	}
	return class, hv.L{cfg, hello}
}

func main() {
	hv.Main(&hv.Spec{Prop: "C41", Gen: gen, Impl: impl, NQuick: 20000, NThorough: 1000000})
}
