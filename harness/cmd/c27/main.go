// C27: HTTP/1 responses to clients are correctly framed.  Whole-server harness (packages e2e, h1x2).
// input / output: see coq/run/RunC27.v.
package main

import (
	"bytes"
	"fmt"
	"os"
	"strings"

	"verif/harness/e2e"
	"verif/harness/h1x2"
	"verif/harness/hv"
)

var env *h1x2.Env
var nCase int

var methods = []string{"GET", "HEAD", "POST"}

func noBody(status int) bool {
	return (status >= 100 && status <= 199) || status == 204 || status == 304
}

func impl(in hv.Val) hv.Val {
	l := hv.AsList(in)
	if len(l) != 10 {
		return hv.Err(0)
	}
	minor, meth, conn := int(hv.AsInt(l[0])), int(hv.AsInt(l[1])), hv.AsStr(l[2])
	src, status := int(hv.AsInt(l[3])), int(hv.AsInt(l[4]))
	framing, declared, errf := int(hv.AsInt(l[6])), int(hv.AsInt(l[7])), int(hv.AsInt(l[9]))
	if minor < 0 || minor > 1 || meth < 0 || meth > 2 || src < 0 || src > 2 || status < 100 || status > 599 ||
		framing < 0 || framing > 2 || declared < 0 || errf < 0 || errf > 1 {
		return hv.Err(0)
	}
	var hdrs [][2]string
	for _, hvv := range hv.AsList(l[5]) {
		kv := hv.AsList(hvv)
		if len(kv) != 2 {
			return hv.Err(0)
		}
		hdrs = append(hdrs, [2]string{hv.AsStr(kv[0]), hv.AsStr(kv[1])})
	}
	var pieces [][]byte
	for _, p := range hv.AsList(l[8]) {
		pieces = append(pieces, hv.AsBytes(p))
	}
	if env == nil {
		env = h1x2.Start()
	}
	nCase++
	id := fmt.Sprintf("c%d", nCase)
	env.Mod.Reset()
	env.Plan.Reset()
	env.Mod.Set("probe", h1x2.ProbeSpec())

	var rq strings.Builder
	fmt.Fprintf(&rq, "%s /c27 HTTP/1.%d\r\nHost: example.org\r\nX-Verif-Id: %s\r\n", methods[meth], minor, id)
	if conn != "" {
		fmt.Fprintf(&rq, "Connection: %s\r\n", conn)
	}
	if meth == 2 {
		rq.WriteString("Content-Length: 0\r\n")
	}
	if src != 1 {
		fmt.Fprintf(&rq, "X-Verif-Spec%s: %s\r\n", []string{"", "", "2"}[src], id)
		env.Mod.Set(id, &h1x2.Spec{Status: status, Header: hdrs, Pieces: pieces, Err: errf == 1})
	} else {
		var rp bytes.Buffer
		fmt.Fprintf(&rp, "HTTP/1.1 %d X\r\n", status)
		for _, kv := range hdrs {
			fmt.Fprintf(&rp, "%s: %s\r\n", kv[0], kv[1])
		}
		switch framing {
		case 0:
			fmt.Fprintf(&rp, "Content-Length: %d\r\n", declared)
		case 1:
			rp.WriteString("Transfer-Encoding: chunked\r\n")
		}
		rp.WriteString("\r\n")
		if meth != 1 && !noBody(status) {
			for _, p := range pieces {
				if framing == 1 {
					if len(p) > 0 {
						fmt.Fprintf(&rp, "%x\r\n%s\r\n", len(p), p)
					}
				} else {
					rp.Write(p)
				}
			}
			if framing == 1 && errf == 0 {
				rp.WriteString("0\r\n\r\n")
			}
		}
		env.Plan.PushFor(id, e2e.Reply(rp.Bytes()))
	}
	rq.WriteString("\r\n")
	c := env.Srv.Dial()
	defer c.Close()
	c.Send([]byte(rq.String() + h1x2.ProbeReq))
	data, closed := c.ReadUntilClose()
	if !closed {
		return hv.Timeout()
	}
	return hv.B(h1x2.NormDate(data))
}

// ---- generator ----

var conns = []string{"", "", "", "", "close", "keep-alive", "Keep-Alive", "keep-alive, x", "x, close", "closed", "upgrade", "Close"}
var statusAny = []int{200, 200, 200, 200, 201, 204, 204, 206, 301, 302, 304, 304, 400, 403, 404, 500, 502, 503, 299, 599}
var statusMod = []int{100, 101, 102, 199}
var sizes = []int{0, 1, 2, 3, 10, 100, 255, 511, 512, 513, 600, 1024, 1500}

const textAlpha = "abcdefghijklmnopqrstuvwxyz0123456789 "

func body(r *hv.Rng, n int, text bool) []byte {
	b := make([]byte, n)
	for i := range b {
		if text {
			b[i] = textAlpha[r.Intn(len(textAlpha))]
		} else {
			b[i] = byte(r.Intn(256))
		}
	}
	return b
}

func gen(r *hv.Rng, i int, tier string) (string, hv.Val) {
	minor := 1
	if r.Chance(3, 10) {
		minor = 0
	}
	meth := []int{0, 0, 0, 0, 0, 0, 0, 1, 1, 2}[r.Intn(10)]
	conn := conns[r.Intn(len(conns))]
	if minor == 0 && r.Chance(1, 2) {
		conn = []string{"keep-alive", "Keep-Alive", "keep-alive, x"}[r.Intn(3)]
	}
	src := 0
	if r.Chance(4, 10) {
		src = 1
	} else if r.Chance(1, 3) {
		src = 2
	}
	status := statusAny[r.Intn(len(statusAny))]
	if src != 1 && r.Chance(1, 8) {
		status = statusMod[r.Intn(len(statusMod))]
	}
	var hdrs [][2]string
	add := func(k, v string) { hdrs = append(hdrs, [2]string{k, v}) }
	if r.Chance(1, 2) {
		add("Server", "bfe")
	}
	if r.Chance(1, 3) {
		add("X-A", "1")
		if r.Chance(1, 2) {
			add("X-A", "b c")
		}
	}
	if r.Chance(1, 5) {
		add("Etag", "\"v1\"")
	}
	if r.Chance(1, 6) && src != 1 {
		add("X-Pad", " padded\t")
	}
	haveCT := r.Chance(1, 2) || status == 304
	if haveCT {
		add("Content-Type", []string{"text/html", "application/octet-stream"}[r.Intn(2)])
	}
	if r.Chance(7, 10) {
		add("Date", []string{h1x2.FixedDate, h1x2.FixedDate, "d1"}[r.Intn(3)])
	}
	if r.Chance(1, 4) {
		add("Connection", []string{"close", "keep-alive", "Keep-Alive", "x", "Close"}[r.Intn(5)])
	}
	if src != 1 && r.Chance(1, 10) {
		add("Transfer-Encoding", []string{"chunked", "chunked", "identity", "gzip"}[r.Intn(4)])
	}
	// body
	np := []int{0, 1, 1, 1, 2, 3, 4}[r.Intn(7)]
	var pieces [][]byte
	total := 0
	for k := 0; k < np; k++ {
		n := sizes[r.Intn(len(sizes))]
		if r.Chance(1, 3) {
			n = r.Intn(700)
		}
		if total+n > 2600 {
			n = 1
		}
		total += n
		pieces = append(pieces, body(r, n, !haveCT))
	}
	errf := 0
	if r.Chance(1, 12) {
		errf = 1
	}
	framing, declared := 0, 0
	class := ""
	if src != 1 {
		class = []string{"mod", "", "mod2"}[src]
		switch r.Intn(10) {
		case 0, 1, 2, 3:
		case 4, 5, 6, 7:
			add("Content-Length", fmt.Sprint(total))
			class += "-cl"
		case 8:
			add("Content-Length", fmt.Sprint(total+1+r.Intn(3)))
			class += "-cllong"
		case 9:
			if r.Chance(1, 2) {
				add("Content-Length", []string{"abc", "-1", "5x", "99999999999999999999"}[r.Intn(4)]) // invalid: must be dropped
				class += "-clbad"
			} else if total > 0 {
				add("Content-Length", fmt.Sprint(r.Intn(total)))
				class += "-clshort"
			}
		}
	} else {
		class = "be"
		framing = []int{0, 0, 0, 1, 1, 2}[r.Intn(6)]
		if meth == 1 || noBody(status) {
			// no body on the backend connection: nothing can be cut short
			errf = 0
			if framing == 1 && meth != 1 {
				framing = 2 // a body-less status announced as chunked makes the transport wait for chunks: not generated
			}
			if framing == 0 {
				declared = total
			}
		} else {
			switch framing {
			case 0:
				declared = total
				if errf == 1 {
					declared = total + 1 + r.Intn(5)
				}
			case 1:
			case 2:
				errf = 0
			}
		}
		class += []string{"-cl", "-chunked", "-eof"}[framing]
	}
	if errf == 1 {
		class += "-err"
	}
	if meth == 1 {
		class += "-head"
	}
	if noBody(status) {
		class += "-nobodystatus"
	}
	if minor == 0 {
		class += "-10"
	}
	hs := hv.L{}
	for _, kv := range hdrs {
		hs = append(hs, hv.L{hv.S(kv[0]), hv.S(kv[1])})
	}
	ps := hv.L{}
	for _, p := range pieces {
		ps = append(ps, hv.B(p))
	}
	return class, hv.L{hv.I(minor), hv.I(meth), hv.S(conn), hv.I(src), hv.I(status), hs, hv.I(framing), hv.I(declared), ps, hv.I(errf)}
}

func main() {
	hv.Main(&hv.Spec{Prop: "C27", Gen: gen, Impl: impl, NQuick: 2500, NThorough: 100000})
	if env != nil {
		env.Srv.Close()
	}
	e2e.RemoveAll()
	os.Stdout.Sync()
}
