// C01: smooth weighted round robin (bal_slb.BalanceRR.Balance(WrrSmooth), Update, SetAvail) vs model Swrr.v.
// input : [ conf ops ]  conf = [[id w] ...] ; ops = [0 k] picks | [1 conf] Update | [2 id b] SetAvail
// output: per-op observations ([p1..pk] ids, -1 = error; [] for Update/SetAvail); [-4] if two runs of the
//         implementation on the same input differ (the sequence must be a function of the input).
package main

import (
	"fmt"
	"time"

	"verif/harness/hv"

	"github.com/bfenetworks/bfe/bfe_balance/bal_slb"
	"github.com/bfenetworks/bfe/bfe_config/bfe_cluster_conf/cluster_table_conf"
)

func mkConf(v hv.Val) cluster_table_conf.SubClusterBackend {
	var conf cluster_table_conf.SubClusterBackend
	for _, e := range hv.AsList(v) {
		p := hv.AsList(e)
		id, w := int(hv.AsInt(p[0])), int(hv.AsInt(p[1]))
		name := fmt.Sprintf("b%d", id)
		// IPv4, IPv6 literal and host name backends (the AddrInfo key of a conf entry must match the backend's)
		addr := fmt.Sprintf("10.0.%d.%d", id/256, id%256)
		switch id % 3 {
		case 1:
			addr = fmt.Sprintf("fd00::%x", id+1)
		case 2:
			addr = fmt.Sprintf("h-%d.example", id)
		}
		port := 8000 + id
		conf = append(conf, &cluster_table_conf.BackendConf{Name: &name, Addr: &addr, Port: &port, Weight: &w})
	}
	return conf
}

func once(in hv.Val) hv.Val {
	top := hv.AsList(in)
	brr := bal_slb.NewBalanceRR("sub")
	brr.Init(mkConf(top[0]))
	out := hv.L{}
	for _, o := range hv.AsList(top[1]) {
		op := hv.AsList(o)
		switch hv.AsInt(op[0]) {
		case 0:
			k := int(hv.AsInt(op[1]))
			ps := make(hv.L, 0, k)
			for j := 0; j < k; j++ {
				b, err := brr.Balance(bal_slb.WrrSmooth, nil)
				if err != nil || b == nil {
					ps = append(ps, hv.I(-1))
				} else {
					ps = append(ps, hv.I(b.Port-8000))
				}
			}
			out = append(out, ps)
		case 1:
			brr.Update(mkConf(op[1]))
			out = append(out, hv.L{})
		case 2:
			id := int(hv.AsInt(op[1]))
			for _, b := range bal_slb.VerifC01Backends(brr) {
				if b.Port-8000 == id {
					b.SetAvail(hv.AsBool(op[2]))
				}
			}
			out = append(out, hv.L{})
		case 3:
			brr.SetSlowStart(int(hv.AsInt(op[1])))
			out = append(out, hv.L{})
		case 4:
			bal_slb.VerifC01SetElapsed(brr, 8000+int(hv.AsInt(op[1])), time.Duration(hv.AsInt(op[2]))*time.Millisecond)
			out = append(out, hv.L{})
		case 5:
			id := int(hv.AsInt(op[1]))
			for _, b := range bal_slb.VerifC01Backends(brr) {
				if b.Port-8000 == id {
					b.SetRestart(true)
				}
			}
			out = append(out, hv.L{})
		default:
			panic("bad op")
		}
	}
	return out
}

func impl(in hv.Val) hv.Val {
	a := once(in)
	b := once(in)
	if hv.String(a) != hv.String(b) {
		return hv.L{hv.I(-4)}
	}
	return a
}

type ent struct{ id, w int }

func confVal(c []ent) hv.Val {
	l := hv.L{}
	for _, e := range c {
		l = append(l, hv.L{hv.I(e.id), hv.I(e.w)})
	}
	return l
}

func genWeights(r *hv.Rng, n int, tier string) []int {
	ws := make([]int, n)
	maxw := 8
	if tier == "thorough" && r.Chance(1, 4) {
		maxw = 50
	}
	switch r.Intn(6) {
	case 0: // all equal
		w := r.Range(1, 4)
		for i := range ws {
			ws[i] = w
		}
	case 1: // gcd > 1
		g := r.Range(2, 3)
		for i := range ws {
			ws[i] = g * r.Range(1, 3)
		}
	case 2: // one dominant
		for i := range ws {
			ws[i] = 1
		}
		ws[r.Intn(n)] = r.Range(3, maxw+4)
	default:
		for i := range ws {
			ws[i] = r.Range(1, maxw)
		}
	}
	return ws
}

func sumPos(c []ent, down map[int]bool) int {
	s := 0
	for _, e := range c {
		if e.w > 0 && !down[e.id] {
			s += e.w
		}
	}
	return s
}

// split k picks into 1..3 pick ops, optionally separated by no-op operations
func addPicks(r *hv.Rng, ops hv.L, k int, cur []ent, noops bool) hv.L {
	for k > 0 {
		c := k
		if r.Chance(1, 2) {
			c = r.Range(1, k)
		}
		ops = append(ops, hv.L{hv.I(0), hv.I(c)})
		k -= c
		if noops && k > 0 {
			switch r.Intn(3) {
			case 0: // Update with the same conf (possibly listed in another order): must not disturb the sequence
				p := append([]ent(nil), cur...)
				if r.Bool() {
					for i := len(p) - 1; i > 0; i-- {
						j := r.Intn(i + 1)
						p[i], p[j] = p[j], p[i]
					}
				}
				ops = append(ops, hv.L{hv.I(1), confVal(p)})
			case 1:
				ops = append(ops, hv.L{hv.I(2), hv.I(999), hv.I(0)}) // unknown id: no backend touched
			}
		}
	}
	return ops
}

// elapsed (ms) that puts a backend with target weight `final` at ramp position num/den of slow-start time T (s),
// moved forward until 2 s of real-time jitter cannot change the truncated ramp weight
func rampAt(T, final, num, den int) int {
	e := T * 1000 * num / den
	if final > 0 {
		for (final*e)%(1000*T)+final*2000 >= 1000*T && (final*e)/(1000*T) < final {
			e += 500
		}
	}
	return e
}

// slow-start histories: SetSlowStart, a backend is added by Update or restarted by the health check, the clock
// seam places it before / inside / exactly at / after the end of its ramp, with picks in between and after
func genSS(r *hv.Rng) (string, hv.Val) {
	n := r.Range(1, 4)
	cur := make([]ent, n)
	for j := range cur {
		cur[j] = ent{j, r.Range(1, 4)}
	}
	init := confVal(cur)
	T := []int{3600, 7200, 86400}[r.Intn(3)]
	ops := hv.L{}
	pk := func(k int) {
		if k > 0 {
			ops = append(ops, hv.L{hv.I(0), hv.I(k)})
		}
	}
	if r.Bool() {
		pk(r.Range(1, 5))
	}
	late := r.Chance(1, 4) // the restart flag is raised while slow start is still off; SetSlowStart comes later
	if !late {
		ops = append(ops, hv.L{hv.I(3), hv.I(T)})
	}
	class := "ss-add"
	var tid, tw int
	if r.Chance(2, 3) {
		// Update adds a backend (restart flag set); sometimes with weight 0 / -1
		tid, tw = n, r.Range(1, 5)
		if r.Chance(1, 4) {
			tw = -r.Intn(2)
			class = "ss-add-w0"
		}
		next := append(append([]ent(nil), cur...), ent{tid, tw})
		if r.Chance(1, 3) { // others down: the new backend is the only candidate
			for _, e := range cur {
				if r.Chance(2, 3) {
					ops = append(ops, hv.L{hv.I(2), hv.I(e.id), hv.I(0)})
				}
			}
		}
		ops = append(ops, hv.L{hv.I(1), confVal(next)})
		cur = next
	} else {
		// health check: backend down, later back with the restart flag
		class = "ss-restart"
		k := r.Intn(n)
		tid, tw = cur[k].id, cur[k].w
		ops = append(ops, hv.L{hv.I(2), hv.I(tid), hv.I(0)})
		pk(r.Range(0, 3))
		if r.Chance(1, 4) { // reloaded to weight 0 while down
			next := append([]ent(nil), cur...)
			next[k].w = 0
			tw = 0
			ops = append(ops, hv.L{hv.I(1), confVal(next)})
			cur = next
			class = "ss-restart-w0"
		}
		ops = append(ops, hv.L{hv.I(5), hv.I(tid)}, hv.L{hv.I(2), hv.I(tid), hv.I(1)})
	}
	final := tw * 100
	pk(r.Range(1, 3)) // consumes the restart flag: ramp starts, elapsed ~ 0
	if late {
		ops = append(ops, hv.L{hv.I(3), hv.I(T)})
		pk(r.Range(1, 3))
		class += "-late"
	}
	// ramp positions, increasing
	type pos struct{ num, den int }
	var seq []pos
	switch r.Intn(5) {
	case 0:
		seq = []pos{{1, 1000}, {1, 3}, {1, 1}} // before, inside, exactly at the end
	case 1:
		seq = []pos{{1, 2}, {13, 10}} // inside, then late: first call after the end comes with a gap
	case 2:
		seq = []pos{{r.Range(1, 9), 10}, {r.Range(11, 30), 10}}
	case 3:
		seq = []pos{{2, 1}} // one call long after the end
	default:
		seq = []pos{{r.Range(1, 99), 100}, {r.Range(1, 99) + 100, 200}, {999, 1000}, {1001, 1000}}
	}
	for _, p := range seq {
		ops = append(ops, hv.L{hv.I(4), hv.I(tid), hv.I(rampAt(T, final, p.num, p.den))})
		pk(r.Range(1, 6))
		if r.Chance(1, 8) {
			ops = append(ops, hv.L{hv.I(3), hv.I(0)}) // slow start switched off mid-way: ramps freeze
			pk(r.Range(1, 3))
			ops = append(ops, hv.L{hv.I(3), hv.I(T)})
		}
	}
	// after the ramp: at least two periods
	A := sumPos(cur, map[int]bool{})
	if A > 0 {
		pk(2*A + r.Intn(A+1))
	} else {
		pk(2)
	}
	return class, hv.L{init, ops}
}

func gen(r *hv.Rng, i int, tier string) (string, hv.Val) {
	if i >= 400 && r.Chance(1, 5) {
		return genSS(r)
	}
	n := r.Range(1, 6)
	if r.Chance(1, 10) {
		n = r.Range(7, 12)
	}
	ws := genWeights(r, n, tier)
	cur := make([]ent, n)
	for j := range cur {
		cur[j] = ent{j, ws[j]}
	}
	class := "fresh"
	// ineligible weights in the initial conf
	if r.Chance(1, 5) {
		cur[r.Intn(n)].w = -r.Intn(2)
		class = "fresh-w0"
	}
	init := confVal(cur)
	down := map[int]bool{}
	ops := hv.L{}
	A := sumPos(cur, down)
	if A == 0 {
		ops = addPicks(r, ops, r.Range(1, 4), cur, false)
		return "triv-none-eligible", hv.L{init, ops}
	}
	budget := 320
	periods := 3
	if A*3 > budget {
		periods = 1
	}
	k := r.Intn(A+1) + periods*A
	if r.Chance(1, 12) {
		k = r.Intn(A + 1) // shorter than one period
		class = "short"
	}
	mode := r.Intn(10)
	if i < 400 {
		mode = 0
	}
	switch {
	case mode < 5: // one stable segment from the fresh state, with no-op operations interleaved
		ops = addPicks(r, ops, k, cur, true)
	case mode < 8: // weight-changing reload(s)
		class = "reload"
		k0 := r.Intn(2*A + 1)
		if r.Chance(1, 4) {
			k0 = A * r.Range(0, 2) // period aligned: state is fresh again
			class = "reload-aligned"
		}
		ops = addPicks(r, ops, k0, cur, false)
		next := append([]ent(nil), cur...)
		nextID := n
		switch r.Intn(5) {
		case 0: // change some weights
			for j := range next {
				if r.Bool() {
					next[j].w = r.Range(1, 8)
				}
			}
		case 1: // remove one
			if len(next) > 1 {
				d := r.Intn(len(next))
				next = append(next[:d], next[d+1:]...)
			}
		case 2: // add one new backend (only one: new ones are appended in map order)
			next = append(next, ent{nextID, r.Range(1, 6)})
		case 3: // weight to 0 (credit reset) and others changed
			next[r.Intn(len(next))].w = 0
		default: // permute weights
			for a := len(next) - 1; a > 0; a-- {
				b := r.Intn(a + 1)
				next[a].w, next[b].w = next[b].w, next[a].w
			}
		}
		ops = append(ops, hv.L{hv.I(1), confVal(next)})
		// the effective order keeps old backends in old order
		A2 := sumPos(next, down)
		if A2 > 0 {
			k2 := r.Intn(A2+1) + 2*A2
			if k2 > budget {
				k2 = A2 + r.Intn(A2+1)
			}
			ops = addPicks(r, ops, k2, next, false)
		} else {
			ops = addPicks(r, ops, 2, next, false)
		}
	case mode == 8 && r.Bool(): // weight to 0 (credit reset) and back to a positive weight
		class = "reload-zero-back"
		ops = addPicks(r, ops, r.Intn(2*A+1), cur, false)
		k := r.Intn(len(cur))
		z := append([]ent(nil), cur...)
		z[k].w = -r.Intn(2)
		ops = append(ops, hv.L{hv.I(1), confVal(z)})
		Az := sumPos(z, down)
		ops = addPicks(r, ops, r.Intn(2*Az+2), z, false)
		back := append([]ent(nil), z...)
		back[k].w = r.Range(1, 6)
		ops = append(ops, hv.L{hv.I(1), confVal(back)})
		Ab := sumPos(back, down)
		ops = addPicks(r, ops, Ab+r.Intn(Ab+1), back, false)
	default: // availability flips
		class = "avail"
		k0 := r.Intn(2*A + 1)
		if r.Chance(1, 4) {
			k0 = 0
			class = "avail-at-start"
		}
		ops = addPicks(r, ops, k0, cur, false)
		d := cur[r.Intn(n)].id
		ops = append(ops, hv.L{hv.I(2), hv.I(d), hv.I(0)})
		down[d] = true
		A2 := sumPos(cur, down)
		k2 := 2
		if A2 > 0 {
			k2 = r.Intn(A2+1) + 2*A2
		}
		ops = addPicks(r, ops, k2, cur, false)
		if r.Bool() {
			ops = append(ops, hv.L{hv.I(2), hv.I(d), hv.I(1)})
			delete(down, d)
			ops = addPicks(r, ops, r.Intn(A+1)+2*A, cur, false)
		}
	}
	return class, hv.L{init, ops}
}

func main() {
	hv.Main(&hv.Spec{Prop: "C01", Gen: gen, Impl: impl, NQuick: 2500, NThorough: 150000})
}
