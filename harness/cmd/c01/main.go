// C01: smooth weighted round robin (bal_slb.BalanceRR.Balance(WrrSmooth), Update, SetAvail) vs model Swrr.v.
// input : [ conf ops ]  conf = [[id w] ...] ; ops = [0 k] picks | [1 conf] Update | [2 id b] SetAvail
// output: per-op observations ([p1..pk] ids, -1 = error; [] for Update/SetAvail); [-4] if two runs of the
//         implementation on the same input differ (the sequence must be a function of the input).
package main

import (
	"fmt"

	"verif/harness/hv"

	"github.com/bfenetworks/bfe/bfe_balance/bal_slb"
	"github.com/bfenetworks/bfe/bfe_config/bfe_cluster_conf/cluster_table_conf"
)

func mkConf(v hv.Val) cluster_table_conf.SubClusterBackend {
	var conf cluster_table_conf.SubClusterBackend
	for _, e := range hv.AsList(v) {
		p := hv.AsList(e)
		id, w := int(hv.AsInt(p[0])), int(hv.AsInt(p[1]))
		name := fmt.Sprintf("b%d", id)
		addr := fmt.Sprintf("10.0.%d.%d", id/256, id%256)
		port := 8000 + id
		conf = append(conf, &cluster_table_conf.BackendConf{Name: &name, Addr: &addr, Port: &port, Weight: &w})
	}
	return conf
}

func once(in hv.Val) hv.Val {
	top := hv.AsList(in)
	brr := bal_slb.NewBalanceRR("sub")
	brr.Init(mkConf(top[0]))
	out := hv.L{}
	for _, o := range hv.AsList(top[1]) {
		op := hv.AsList(o)
		switch hv.AsInt(op[0]) {
		case 0:
			k := int(hv.AsInt(op[1]))
			ps := make(hv.L, 0, k)
			for j := 0; j < k; j++ {
				b, err := brr.Balance(bal_slb.WrrSmooth, nil)
				if err != nil || b == nil {
					ps = append(ps, hv.I(-1))
				} else {
					ps = append(ps, hv.I(b.Port-8000))
				}
			}
			out = append(out, ps)
		case 1:
			brr.Update(mkConf(op[1]))
			out = append(out, hv.L{})
		case 2:
			id := int(hv.AsInt(op[1]))
			for _, b := range bal_slb.VerifC01Backends(brr) {
				if b.Port-8000 == id {
					b.SetAvail(hv.AsBool(op[2]))
				}
			}
			out = append(out, hv.L{})
		default:
			panic("bad op")
		}
	}
	return out
}

func impl(in hv.Val) hv.Val {
	a := once(in)
	b := once(in)
	if hv.String(a) != hv.String(b) {
		return hv.L{hv.I(-4)}
	}
	return a
}

type ent struct{ id, w int }

func confVal(c []ent) hv.Val {
	l := hv.L{}
	for _, e := range c {
		l = append(l, hv.L{hv.I(e.id), hv.I(e.w)})
	}
	return l
}

func genWeights(r *hv.Rng, n int, tier string) []int {
	ws := make([]int, n)
	maxw := 8
	if tier == "thorough" && r.Chance(1, 4) {
		maxw = 50
	}
	switch r.Intn(6) {
	case 0: // all equal
		w := r.Range(1, 4)
		for i := range ws {
			ws[i] = w
		}
	case 1: // gcd > 1
		g := r.Range(2, 3)
		for i := range ws {
			ws[i] = g * r.Range(1, 3)
		}
	case 2: // one dominant
		for i := range ws {
			ws[i] = 1
		}
		ws[r.Intn(n)] = r.Range(3, maxw+4)
	default:
		for i := range ws {
			ws[i] = r.Range(1, maxw)
		}
	}
	return ws
}

func sumPos(c []ent, down map[int]bool) int {
	s := 0
	for _, e := range c {
		if e.w > 0 && !down[e.id] {
			s += e.w
		}
	}
	return s
}

// split k picks into 1..3 pick ops, optionally separated by no-op operations
func addPicks(r *hv.Rng, ops hv.L, k int, cur []ent, noops bool) hv.L {
	for k > 0 {
		c := k
		if r.Chance(1, 2) {
			c = r.Range(1, k)
		}
		ops = append(ops, hv.L{hv.I(0), hv.I(c)})
		k -= c
		if noops && k > 0 {
			switch r.Intn(3) {
			case 0: // Update with the same conf (possibly listed in another order): must not disturb the sequence
				p := append([]ent(nil), cur...)
				if r.Bool() {
					for i := len(p) - 1; i > 0; i-- {
						j := r.Intn(i + 1)
						p[i], p[j] = p[j], p[i]
					}
				}
				ops = append(ops, hv.L{hv.I(1), confVal(p)})
			case 1:
				ops = append(ops, hv.L{hv.I(2), hv.I(999), hv.I(0)}) // unknown id: no backend touched
			}
		}
	}
	return ops
}

func gen(r *hv.Rng, i int, tier string) (string, hv.Val) {
	n := r.Range(1, 6)
	if r.Chance(1, 10) {
		n = r.Range(7, 12)
	}
	ws := genWeights(r, n, tier)
	cur := make([]ent, n)
	for j := range cur {
		cur[j] = ent{j, ws[j]}
	}
	class := "fresh"
	// ineligible weights in the initial conf
	if r.Chance(1, 5) {
		cur[r.Intn(n)].w = -r.Intn(2)
		class = "fresh-w0"
	}
	init := confVal(cur)
	down := map[int]bool{}
	ops := hv.L{}
	A := sumPos(cur, down)
	if A == 0 {
		ops = addPicks(r, ops, r.Range(1, 4), cur, false)
		return "triv-none-eligible", hv.L{init, ops}
	}
	budget := 320
	periods := 3
	if A*3 > budget {
		periods = 1
	}
	k := r.Intn(A+1) + periods*A
	if r.Chance(1, 12) {
		k = r.Intn(A + 1) // shorter than one period
		class = "short"
	}
	mode := r.Intn(10)
	if i < 400 {
		mode = 0
	}
	switch {
	case mode < 5: // one stable segment from the fresh state, with no-op operations interleaved
		ops = addPicks(r, ops, k, cur, true)
	case mode < 8: // weight-changing reload(s)
		class = "reload"
		k0 := r.Intn(2*A + 1)
		if r.Chance(1, 4) {
			k0 = A * r.Range(0, 2) // period aligned: state is fresh again
			class = "reload-aligned"
		}
		ops = addPicks(r, ops, k0, cur, false)
		next := append([]ent(nil), cur...)
		nextID := n
		switch r.Intn(5) {
		case 0: // change some weights
			for j := range next {
				if r.Bool() {
					next[j].w = r.Range(1, 8)
				}
			}
		case 1: // remove one
			if len(next) > 1 {
				d := r.Intn(len(next))
				next = append(next[:d], next[d+1:]...)
			}
		case 2: // add one new backend (only one: new ones are appended in map order)
			next = append(next, ent{nextID, r.Range(1, 6)})
		case 3: // weight to 0 (credit reset) and others changed
			next[r.Intn(len(next))].w = 0
		default: // permute weights
			for a := len(next) - 1; a > 0; a-- {
				b := r.Intn(a + 1)
				next[a].w, next[b].w = next[b].w, next[a].w
			}
		}
		ops = append(ops, hv.L{hv.I(1), confVal(next)})
		// the effective order keeps old backends in old order
		A2 := sumPos(next, down)
		if A2 > 0 {
			k2 := r.Intn(A2+1) + 2*A2
			if k2 > budget {
				k2 = A2 + r.Intn(A2+1)
			}
			ops = addPicks(r, ops, k2, next, false)
		} else {
			ops = addPicks(r, ops, 2, next, false)
		}
	default: // availability flips
		class = "avail"
		k0 := r.Intn(2*A + 1)
		if r.Chance(1, 4) {
			k0 = 0
			class = "avail-at-start"
		}
		ops = addPicks(r, ops, k0, cur, false)
		d := cur[r.Intn(n)].id
		ops = append(ops, hv.L{hv.I(2), hv.I(d), hv.I(0)})
		down[d] = true
		A2 := sumPos(cur, down)
		k2 := 2
		if A2 > 0 {
			k2 = r.Intn(A2+1) + 2*A2
		}
		ops = addPicks(r, ops, k2, cur, false)
		if r.Bool() {
			ops = append(ops, hv.L{hv.I(2), hv.I(d), hv.I(1)})
			delete(down, d)
			ops = addPicks(r, ops, r.Intn(A+1)+2*A, cur, false)
		}
	}
	return class, hv.L{init, ops}
}

func main() {
	hv.Main(&hv.Spec{Prop: "C01", Gen: gen, Impl: impl, NQuick: 2500, NThorough: 150000})
}
