// C38: HTTP/2 responses carry exactly the handler's response.
//
// A scripted handler runs behind the real bfe_http2 server (Server.ServeConn over net.Pipe); a scripted client sends
// one request (GET or HEAD, END_STREAM set), reads every frame, decodes header blocks with the in-tree hpack decoder
// and reports the abstract frame list of stream 1.
//
// input : [method bufsz hop script] or [method bufsz hop script [w g]]  (w g: the client's initial stream window and the grant
//
//	           it sends whenever its window reaches 0; every DATA write larger than the window is split by the scheduler)
//
//
//		method 0 = GET, 1 = HEAD ; bufsz = handlerChunkWriteSize (read from the implementation through the hook)
//		hop    = sorted keys of the HopHeaders map (read from the implementation through the hook)
//		script = list of ops  [1 k v] Header().Set(k,v)   [2 k v] Header().Add(k,v)   [3 code] WriteHeader(code)
//		                      [4 bytes rep] Write(bytes repeated rep times)            [5] Flush()
//
// output: [frames results blocks]   blocks = for every header block its HEADERS/CONTINUATION fragments [[length END_HEADERS] ...]
//
//	  frames  = list of  [1 end [[name value] ...]] (HEADERS, CONTINUATION merged)  |  [2 end bytes] (DATA)
//	                     |  [3 code] (RST_STREAM)
//	  results = one 0/1 per Write op (1 = Write returned an error)
//	the values of `date` and `content-type` fields are projected to the empty string on both sides
//	(clock and content sniffing are outside the model).
package main

import (
	"bytes"
	"io"
	"log"
	"net"
	"os"
	"runtime"
	"sort"
	"strconv"
	"sync"
	"time"

	"verif/harness/hv"

	"github.com/baidu/go-lib/web-monitor/metrics"
	bfe_http "github.com/bfenetworks/bfe/bfe_http"
	"github.com/bfenetworks/bfe/bfe_http2"
	"github.com/bfenetworks/bfe/bfe_http2/hpack"
)

type op struct {
	tag  int
	k, v string
	code int
	data []byte
}

func decodeScript(v hv.Val) []op {
	var out []op
	for _, e := range hv.AsList(v) {
		l := hv.AsList(e)
		o := op{tag: int(hv.AsInt(l[0]))}
		switch o.tag {
		case 1, 2, 6:
			o.k, o.v = hv.AsStr(l[1]), hv.AsStr(l[2])
		case 3:
			o.code = int(hv.AsInt(l[1]))
		case 4:
			o.data = bytes.Repeat(hv.AsBytes(l[1]), int(hv.AsInt(l[2])))
			if o.data == nil {
				o.data = []byte{}
			}
		}
		out = append(out, o)
	}
	return out
}

var initOnce sync.Once

// yieldWriter is the log sink during a concurrent burst: with bfe_http2.VerboseLogs the server logs every header field
// it encodes (encKV); yielding the processor there interleaves the frame-writing goroutines of different connections
// inside their header encoding loops, so that state shared between connections (pools) is really shared.
type yieldWriter struct{}

func (yieldWriter) Write(p []byte) (int, error) { runtime.Gosched(); return len(p), nil }

// noiseCase is the header-rich response the other connections of a burst produce.
func noiseCase(j int) hv.Val {
	var sc hv.L
	for k := 0; k < 24; k++ {
		sc = append(sc, hv.L{hv.I(1), hv.S("N" + strconv.Itoa(j) + "-" + strconv.Itoa(k)), hv.S("noise-value-" + strconv.Itoa(k))})
	}
	sc = append(sc, hv.L{hv.I(1), hv.S("Date"), hv.S(calibDate)}, hv.L{hv.I(4), hv.S("noise"), hv.I(1)})
	return hv.L{hv.I(0), hv.I(bufsz), hv.L{}, sc}
}

// impl: one exchange; for method + 10 additionally a concurrent burst: 8 more copies of the same exchange and 8
// connections with other header-rich responses run concurrently (3 rounds).  Every copy must produce the observation of
// the sequential exchange and every noise connection its own sequential observation (deterministic on correct code);
// the first deviating observation is returned instead.
func impl(in hv.Val) hv.Val {
	args := hv.AsList(in)
	if hv.AsInt(args[0]) < 10 {
		return exchange(in)
	}
	single := append(hv.L{hv.I(int(hv.AsInt(args[0])) - 10)}, args[1:]...)
	want := hv.String(exchange(single))
	noiseWant := make([]string, 8)
	for j := range noiseWant {
		noiseWant[j] = hv.String(exchange(noiseCase(j)))
	}
	bfe_http2.VerboseLogs = true
	log.SetOutput(yieldWriter{})
	defer func() { bfe_http2.VerboseLogs = false; log.SetOutput(os.Stderr) }()
	bad := make(chan hv.Val, 64)
	var wg sync.WaitGroup
	for j := 0; j < 16; j++ {
		wg.Add(1)
		go func(j int) {
			defer wg.Done()
			for round := 0; round < 3; round++ {
				if j < 8 {
					if o := exchange(single); hv.String(o) != want {
						bad <- o
					}
				} else if o := exchange(noiseCase(j - 8)); hv.String(o) != noiseWant[j-8] {
					bad <- hv.L{hv.I(-4), o} // a noise connection deviated
				}
			}
		}(j)
	}
	wg.Wait()
	select {
	case o := <-bad:
		return o
	default:
	}
	v, _ := hv.Parse(want)
	return v
}

func exchange(in hv.Val) hv.Val {
	initOnce.Do(func() {
		var m metrics.Metrics
		m.Init(bfe_http2.GetHttp2State(), "h2", 0)
	})
	args := hv.AsList(in)
	method := "GET"
	if m := hv.AsInt(args[0]); m == 1 || m == 3 {
		method = "HEAD"
	}
	open := hv.AsInt(args[0]) >= 2 // the request leaves its side of the stream open (no END_STREAM, no body sent)
	script := decodeScript(args[3])
	flowW, flowG := 0, 0 // flow-control script: initial stream window, grant when the window reaches 0 (0 = windows never bind)
	if len(args) > 4 {
		fl := hv.AsList(args[4])
		flowW, flowG = int(hv.AsInt(fl[0])), int(hv.AsInt(fl[1]))
	}

	var results hv.L
	closed := make(chan bool, 1)   // server-side stream closure (CloseNotify)
	returned := make(chan bool, 1) // handler function returned
	h := bfe_http.HandlerFunc(func(w bfe_http.ResponseWriter, r *bfe_http.Request) {
		cn := w.(bfe_http.CloseNotifier).CloseNotify()
		go func() { closed <- <-cn }()
		defer func() { returned <- true }()
		for _, o := range script {
			switch o.tag {
			case 1:
				w.Header().Set(o.k, o.v)
			case 2:
				w.Header().Add(o.k, o.v)
			case 3:
				w.WriteHeader(o.code)
			case 4:
				_, err := w.Write(o.data)
				results = append(results, hv.Bool(err != nil))
			case 5:
				w.(bfe_http.Flusher).Flush()
			case 6: // direct map access: the key is stored as given
				h := w.Header()
				h[o.k] = append(h[o.k], o.v)
			}
		}
	})

	cli, srv := net.Pipe()
	defer cli.Close()
	go (&bfe_http2.Server{}).ServeConn(srv, &bfe_http2.ServeConnOpts{
		BaseConfig: &bfe_http.Server{ReadTimeout: 120 * time.Second, WriteTimeout: 120 * time.Second},
		Handler:    h,
	})

	// reader: collects the frames of stream 1, signals PING acks
	var frames hv.L
	blocks := hv.L{} // per header block: its HEADERS/CONTINUATION fragments
	pong := make(chan bool, 4)
	rdone := make(chan bool, 1)
	go func() {
		defer func() { rdone <- true }()
		fr := bfe_http2.NewFramer(io.Discard, cli)
		var fields hv.L
		dec := hpack.NewDecoder(4096, func(f hpack.HeaderField) error {
			v := f.Value
			if f.Name == "date" || f.Name == "content-type" {
				v = ""
			}
			fields = append(fields, hv.L{hv.S(f.Name), hv.S(v)})
			return nil
		})
		var hdrEnd bool
		var curFrags hv.L // fragments [length END_HEADERS] of the header block being received
		win := flowW
		for {
			f, err := fr.ReadFrame()
			if err != nil {
				if len(curFrags) > 0 { // a header block that was never terminated: report what arrived
					frames = append(frames, hv.L{hv.I(1), hv.Bool(hdrEnd), fields})
					blocks = append(blocks, curFrags)
				}
				return
			}
			switch f := f.(type) {
			case *bfe_http2.PingFrame:
				if f.IsAck() {
					pong <- true
				}
			case *bfe_http2.HeadersFrame:
				fields = hv.L{}
				hdrEnd = f.StreamEnded()
				dec.Write(f.HeaderBlockFragment())
				curFrags = hv.L{hv.L{hv.I(len(f.HeaderBlockFragment())), hv.Bool(f.HeadersEnded())}}
				if f.HeadersEnded() {
					frames = append(frames, hv.L{hv.I(1), hv.Bool(hdrEnd), fields})
					blocks = append(blocks, curFrags)
					curFrags = nil
				}
			case *bfe_http2.ContinuationFrame:
				dec.Write(f.HeaderBlockFragment())
				curFrags = append(curFrags, hv.L{hv.I(len(f.HeaderBlockFragment())), hv.Bool(f.HeadersEnded())})
				if f.HeadersEnded() {
					frames = append(frames, hv.L{hv.I(1), hv.Bool(hdrEnd), fields})
					blocks = append(blocks, curFrags)
					curFrags = nil
				}
			case *bfe_http2.DataFrame:
				frames = append(frames, hv.L{hv.I(2), hv.Bool(f.StreamEnded()), hv.B(append([]byte{}, f.Data()...))})
				if flowW > 0 {
					// the client's flow-control script: grant only when the window is exhausted (the server is blocked then)
					win -= len(f.Data())
					if win == 0 && !f.StreamEnded() {
						var wb bytes.Buffer
						bfe_http2.NewFramer(&wb, nil).WriteWindowUpdate(1, uint32(flowG))
						cli.Write(wb.Bytes())
						win = flowG
					}
				}
			case *bfe_http2.RSTStreamFrame:
				frames = append(frames, hv.L{hv.I(3), hv.I(int(f.ErrCode))})
			}
		}
	}()

	var wbuf bytes.Buffer
	wbuf.WriteString(bfe_http2.ClientPreface)
	cfr := bfe_http2.NewFramer(&wbuf, nil)
	// flow-control windows that never bind (1 MiB per stream and for the connection): DATA is then split only at the
	// maximum frame size, which stays at its default 16384
	if flowW > 0 {
		cfr.WriteSettings(bfe_http2.Setting{ID: bfe_http2.SettingInitialWindowSize, Val: uint32(flowW)})
	} else {
		cfr.WriteSettings(bfe_http2.Setting{ID: bfe_http2.SettingInitialWindowSize, Val: 1 << 20})
	}
	cfr.WriteWindowUpdate(0, 1<<20) // the connection window never binds
	var hb bytes.Buffer
	enc := hpack.NewEncoder(&hb)
	enc.WriteField(hpack.HeaderField{Name: ":method", Value: method})
	enc.WriteField(hpack.HeaderField{Name: ":scheme", Value: "https"})
	enc.WriteField(hpack.HeaderField{Name: ":authority", Value: "verif.test"})
	enc.WriteField(hpack.HeaderField{Name: ":path", Value: "/"})
	cfr.WriteHeaders(bfe_http2.HeadersFrameParam{StreamID: 1, BlockFragment: hb.Bytes(), EndStream: !open, EndHeaders: true})
	cli.SetWriteDeadline(time.Now().Add(30 * time.Second))
	if _, err := cli.Write(wbuf.Bytes()); err != nil {
		return hv.Err(1)
	}

	select {
	case <-returned:
	case <-time.After(30 * time.Second):
		return hv.Timeout()
	}
	streamClosed := true
	select {
	case <-closed:
	case <-time.After(10 * time.Second):
		streamClosed = false
	}
	// barrier: everything the server wrote before the PING ack has been read
	wbuf.Reset()
	cfr.WritePing(false, [8]byte{1, 2, 3, 4, 5, 6, 7, 8})
	cli.Write(wbuf.Bytes())
	readerDone := false
	select {
	case <-pong:
	case <-rdone: // the reader gave up (protocol error, e.g. a header block without END_HEADERS): report what it has
		readerDone = true
	case <-time.After(30 * time.Second):
		return hv.Err(2)
	}
	cli.Close()
	if !readerDone {
		<-rdone
	}
	if !streamClosed {
		return hv.L{frames, results, hv.I(0)}
	}
	return hv.L{frames, results, blocks}
}

// ---- generator

var bufsz = bfe_http2.VerifC38ChunkSize()

func hopList() hv.Val {
	ks := bfe_http2.VerifC38HopHeaders()
	sort.Strings(ks)
	return hv.LS(ks)
}

var hop = hopList()

var plainKeys = []string{"X-A", "x-b", "Server", "cache-control", "X-UPPER-Case", "Set-Cookie", "Etag", "Vary", "Foo", "bar", "Grpc-Status", "grpc-message", "X-Md5", "Zz"}
var hopKeys = []string{"Connection", "connection", "Keep-Alive", "Proxy-Connection", "Upgrade", "Transfer-Encoding", "transfer-encoding", "Proxy-Authenticate", "Proxy-Authorization", "Te"}
var specialKeys = []string{"Content-Length", "content-length", "Content-Type", "Date", "Trailer"}
var badKeys = []string{"bad key", "", "a:b", "X(1)", "caf\x7f", "x\ty", "\u212aeep-Alive", "\u212aeep-alive", "caf\u00c9", "X-\xff", "\u212a"}
var trailerNames = []string{"Foo", "bar", "Grpc-Status", "grpc-message", "X-Md5", "Zz", "X-T1", "x-t2"}
var statuses = []int{200, 200, 200, 201, 203, 204, 205, 303, 304, 305, 404, 500, 301, 206, 100, 101, 199, 299, 999}
var clens = []string{"0", "1", "5", "10", "100", "4096", "-1", "-0", "+7", "abc", "", "12x", " 3", "9223372036854775807", "9223372036854775808", "007"}

func genValue(r *hv.Rng) string {
	switch r.Intn(10) {
	case 0:
		return ""
	case 1:
		return "bad\nvalue"
	case 2:
		return "nul\x00"
	case 3:
		return "tab\tok \x80\xff"
	case 4:
		return "trailers"
	case 5:
		return "close"
	case 6:
		return "del\x7f"
	}
	n := r.Range(1, 12)
	b := make([]byte, n)
	for i := range b {
		b[i] = byte(r.Range(0x20, 0x7e))
	}
	return string(b)
}

var rawKeys = []string{"connection", "keep-alive", "transfer-encoding", "upgrade", "proxy-connection", "CONNECTION", "Transfer-encoding",
	"content-length", "content-type", "date", "trailer", "x-raw", "X-Raw", "X-A", "foo", "Foo", "te"}

func genHeaderOp(r *hv.Rng, afterCommit bool) hv.Val {
	if r.Chance(1, 8) { // direct map access with a non-canonical (or canonical) key
		k := r.Pick(rawKeys)
		v := genValue(r)
		if r.Chance(1, 3) {
			v = r.Pick([]string{"trailers", "chunked", "close", "5", "Foo"})
		}
		return hv.L{hv.I(6), hv.S(k), hv.S(v)}
	}
	tag := 1 + r.Intn(2)
	var k, v string
	switch c := r.Intn(20); {
	case c < 8:
		k, v = r.Pick(plainKeys), genValue(r)
	case c < 11:
		k, v = r.Pick(hopKeys), genValue(r)
	case c < 12:
		k, v = r.Pick(badKeys), genValue(r)
	case c < 14:
		k = r.Pick(specialKeys[:2])
		v = r.Pick(clens)
	case c < 15:
		k, v = r.Pick(specialKeys[2:4]), genValue(r)
	case c < 17: // declare trailers
		k = "Trailer"
		n := r.Range(1, 3)
		for i := 0; i < n; i++ {
			if i > 0 {
				v += r.Pick([]string{",", ", ", " ,\t", ",,"})
			}
			switch r.Intn(8) {
			case 0:
				v += r.Pick([]string{"Content-Length", "Transfer-Encoding", "trailer", "Connection", "Upgrade", "keep-alive"})
			default:
				v += r.Pick(trailerNames)
			}
		}
	case c < 19: // set a (possibly declared) trailer value
		k, v = r.Pick(trailerNames), genValue(r)
	default: // undeclared trailer through the magic prefix
		k, v = "Trailer:"+r.Pick(trailerNames[:6]), genValue(r)
	}
	return hv.L{hv.I(tag), hv.S(k), hv.S(v)}
}

func genWrite(r *hv.Rng) hv.Val {
	switch r.Intn(12) {
	case 0:
		return hv.L{hv.I(4), hv.B{}, hv.I(0)}
	case 1: // around the bufio size
		pat := r.Bytes(r.Range(1, 3))
		n := (bufsz + r.Range(-3, 3)) / len(pat)
		return hv.L{hv.I(4), hv.B(pat), hv.I(n)}
	case 2:
		pat := r.Bytes(r.Range(1, 4))
		return hv.L{hv.I(4), hv.B(pat), hv.I(r.Range(1, 2*bufsz/len(pat)+5))}
	case 3:
		return hv.L{hv.I(4), hv.B(r.Bytes(r.Range(1, 8))), hv.I(r.Range(1, 700))}
	}
	return hv.L{hv.I(4), hv.B(r.Bytes(r.Range(1, 40))), hv.I(1)}
}

// ---- header blocks of an exact encoded size (HEADERS/CONTINUATION boundaries)
//
// The response of these scripts has handler-set Date and Content-Type, so every field of the header block is known
// here; the block is encoded with the same hpack encoder the server uses (fresh dynamic table: one connection per case)
// and the length of one raw value (bytes whose Huffman code is longer than 8 bits, so the literal is never Huffman
// coded) is tuned until the block has exactly the wanted size.
var calibTargets = []int{16383, 16384, 16385, 32767, 32768, 32769}

const calibDate = "Tue, 22 Sep 2026 00:00:00 GMT"

func rawValue(r *hv.Rng, n int) string {
	const alphabet = "~^`<{}|#$>"
	b := make([]byte, n)
	for i := range b {
		b[i] = alphabet[r.Intn(len(alphabet))]
	}
	return string(b)
}

// calibrated returns the script whose response-header block (trailers = false) or trailer block (trailers = true) is
// exactly target bytes long, or nil if the size cannot be reached (a length-prefix boundary).
func calibrated(r *hv.Rng, target int, trailers bool) hv.L {
	size := func(n int) int {
		var buf bytes.Buffer
		enc := hpack.NewEncoder(&buf)
		w := func(k, v string) { enc.WriteField(hpack.HeaderField{Name: k, Value: v}) }
		w(":status", "200")
		w("content-type", "text/plain")
		w("date", calibDate)
		if trailers {
			w("trailer", "X-T")
		} else {
			w("x-big", rawValue(hv.NewRng(1), n))
		}
		w("content-length", "2")
		if !trailers {
			return buf.Len()
		}
		first := buf.Len()
		w("x-t", rawValue(hv.NewRng(1), n))
		return buf.Len() - first
	}
	n := target - 64
	for it := 0; it < 6 && size(n) != target; it++ {
		n += target - size(n)
		if n < 1 {
			return nil
		}
	}
	if size(n) != target {
		return nil
	}
	sc := hv.L{
		hv.L{hv.I(1), hv.S("Date"), hv.S(calibDate)},
		hv.L{hv.I(1), hv.S("Content-Type"), hv.S("text/plain")},
	}
	if trailers {
		sc = append(sc, hv.L{hv.I(1), hv.S("Trailer"), hv.S("X-T")}, hv.L{hv.I(4), hv.S("hi"), hv.I(1)},
			hv.L{hv.I(1), hv.S("X-T"), hv.S(rawValue(r, n))})
	} else {
		sc = append(sc, hv.L{hv.I(1), hv.S("X-Big"), hv.S(rawValue(r, n))}, hv.L{hv.I(4), hv.S("hi"), hv.I(1)})
	}
	return sc
}

func gen(r *hv.Rng, i int, tier string) (string, hv.Val) {
	if i < 2*len(calibTargets) { // every run: each boundary size once for the response headers and once for the trailers
		target, trailers := calibTargets[i%len(calibTargets)], i >= len(calibTargets)
		if sc := calibrated(r, target, trailers); sc != nil {
			class := "hdr-block-"
			if trailers {
				class = "trailer-block-"
			}
			m := 0
			if i%2 == 1 && !trailers {
				m = 1 // HEAD answers carry the same header block
			}
			return class + strconv.Itoa(target), hv.L{hv.I(m), hv.I(bufsz), hop, sc}
		}
	}
	method := 0
	switch r.Intn(12) {
	case 0, 1:
		method = 1
	case 2, 3:
		method = 2 // request side left open: RST_STREAM NO_ERROR after the response
	}
	var script hv.L
	class := "get"
	if method == 1 {
		class = "head"
	}
	if method == 2 {
		class = "open"
	}
	wr := func(n int) hv.Val { // a Write of n bytes
		if n < 0 {
			n = 0
		}
		if n <= 40 {
			return hv.L{hv.I(4), hv.B(r.Bytes(n)), hv.I(1)}
		}
		return hv.L{hv.I(4), hv.B(r.Bytes(1)), hv.I(n)}
	}
	maybeFlush := func() {
		if r.Chance(1, 3) {
			script = append(script, hv.L{hv.I(5)})
		}
	}
	switch r.Intn(16) {
	case 0: // declared Content-Length against the bytes written: exactly, one less, one more
		n := r.Range(1, 12)
		script = append(script, hv.L{hv.I(1), hv.S("Content-Length"), hv.S(strconv.Itoa(n))})
		if r.Chance(1, 3) {
			script = append(script, hv.L{hv.I(3), hv.I(200)})
		}
		maybeFlush()
		left := n + r.Range(-1, 1)
		for left > 0 {
			k := r.Range(1, left)
			script = append(script, wr(k))
			left -= k
			maybeFlush()
		}
		if r.Chance(1, 2) {
			script = append(script, wr(r.Range(0, 2)))
		}
		return class + "-clen-boundary", hv.L{hv.I(method), hv.I(bufsz), hop, script}
	case 1: // the bufio.Writer boundary reached by two or three writes
		a := []int{1, 100, bufsz - 1, bufsz, bufsz / 2}[r.Intn(5)]
		script = append(script, wr(a))
		maybeFlush()
		script = append(script, wr(bufsz-a+r.Range(-1, 1)))
		maybeFlush()
		if r.Chance(1, 2) {
			script = append(script, wr([]int{0, 1, bufsz, bufsz + 1}[r.Intn(4)]))
		}
		return class + "-bufio-boundary", hv.L{hv.I(method), hv.I(bufsz), hop, script}
	case 3: // header blocks above 16384 bytes: HEADERS + CONTINUATION (response headers and/or trailers)
		if !r.Chance(1, 6) { // keep these expensive cases rare (about 1% of the run)
			return "triv-" + class, hv.L{hv.I(method), hv.I(bufsz), hop, hv.L{}}
		}
		bigv := func(n int) hv.Val {
			b := make([]byte, n)
			for i := range b {
				b[i] = byte(r.Range(0x21, 0x7e))
			}
			return hv.B(b)
		}
		n1 := []int{16300, 16384, 17000, 9000}[r.Intn(4)]
		script = append(script, hv.L{hv.I(1), hv.S("X-Big"), bigv(n1)})
		if r.Chance(1, 2) {
			script = append(script, hv.L{hv.I(2), hv.S("X-Big"), bigv(r.Range(7000, 17000))})
		}
		if r.Chance(1, 2) {
			script = append(script, hv.L{hv.I(1), hv.S("Trailer"), hv.S("X-T")}, wr(r.Range(0, 3)), hv.L{hv.I(1), hv.S("X-T"), bigv(r.Range(16000, 17000))})
		} else {
			script = append(script, wr(r.Range(0, 3)))
		}
		return class + "-continuation", hv.L{hv.I(method), hv.I(bufsz), hop, script}
	case 4: // bodies above the maximum frame size: the scheduler splits the DATA write (END_STREAM only on the last chunk)
		if !r.Chance(1, 6) {
			return "triv-" + class, hv.L{hv.I(method), hv.I(bufsz), hop, hv.L{}}
		}
		if r.Chance(1, 2) {
			script = append(script, hv.L{hv.I(1), hv.S("Trailer"), hv.S("Foo")}, hv.L{hv.I(1), hv.S("Foo"), hv.S(genValue(r))})
		}
		n := []int{16383, 16384, 16385, 32768, 32769, 40000}[r.Intn(6)]
		script = append(script, wr(r.Range(0, 10)), wr(n))
		maybeFlush()
		if r.Chance(1, 3) {
			script = append(script, wr(16385))
		}
		return class + "-maxframe", hv.L{hv.I(method), hv.I(bufsz), hop, script}
	case 5, 6: // small flow-control windows: the scheduler splits every DATA write; END_STREAM must stay on the last piece
		w := r.Range(1, 64)
		g := []int{1, 2, 7, 64, 1000, w}[r.Intn(6)]
		if r.Chance(1, 3) {
			script = append(script, hv.L{hv.I(1), hv.S("Trailer"), hv.S("Foo")}, hv.L{hv.I(1), hv.S("Foo"), hv.S(genValue(r))})
		}
		for j := r.Range(1, 4); j > 0; j-- {
			script = append(script, wr([]int{0, 1, w - 1, w, w + 1, 2 * w, r.Range(1, 200)}[r.Intn(7)]))
			maybeFlush()
		}
		return class + "-flow", hv.L{hv.I(method), hv.I(bufsz), hop, script, hv.L{hv.I(w), hv.I(g)}}
	case 7: // concurrent burst: a header-rich response repeated on 8 connections while 8 others send different headers
		if !r.Chance(1, 16) {
			return "triv-" + class, hv.L{hv.I(method), hv.I(bufsz), hop, hv.L{}}
		}
		for j := r.Range(10, 24); j > 0; j-- {
			script = append(script, hv.L{hv.I(1 + r.Intn(2)), hv.S("X-B" + strconv.Itoa(r.Intn(40))), hv.S(genValue(r))})
		}
		script = append(script, hv.L{hv.I(1), hv.S("Date"), hv.S(calibDate)}, wr(r.Range(0, 20)))
		return class + "-burst", hv.L{hv.I(method + 10), hv.I(bufsz), hop, script}
	case 2: // trailers: duplicates, forbidden names, some set, some only promoted, late declarations
		names := []string{"Foo", "bar", "Zz", "X-Md5", "Content-Length", "trailer", "Foo"}
		decl := ""
		nd := r.Range(1, 4)
		for j := 0; j < nd; j++ {
			if j > 0 {
				decl += ","
			}
			decl += r.Pick(names)
		}
		script = append(script, hv.L{hv.I(1 + r.Intn(2)), hv.S("Trailer"), hv.S(decl)})
		if r.Chance(1, 2) {
			script = append(script, hv.L{hv.I(2), hv.S("trailer"), hv.S(r.Pick(names))})
		}
		script = append(script, wr(r.Range(0, 3)))
		maybeFlush()
		for j := r.Intn(4); j > 0; j-- {
			script = append(script, hv.L{hv.I(1 + r.Intn(2)), hv.S(r.Pick(names[:4])), hv.S(genValue(r))})
		}
		nPrefix := 0
		if r.Chance(1, 2) {
			script = append(script, hv.L{hv.I(1), hv.S("Trailer:" + r.Pick([]string{"aa", "late"})), hv.S(genValue(r))})
			nPrefix = 1
		}
		if r.Chance(1, 2) { // two or three prefix keys naming the same trailer: the last one visited by Go's map range wins
			sp := []string{"Trailer:zz", "Trailer:Zz", "Trailer:ZZ"}
			for j := r.Range(2, 3-nPrefix); j > 0; j-- { // at most three prefix keys in total (the model enumerates 3! orders)
				script = append(script, hv.L{hv.I(1), hv.S(sp[j-1]), hv.S(genValue(r))})
			}
		}
		if r.Chance(1, 3) { // declared after the header was sent: ignored
			script = append(script, hv.L{hv.I(2), hv.S("Trailer"), hv.S("Late")}, hv.L{hv.I(1), hv.S("Late"), hv.S("x")})
		}
		return class + "-trailers", hv.L{hv.I(method), hv.I(bufsz), hop, script}
	}
	usedPrefix := map[string]bool{}
	addHdr := func(after bool) {
		o := genHeaderOp(r, after)
		k := hv.AsStr(o.(hv.L)[1])
		if len(k) > 8 && k[:8] == "Trailer:" {
			// the model enumerates the iteration orders of at most three magic-prefix keys
			if !usedPrefix[k] && len(usedPrefix) >= 3 {
				return
			}
			usedPrefix[k] = true
		}
		script = append(script, o)
	}
	nh := r.Intn(6)
	for j := 0; j < nh; j++ {
		addHdr(false)
	}
	if r.Chance(1, 2) {
		script = append(script, hv.L{hv.I(3), hv.I(statuses[r.Intn(len(statuses))])})
		class += "-wh"
	}
	nb := r.Intn(6)
	big := 0
	for j := 0; j < nb; j++ {
		switch c := r.Intn(10); {
		case c < 5:
			w := genWrite(r)
			if hv.AsInt(w.(hv.L)[2]) > 1 {
				big++
				if big > 2 {
					continue
				}
			}
			script = append(script, w)
		case c < 7:
			script = append(script, hv.L{hv.I(5)})
		case c < 9:
			addHdr(true)
		default:
			script = append(script, hv.L{hv.I(3), hv.I(statuses[r.Intn(len(statuses))])})
		}
	}
	if nb == 0 && nh == 0 {
		class = "triv-" + class
	}
	if big > 0 {
		class += "-big"
	}
	return class, hv.L{hv.I(method), hv.I(bufsz), hop, script}
}

func main() {
	hv.Main(&hv.Spec{Prop: "C38", Gen: gen, Impl: impl, NQuick: 2500, NThorough: 120000, Deadline: 120 * time.Second})
}
