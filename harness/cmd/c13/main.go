// C13: the configuration loaders vs model ConfLoad.v.
//   [1 style host vip route cluster] -> [h v r c all]   (HostRuleConfLoad, VipRuleConfLoad, RouteConfLoad, ClusterConfLoad,
//                                                         LoadServerDataConf: 1 accepted, 0 error, -2 panic)
//   [2 style gslb]                   -> [x]               GslbConfLoad
//   [3 style ctable]                 -> [x]               ClusterTableLoad
//   [9 loader rawbytes]              -> [x]               loader 1..7 on an arbitrary (mutated JSON) file, 6 loads (-2 if any load panics)
// Record shapes: harness/confload/confload.go.
package main

import (
	"strings"

	"verif/harness/confload"
	"verif/harness/hv"

	"github.com/bfenetworks/bfe/bfe_config/bfe_cluster_conf/cluster_conf"
	"github.com/bfenetworks/bfe/bfe_config/bfe_cluster_conf/cluster_table_conf"
	"github.com/bfenetworks/bfe/bfe_config/bfe_cluster_conf/gslb_conf"
	"github.com/bfenetworks/bfe/bfe_config/bfe_route_conf/host_rule_conf"
	"github.com/bfenetworks/bfe/bfe_config/bfe_route_conf/route_rule_conf"
	"github.com/bfenetworks/bfe/bfe_config/bfe_route_conf/vip_rule_conf"
	"github.com/bfenetworks/bfe/bfe_route"
)

func guard(f func() error) (out hv.Val) {
	defer func() {
		if e := recover(); e != nil {
			out = hv.I(-2)
		}
	}()
	if err := f(); err != nil {
		return hv.I(0)
	}
	return hv.I(1)
}

func loader(k int64, path string) hv.Val {
	switch k {
	case 1:
		return guard(func() error { _, e := host_rule_conf.HostRuleConfLoad(path); return e })
	case 2:
		return guard(func() error { _, e := vip_rule_conf.VipRuleConfLoad(path); return e })
	case 3:
		return guard(func() error { _, e := route_rule_conf.RouteConfLoad(path); return e })
	case 4:
		return guard(func() error { _, e := cluster_conf.ClusterConfLoad(path); return e })
	case 5:
		return guard(func() error { _, e := gslb_conf.GslbConfLoad(path); return e })
	case 6:
		return guard(func() error { _, e := cluster_table_conf.ClusterTableLoad(path); return e })
	default: // every file of LoadServerDataConf is the same raw file
		return guard(func() error { _, e := bfe_route.LoadServerDataConf(path, path, path, path); return e })
	}
}

func impl(in hv.Val) hv.Val {
	l := hv.AsList(in)
	switch hv.AsInt(l[0]) {
	case 1:
		st := confload.NewStyle(hv.AsInt(l[1]))
		hf := confload.WriteFile("host_rule.data", confload.HostJSON(l[2], st))
		vf := confload.WriteFile("vip_rule.data", confload.VipJSON(l[3], st))
		rf := confload.WriteFile("route_rule.data", confload.RouteJSON(l[4], st))
		cf := confload.WriteFile("cluster_conf.data", confload.ClusterJSON(l[5], st))
		out := hv.L{loader(1, hf), loader(2, vf), loader(3, rf), loader(4, cf),
			guard(func() error { _, e := bfe_route.LoadServerDataConf(hf, vf, rf, cf); return e })}
		for n := 0; n < 3; n++ { // more map iteration orders: a panic in any of them is reported
			for k, f := range []string{hf, vf, rf, cf} {
				if again := loader(int64(k+1), f); hv.String(again) == "-2" {
					out[k] = again
				}
			}
		}
		return out
	case 2:
		st := confload.NewStyle(hv.AsInt(l[1]))
		return hv.L{loader(5, confload.WriteFile("gslb.data", confload.GslbJSON(l[2], st)))}
	case 3:
		st := confload.NewStyle(hv.AsInt(l[1]))
		return hv.L{loader(6, confload.WriteFile("cluster_table.data", confload.CtableJSON(l[2], st)))}
	case 9: // loaded several times: a crash that depends on map iteration order must not slip through
		path := confload.WriteFile("raw.data", string(hv.AsBytes(l[2])))
		first := loader(hv.AsInt(l[1]), path)
		for n := 0; n < 5; n++ {
			if again := loader(hv.AsInt(l[1]), path); hv.String(again) == "-2" {
				return hv.L{again}
			}
		}
		return hv.L{first}
	}
	return hv.Err(0)
}

// ---- generators
func mutate(r *hv.Rng, c *confload.SDC) string {
	S, I := confload.S, confload.I
	hosts, tags := *c.Host.Hosts, *c.Host.Tags
	cl := *c.Cluster.Cfg
	anyBasic := func() *confload.BRule {
		if c.Route.Basic == nil {
			return nil
		}
		for i := range *c.Route.Basic {
			if rs := (*c.Route.Basic)[i].R; len(rs) > 0 {
				return &rs[r.Intn(len(rs))]
			}
		}
		return nil
	}
	anyAdv := func() *confload.ARule {
		if c.Route.Adv == nil {
			return nil
		}
		for i := range *c.Route.Adv {
			if rs := (*c.Route.Adv)[i].R; len(rs) > 0 {
				return &rs[r.Intn(len(rs))]
			}
		}
		return nil
	}
	cc := &cl[r.Intn(len(cl))].C
	switch r.Intn(39) {
	case 0:
		c.Host.Ver = nil
		return "m-host-noversion"
	case 1:
		c.Route.Ver = nil
		return "m-route-noversion"
	case 2:
		c.Cluster.Ver = nil
		return "m-cluster-noversion"
	case 3:
		if r.Bool() {
			c.Host.Hosts = nil
		} else {
			c.Host.Tags = nil
		}
		return "m-host-nomap"
	case 4:
		if r.Bool() {
			hosts[r.Intn(len(hosts))].L = nil
		} else {
			tags[r.Intn(len(tags))].L = nil
		}
		return "m-host-nulllist"
	case 5:
		hosts[r.Intn(len(hosts))].K = "t_undefined"
		return "m-host-tag-undefined"
	case 6:
		c.Host.Def = S(r.Pick([]string{"p_undefined", "", "P1"}))
		return "m-host-default-undefined"
	case 7: // exact duplicate host name (both tags are non-empty strings: rejected whatever the map order)
		h := (*hosts[0].L)[0]
		k := r.Intn(len(hosts))
		l := append(append([]string(nil), *hosts[k].L...), h)
		hosts[k].L = &l
		return "m-host-dup"
	case 8:
		c.Vip.Vips = append(c.Vip.Vips, confload.VipP{P: tags[0].K + "x", L: []string{r.Pick([]string{"1.2.3", "300.1.1.1", "", "a.com", "1.2.3.4/8", ":::"})}})
		return "m-vip-bad"
	case 9:
		c.Vip.Ver = ""
		return "m-vip-noversion"
	case 10:
		c.Route.Basic, c.Route.Adv = nil, nil
		return "m-route-notables"
	case 11:
		if b := anyBasic(); b != nil {
			b.C = nil
			return "m-basic-nocluster"
		}
	case 12:
		if b := anyBasic(); b != nil {
			b.H, b.P = nil, nil
			return "m-basic-nohostpath"
		}
	case 13:
		if b := anyBasic(); b != nil {
			b.H = append(b.H, r.Pick([]string{"a*.com", "**", "", "*a.com", "www.*.com", "*.*.com"}))
			return "m-basic-badhost"
		}
	case 14:
		if b := anyBasic(); b != nil {
			b.P = append(b.P, r.Pick([]string{"/a*b", "", "*/a", "/a**", "*/"}))
			return "m-basic-badpath"
		}
	case 15:
		if b := anyBasic(); b != nil { // same (host,path) slot twice, written differently
			h, p := "WWW.Dup.com", "/dup*"
			b.H = append(b.H, h)
			b.P = append(b.P, p)
			if r.Bool() {
				b.H = append(b.H, "www.dup.COM.")
			} else {
				b.P = append(b.P, "/dup/*")
			}
			return "m-basic-dupslot"
		}
	case 16:
		if a := anyAdv(); a != nil {
			a.Cond = nil
			return "m-adv-nocond"
		}
	case 17:
		if a := anyAdv(); a != nil {
			a.Cond = I(r.Range(2, 4))
			return "m-adv-badcond"
		}
	case 18:
		if a := anyAdv(); a != nil {
			a.C = nil
			return "m-adv-nocluster"
		}
	case 19:
		if c.Route.Adv == nil {
			c.Route.Adv = &[]confload.AdvP{}
		}
		*c.Route.Adv = append(*c.Route.Adv, confload.AdvP{P: "p_undefined", R: nil})
		return "m-route-product-undefined"
	case 20: // a product that is defined in HostTags but owns no tag
		tags = append(tags, confload.KL{K: "p_notag", L: &[]string{}})
		c.Host.Tags = &tags
		if r.Bool() {
			c.Host.Def = S("p_notag")
		}
		if c.Route.Basic == nil {
			c.Route.Basic = &[]confload.BasicP{}
		}
		*c.Route.Basic = append(*c.Route.Basic, confload.BasicP{P: "p_notag", R: []confload.BRule{{P: []string{"/x"}, C: S(cl[0].N)}}})
		return "m-route-product-notag"
	case 21:
		if a := anyAdv(); a != nil {
			a.C = S(r.Pick([]string{"c_undefined", "", "C1", "ADVANCED_MODE"}))
			return "m-adv-cluster-undefined"
		}
	case 22:
		if b := anyBasic(); b != nil {
			b.C = S(r.Pick([]string{"c_undefined", "", "advanced_mode"}))
			return "m-basic-cluster-undefined"
		}
	case 23:
		cc.Proto = S(r.Pick([]string{"https", "", "h2", "http "}))
		return "m-cc-badproto"
	case 24:
		cc.Schem = S(r.Pick([]string{"HTTP", "https", "", "Tcp"}))
		return "m-cc-badschem"
	case 25:
		cc.Schem = S("http")
		cc.Uri = S(r.Pick([]string{"health", "", " /x"}))
		return "m-cc-baduri"
	case 26:
		if r.Bool() {
			cc.Schem = nil
		} else {
			cc.Schem = S("http")
		}
		cc.Status = I([]int{32, 99, 600, -1, 1000}[r.Intn(5)])
		return "m-cc-badstatus"
	case 27:
		cc.Schem = S("tcp") // uri and status code are not looked at for tcp checks
		cc.Uri = S("nouri")
		cc.Status = I(999)
		return "m-cc-tcp-ignores-http-fields"
	case 28:
		cc.Succ = I([]int{0, -1}[r.Intn(2)])
		return "m-cc-badsucc"
	case 29:
		cc.HStrat = I([]int{0, 2}[r.Intn(2)])
		switch r.Intn(4) {
		case 0:
			cc.HHeader = nil
		case 1:
			cc.HHeader = S("")
		case 2:
			cc.HHeader = S("Cookie:")
		default:
			cc.HHeader = S("Cookie: \t ")
		}
		return "m-cc-badhashheader"
	case 30:
		cc.HStrat = I([]int{4, -1, 100}[r.Intn(3)])
		return "m-cc-badhashstrategy"
	case 31:
		cc.Mode = S(r.Pick([]string{"RR", "", "WRR ", "wlcx"}))
		return "m-cc-badmode"
	case 32:
		c.Cluster.Cfg = nil
		return "m-cluster-noconfig"
	case 34: // an extra product whose tag list is JSON null, everything else well-formed
		tags = append(tags, confload.KL{K: "p_null", L: nil})
		c.Host.Tags = &tags
		return "m-host-extra-null-product"
	case 35: // ... and no host at all (the per-host loops of HostTableConfCheck do not run)
		tags = append(tags, confload.KL{K: "p_null", L: nil})
		c.Host.Tags = &tags
		c.Host.Hosts = &[]confload.KL{}
		return "m-host-empty-hosts-null-product"
	case 36: // an extra host-tag whose host list is JSON null although the tag is listed under a product
		hosts = append(hosts, confload.KL{K: "t_null", L: nil})
		c.Host.Hosts = &hosts
		l := append(append([]string(nil), *tags[0].L...), "t_null")
		tags[0].L = &l
		return "m-host-extra-null-hostlist"
	case 37: // no hosts at all: accepted when nothing else refers to them
		c.Host.Hosts = &[]confload.KL{}
		return "host-empty-hosts"
	case 38: // only the null product
		c.Host.Tags = &[]confload.KL{{K: "p_null", L: nil}}
		c.Host.Hosts = &[]confload.KL{}
		c.Host.Def = nil
		return "m-host-only-null-product"
	case 33: // a vip under a product that host_rule.data does not define: not cross-checked by BFE
		c.Vip.Vips = append(c.Vip.Vips, confload.VipP{P: "p_undefined", L: []string{"9.9.9.9"}})
		return "vip-product-undefined"
	}
	return "doc"
}

func genGslb(r *hv.Rng) (string, hv.Val) {
	class := "gslb-doc"
	cl := hv.L{}
	for n := r.Range(0, 3); n > 0; n-- {
		subs := hv.L{}
		for k := r.Range(1, 3); k > 0; k-- {
			subs = append(subs, hv.L{hv.S("sub" + string(rune('a'+k))), hv.I(r.Range(0, 100))})
		}
		subs[0] = hv.L{hv.S("sub_main"), hv.I(r.Range(1, 100))}
		cl = append(cl, hv.L{hv.S("cluster" + string(rune('0'+n))), subs})
	}
	var clusters, host, ts hv.Val = hv.L{cl}, hv.L{hv.S("gslb-sch.example.com")}, hv.L{hv.S("20190101000000")}
	switch r.Intn(9) {
	case 0:
		clusters, class = hv.L{}, "gslb-noclusters"
	case 1:
		host, class = hv.L{}, "gslb-nohostname"
	case 2:
		ts, class = hv.L{}, "gslb-nots"
	case 3: // a cluster whose weights are all <= 0 (or that has no sub-cluster at all)
		subs := hv.L{}
		for k := r.Range(0, 2); k > 0; k-- {
			subs = append(subs, hv.L{hv.S("s" + string(rune('a'+k))), hv.I(-r.Range(0, 5))})
		}
		cl = append(cl, hv.L{hv.S("cluster_dead"), subs})
		clusters, class = hv.L{cl}, "gslb-zeroweight"
	case 4: // negative weights next to a positive one are tolerated
		cl = append(cl, hv.L{hv.S("cluster_neg"), hv.L{hv.L{hv.S("a"), hv.I(-5)}, hv.L{hv.S("b"), hv.I(1)}}})
		clusters, class = hv.L{cl}, "gslb-negative-and-positive"
	}
	return class, hv.L{hv.I(2), hv.I(r.Intn(1 << 30)), hv.L{clusters, host, ts}}
}

func genCtable(r *hv.Rng) (string, hv.Val) {
	class := "ctable-doc"
	backend := func(w int) hv.Val {
		return hv.L{hv.L{hv.L{hv.S("b" + string(rune('a'+r.Intn(5))))}, hv.L{hv.S("10.0.0." + string(rune('1'+r.Intn(9))))},
			hv.L{hv.I(r.Range(1, 65535))}, hv.L{hv.I(w)}}}
	}
	mut := r.Intn(10)
	cfg := hv.L{}
	for n := r.Range(0, 3); n > 0; n-- {
		subs := hv.L{}
		for k := r.Range(0, 2); k > 0; k-- {
			bl := hv.L{backend(r.Range(1, 10))}
			for j := r.Range(0, 2); j > 0; j-- {
				bl = append(bl, backend(r.Range(0, 10)))
			}
			subs = append(subs, hv.L{hv.S("sub" + string(rune('a'+k))), bl})
		}
		cfg = append(cfg, hv.L{hv.S("cluster" + string(rune('0'+n))), subs})
	}
	add := func(bl hv.L) { cfg = append(cfg, hv.L{hv.S("cluster_x"), hv.L{hv.L{hv.S("sub_x"), bl}}}) }
	var ver, c hv.Val = hv.L{hv.S("v1")}, nil
	switch mut {
	case 0:
		ver, class = hv.L{}, "ctable-noversion"
	case 1:
		c, class = hv.L{}, "ctable-noconfig"
	case 2:
		add(hv.L{}) // sub-cluster without backends
		class = "ctable-nobackend"
	case 3:
		add(hv.L{backend(0), backend(-3)})
		class = "ctable-noavail"
	case 4: // a missing field in one backend
		b := hv.AsList(hv.AsList(backend(5))[0])
		b[r.Intn(4)] = hv.L{}
		add(hv.L{backend(3), hv.L{b}})
		class = "ctable-missing-field"
	case 5: // JSON null in the backend list = nil *BackendConf
		bl := hv.L{backend(3), hv.L{}}
		if r.Bool() {
			bl = hv.L{hv.L{}, backend(3)}
		}
		add(bl)
		class = "ctable-null-backend"
	}
	if c == nil {
		c = hv.L{cfg}
	}
	return class, hv.L{hv.I(3), hv.I(r.Intn(1 << 30)), hv.L{ver, c}}
}

// textual mutations of a well-formed file: type confusion, nulls, truncation, nesting
func genRaw(r *hv.Rng) (string, hv.Val) {
	c, _ := confload.GenSDC(r, true)
	st := confload.NewStyle(int64(r.Intn(1000)))
	k := r.Range(1, 7)
	var txt string
	switch k {
	case 1:
		txt = confload.HostJSON(c.Host.Val(), st)
	case 2:
		txt = confload.VipJSON(c.Vip.Val(), st)
	case 3:
		txt = confload.RouteJSON(c.Route.Val(), st)
	case 4:
		txt = confload.ClusterJSON(c.Cluster.Val(), st)
	case 5:
		_, g := genGslb(r)
		txt = confload.GslbJSON(hv.AsList(g)[2], st)
	case 6:
		_, t := genCtable(r)
		txt = confload.CtableJSON(hv.AsList(t)[2], st)
	default:
		txt = r.Pick([]string{confload.HostJSON(c.Host.Val(), st), confload.RouteJSON(c.Route.Val(), st), "{}", "null"})
	}
	repl := []string{"null", "0", "-1", "1e99", "\"\"", "\"x\"", "[]", "{}", "[null]", "{\"a\":null}", "true", "[[[[[[[[[[]]]]]]]]]]", "{\"Version\":{}}"}
	class := "raw-valid"
	for n := r.Range(0, 2); n > 0; n-- {
		switch r.Intn(5) {
		case 0: // replace one JSON value (string / array / object / number) by something of another type
			idx := []int{}
			for i := 0; i < len(txt); i++ {
				if txt[i] == ':' || (txt[i] == ',' && i+1 < len(txt) && txt[i+1] != '"') || txt[i] == '[' {
					idx = append(idx, i+1)
				}
			}
			if len(idx) > 0 {
				p := idx[r.Intn(len(idx))]
				q := skipValue(txt, p)
				txt = txt[:p] + repl[r.Intn(len(repl))] + txt[q:]
				class = "raw-typeconfusion"
			}
		case 1:
			if len(txt) > 0 {
				txt = txt[:r.Intn(len(txt))]
				class = "raw-truncated"
			}
		case 2:
			txt = strings.Replace(txt, "[", "{", 1)
			class = "raw-bracket"
		case 3:
			txt = strings.Repeat("[", r.Range(1, 200)) + txt
			class = "raw-nesting"
		case 4:
			txt = repl[r.Intn(len(repl))]
			class = "raw-toplevel"
		}
	}
	return class, hv.L{hv.I(9), hv.I(k), hv.S(txt)}
}

// end of the JSON value starting at p (best effort; only used to pick a span to replace)
func skipValue(s string, p int) int {
	depth := 0
	inStr := false
	for i := p; i < len(s); i++ {
		ch := s[i]
		if inStr {
			if ch == '\\' {
				i++
			} else if ch == '"' {
				inStr = false
				if depth == 0 {
					return i + 1
				}
			}
			continue
		}
		switch ch {
		case '"':
			inStr = true
		case '[', '{':
			depth++
		case ']', '}':
			if depth == 0 {
				return i
			}
			depth--
			if depth == 0 {
				return i + 1
			}
		case ',':
			if depth == 0 {
				return i
			}
		}
	}
	return len(s)
}

// systematic null / missing / empty enumeration over every field, map entry and slice element of the decoded types
// (harness/confload/nullenum.go); combination number = case index, so the quick tier walks through all of them
func genNull(r *hv.Rng, i int) (string, hv.Val) {
	c, _ := confload.GenSDC(r, true)
	st := confload.NewStyle(int64(r.Intn(1000)))
	k := 1 + i%6
	var txt string
	switch k {
	case 1:
		txt = confload.HostJSON(c.Host.Val(), st)
	case 2:
		txt = confload.VipJSON(c.Vip.Val(), st)
	case 3:
		txt = confload.RouteJSON(c.Route.Val(), st)
	case 4:
		txt = confload.ClusterJSON(c.Cluster.Val(), st)
	case 5:
		_, g := genGslb(r)
		txt = confload.GslbJSON(hv.AsList(g)[2], st)
	default:
		_, t := genCtable(r)
		txt = confload.CtableJSON(hv.AsList(t)[2], st)
	}
	out, label := confload.NullCase(k, txt, i/6)
	return "null-" + []string{"host", "vip", "route", "cluster", "gslb", "ctable"}[k-1] + "-" + label, hv.L{hv.I(9), hv.I(k), hv.S(out)}
}

func gen(r *hv.Rng, i int, tier string) (string, hv.Val) {
	if i%3 == 0 {
		return genNull(r, i/3)
	}
	switch k := r.Intn(20); {
	case k < 2:
		return genGslb(r)
	case k < 4:
		return genCtable(r)
	case k < 7:
		return genRaw(r)
	}
	c, adv := confload.GenSDC(r, true)
	class := "doc"
	if adv {
		class = "doc-advmode"
	}
	if r.Chance(3, 5) {
		m := mutate(r, c)
		if m != "doc" {
			class = m
		}
	}
	return class, hv.L{hv.I(1), hv.I(r.Intn(1 << 30)), c.Host.Val(), c.Vip.Val(), c.Route.Val(), c.Cluster.Val()}
}

func main() {
	confload.Init()
	defer confload.Cleanup()
	hv.Main(&hv.Spec{Prop: "C13", Gen: gen, Impl: impl, NQuick: 6000, NThorough: 300000})
}
