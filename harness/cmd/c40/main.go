// C40: bfe_spdy serve-loop state machine vs model SpdyServer.v.
// The harness plays the client (frames), the handlers (body reads, response writes) and the writer
// goroutine synchronously through hooks/bfe_spdy/zz_verif_c40.go; see coq/run/RunC40.v for the format.
package main

import (
	"strconv"

	"verif/harness/hv"

	http "github.com/bfenetworks/bfe/bfe_http"
	spdy "github.com/bfenetworks/bfe/bfe_spdy"
)

func outVal(fs []spdy.VerifOut) hv.L {
	l := hv.L{}
	for _, f := range fs {
		switch f.Kind {
		case 3, 7, 9:
			l = append(l, hv.L{hv.I(f.Kind), hv.U(uint64(f.A)), hv.U(uint64(f.B))})
		case 2, 6:
			l = append(l, hv.L{hv.I(f.Kind), hv.U(uint64(f.A))})
		case 0:
			l = append(l, hv.L{hv.I(0), hv.U(uint64(f.A)), hv.U(uint64(f.B)), hv.I(int(f.C))})
		default:
			l = append(l, hv.L{hv.I(f.Kind)})
		}
	}
	return l
}

func impl(in hv.Val) hv.Val {
	top := hv.AsList(in)
	v := spdy.VerifNewConn(uint32(hv.AsInt(top[0])))
	defer v.Finish()
	steps := hv.L{}
	for _, evv := range hv.AsList(top[1]) {
		ev := hv.AsList(evv)
		a := func(i int) int64 { return hv.AsInt(ev[i]) }
		var out []spdy.VerifOut
		var pan bool
		x := 0
		switch a(0) {
		case 1:
			h := http.Header{}
			h[":method"] = []string{"POST"}
			h[":path"] = []string{"/"}
			h[":version"] = []string{"HTTP/1.1"}
			h[":host"] = []string{"h"}
			h[":scheme"] = []string{"http"}
			if a(1)%4 == 3 {
				h[":scheme"] = []string{"https"}
			}
			switch {
			case a(3) >= 0:
				h["Content-Length"] = []string{strconv.FormatInt(a(3), 10)}
			case a(3) == -2:
				h["Content-Length"] = []string{"12x"}
			case a(3) < -2:
				h["Content-Length"] = []string{"-5"}
			}
			switch a(4) {
			case 1:
				delete(h, ":path")
			case 2:
				h[":method"] = []string{"HEAD"}
			case 3:
				h[":scheme"] = []string{"ftp"}
			}
			f := &spdy.SynStreamFrame{StreamId: spdy.StreamId(uint32(a(1))), Priority: uint8(a(1) % 8), Headers: h}
			if a(2) != 0 {
				f.CFHeader.Flags = spdy.ControlFlagFin
			}
			out, pan = v.Frame(f)
		case 2:
			f := &spdy.DataFrame{StreamId: spdy.StreamId(uint32(a(1))), Data: make([]byte, a(2))}
			if a(3) != 0 {
				f.Flags = spdy.DataFlagFin
			}
			out, pan = v.Frame(f)
		case 3:
			out, pan = v.Frame(&spdy.WindowUpdateFrame{StreamId: spdy.StreamId(uint32(a(1))), DeltaWindowSize: uint32(a(2))})
		case 4:
			out, pan = v.Frame(&spdy.RstStreamFrame{StreamId: spdy.StreamId(uint32(a(1))), Status: spdy.RstStreamStatus(uint32(a(2)))})
		case 5:
			out, x, pan = v.HandlerRead(uint32(a(1)), int(a(2)))
		case 6:
			out, pan = v.Frame(&spdy.SettingsFrame{FlagIdValues: []spdy.SettingsFlagIdValue{
				{Flag: 0, Id: spdy.SettingsInitialWindowSize, Value: uint32(a(1))}}})
		case 7:
			out, pan = v.HandlerWrite(uint32(a(1)), int(a(2)), a(3) != 0)
		case 8:
			v.HandlerCloseBody(uint32(a(1)))
		case 9:
			out, pan = v.Frame(&spdy.PingFrame{Id: uint32(a(1))})
		default:
			return hv.Err(0)
		}
		if pan {
			// the model reports a Bug as the last step; frames written before the panic are not compared
			steps = append(steps, hv.Panic())
			return hv.L{steps, hv.I(-1)}
		}
		steps = append(steps, hv.L{hv.Bool(!v.Dead), outVal(out), hv.I(x)})
	}
	return hv.L{steps, hv.Z(v.Buffered())}
}

// ---------- generator ----------
type gstream struct {
	id       int
	sent     int  // DATA bytes sent on it
	canSend  bool // client has not finished/reset it (server may have)
	buffered int  // rough: accepted and not yet read
}

func gen(r *hv.Rng, i int, tier string) (string, hv.Val) {
	if i < len(scenarios) {
		return scenarios[i].name, scenarios[i].in
	}
	maxStreams := 200
	if r.Chance(1, 8) {
		maxStreams = r.Range(1, 3)
	}
	evs := hv.L{}
	streams := []*gstream{}
	next := 1
	writer := -1
	class := "flow"
	n := r.Range(3, 40)
	pick := func() *gstream {
		if len(streams) == 0 {
			return nil
		}
		return streams[r.Intn(len(streams))]
	}
	anyID := func() int {
		switch r.Intn(6) {
		case 0:
			return next + 2*r.Intn(3) // not opened yet
		case 1:
			return r.Range(0, 12)
		default:
			if s := pick(); s != nil {
				return s.id
			}
			return 1
		}
	}
	for k := 0; k < n; k++ {
		switch r.Intn(16) {
		case 0, 1, 2: // SYN_STREAM
			id := next
			switch r.Intn(12) {
			case 0:
				id = next + 1 // even
				class = "ids"
			case 1:
				if next > 3 {
					id = next - 2*r.Range(1, 2) // lower than or equal to the maximum
					class = "ids"
				}
			case 2:
				id = next + 2*r.Intn(3) // gaps
			}
			fin := r.Chance(1, 5)
			cl := -1
			if r.Chance(1, 3) {
				cl = pickI(r, []int{0, 1, 100, 1000, 65536, 70000})
			}
			if r.Chance(1, 25) {
				cl = pickI(r, []int{-2, -3})
			}
			badk := 0
			if r.Chance(1, 12) {
				badk = r.Range(1, 3)
			}
			bad := badk == 1 || badk == 3 || (badk == 2 && !fin) || (cl < -1 && !fin)
			evs = append(evs, hv.L{hv.I(1), hv.I(id), hv.Bool(fin), hv.I(cl), hv.I(badk)})
			if id%2 == 1 && id >= next {
				next = id + 2
				if !bad {
					streams = append(streams, &gstream{id: id, canSend: !fin})
					if writer < 0 {
						writer = id
					}
				}
			}
		case 3, 4, 5, 6, 7: // DATA
			id := anyID()
			var s *gstream
			for _, t := range streams {
				if t.id == id {
					s = t
				}
			}
			room := 65536
			if s != nil {
				room = 65536 - s.sent
			}
			sz := pickI(r, []int{0, 1, 100, 1000, 16384, 30000, room, room + 1, room - 1, 65536, 65537, r.Intn(70000)})
			if sz < 0 {
				sz = 0
			}
			fin := r.Chance(1, 6)
			evs = append(evs, hv.L{hv.I(2), hv.I(id), hv.I(sz), hv.Bool(fin)})
			if s != nil {
				s.sent += sz
			}
		case 8, 9, 10: // handler read
			id := anyID()
			evs = append(evs, hv.L{hv.I(5), hv.I(id), hv.I(pickI(r, []int{1, 100, 1000, 16384, 70000, 70000, 70000}))})
			for _, t := range streams {
				if t.id == id {
					t.sent = 0 // roughly: window given back
				}
			}
		case 11: // WINDOW_UPDATE from the client
			id := 0
			if r.Bool() {
				id = anyID()
			}
			d := pickI(r, []int{1, 1000, 65536, 1 << 20, 1<<31 - 1, 1<<31 - 65536, 1<<31 - 65537})
			if r.Chance(1, 20) {
				d = 1<<31 + r.Intn(1000) // bit 31 set: cannot come out of the frame reader, int32() makes it negative
				class = "wu-sign"
			}
			evs = append(evs, hv.L{hv.I(3), hv.I(id), hv.I(d)})
		case 12: // RST_STREAM from the client
			evs = append(evs, hv.L{hv.I(4), hv.I(anyID()), hv.I(r.Range(1, 11))})
		case 13: // handler writes (one designated stream only: scheduling between streams is unspecified)
			if writer >= 0 {
				evs = append(evs, hv.L{hv.I(7), hv.I(writer), hv.I(pickI(r, []int{0, 1, 1000, 16384, 16385, 40000, 65536, 65537, 100000})), hv.Bool(r.Chance(1, 4))})
			}
		case 14:
			switch r.Intn(3) {
			case 0:
				evs = append(evs, hv.L{hv.I(6), hv.I(pickI(r, []int{0, 1, 100, 65536, 1 << 20, 1<<31 - 1}))})
			case 1:
				evs = append(evs, hv.L{hv.I(8), hv.I(anyID())})
			default:
				evs = append(evs, hv.L{hv.I(9), hv.I(r.Range(1, 9))})
			}
		case 15:
			evs = append(evs, hv.L{hv.I(9), hv.I(2*r.Intn(5) + 1)})
		}
	}
	if r.Chance(2, 3) { // drain: every handler reads what is left
		for _, s := range streams {
			evs = append(evs, hv.L{hv.I(5), hv.I(s.id), hv.I(70000)})
		}
	}
	if maxStreams < 200 {
		class += "-maxstreams"
	}
	return class, hv.L{hv.I(maxStreams), evs}
}

func pickI(r *hv.Rng, xs []int) int { return xs[r.Intn(len(xs))] }

type scenario struct {
	name string
	in   hv.Val
}

func sc(name string, maxs int, evs ...hv.L) scenario {
	l := hv.L{}
	for _, e := range evs {
		l = append(l, e)
	}
	return scenario{name, hv.L{hv.I(maxs), l}}
}
func ev(xs ...int) hv.L {
	l := hv.L{}
	for _, x := range xs {
		l = append(l, hv.I(x))
	}
	return l
}

var scenarios = []scenario{
	// exact window use, refund by reads
	sc("sc-exact-window", 200, ev(1, 1, 0, -1, 0), ev(2, 1, 65536, 0), ev(2, 1, 1, 0)),
	sc("sc-refund", 200, ev(1, 1, 0, -1, 0), ev(2, 1, 65536, 0), ev(5, 1, 100), ev(2, 1, 100, 0), ev(2, 1, 1, 0)),
	sc("sc-two-streams-session", 200, ev(1, 1, 0, -1, 0), ev(1, 3, 0, -1, 0), ev(2, 1, 40000, 0), ev(2, 3, 25536, 0), ev(2, 3, 1, 0), ev(5, 1, 70000), ev(5, 3, 70000)),
	// unrefunded paths
	sc("sc-unknown-stream-data", 200, ev(2, 5, 1000, 0), ev(1, 1, 0, -1, 0), ev(2, 1, 65536, 0), ev(5, 1, 70000)),
	sc("sc-content-length-overrun", 200, ev(1, 1, 0, 1, 0), ev(2, 1, 1000, 0)),
	sc("sc-closed-with-unread", 200, ev(1, 1, 0, -1, 0), ev(2, 1, 1000, 0), ev(4, 1, 5)),
	sc("sc-body-closed", 200, ev(1, 1, 0, -1, 0), ev(8, 1), ev(2, 1, 1000, 0)),
	sc("sc-data-after-fin", 200, ev(1, 1, 0, -1, 0), ev(2, 1, 10, 1), ev(2, 1, 10, 0)),
	// ids
	sc("sc-even-id", 200, ev(1, 2, 0, -1, 0), ev(1, 3, 0, -1, 0)),
	sc("sc-lower-id", 200, ev(1, 5, 0, -1, 0), ev(1, 3, 0, -1, 0)),
	sc("sc-dup-id", 200, ev(1, 5, 0, -1, 0), ev(1, 5, 0, -1, 0), ev(2, 5, 1, 0)),
	sc("sc-max-streams", 2, ev(1, 1, 0, -1, 0), ev(1, 3, 0, -1, 0), ev(1, 5, 0, -1, 0), ev(9, 1)),
	sc("sc-rst-idle", 200, ev(4, 7, 1)),
	// outbound
	sc("sc-out-window", 200, ev(1, 1, 1, -1, 0), ev(7, 1, 100000, 1), ev(3, 1, 50000), ev(3, 0, 20000), ev(3, 0, 20000)),
	sc("sc-out-settings-shrink", 200, ev(1, 1, 1, -1, 0), ev(7, 1, 60000, 0), ev(6, 100), ev(7, 1, 10, 0), ev(3, 1, 10), ev(9, 1)),
	sc("sc-out-settings-grow", 200, ev(6, 10), ev(1, 1, 1, -1, 0), ev(7, 1, 1000, 1), ev(6, 2000), ev(9, 1)),
	sc("sc-wu-overflow", 200, ev(1, 1, 0, -1, 0), ev(3, 1, 2147483647), ev(3, 0, 2147483647)),
	sc("sc-wu-sign", 200, ev(1, 1, 1, -1, 0), ev(3, 1, 4294967295), ev(7, 1, 65536, 0)),
	sc("sc-dropped-then-full", 200, ev(2, 9, 1000, 0), ev(1, 1, 0, -1, 0), ev(1, 3, 0, -1, 0), ev(2, 1, 65536, 0), ev(2, 3, 1, 0), ev(5, 1, 70000)),
	sc("sc-overrun-then-full", 200, ev(1, 1, 0, 10, 0), ev(2, 1, 1000, 0), ev(1, 3, 0, -1, 0), ev(2, 3, 65536, 0), ev(1, 5, 0, -1, 0), ev(2, 5, 1, 0)),
	sc("sc-bodyclosed-then-full", 200, ev(1, 1, 0, -1, 0), ev(8, 1), ev(2, 1, 1000, 0), ev(1, 3, 0, -1, 0), ev(2, 3, 65536, 0), ev(1, 5, 0, -1, 0), ev(2, 5, 1, 0)),
	sc("sc-dropped-over-session", 200, ev(1, 1, 0, -1, 0), ev(2, 1, 65000, 0), ev(2, 9, 1000, 0), ev(2, 1, 536, 0), ev(5, 1, 70000)),
	sc("sc-settings-overflow", 200, ev(1, 1, 0, -1, 0), ev(3, 1, 2147418111), ev(6, 65537), ev(9, 1)),
	sc("sc-head-with-body", 200, ev(1, 1, 0, -1, 2), ev(1, 3, 1, -1, 2), ev(7, 3, 10, 1)),
	sc("sc-bad-content-length", 200, ev(1, 1, 0, -2, 0), ev(1, 3, 0, -3, 0), ev(1, 5, 1, -2, 0), ev(2, 5, 1, 0)),
	sc("sc-goaway-mutes", 200, ev(1, 1, 0, -1, 0), ev(1, 2, 0, -1, 0), ev(2, 9, 10, 0), ev(9, 1)),
}

func main() {
	hv.Main(&hv.Spec{Prop: "C40", Gen: gen, Impl: impl, NQuick: 4000, NThorough: 200000})
}
