// C34 live part: a scripted HTTP/2 client against the real bfe_http2.Server.ServeConn over net.Pipe; the handler
// writes the number of body octets the request asks for.  Structure after harness/h2c33/engine.go (PING barriers).
// input : [7 [step ...]] ; step = [1 sid n] request | [3 sid] RST_STREAM | [4 sid inc] WINDOW_UPDATE
//                                | [5 v] SETTINGS_INITIAL_WINDOW_SIZE | [6 v] SETTINGS_MAX_FRAME_SIZE
// output: per step the frames received in order: [0 sid len endStream contentOK] DATA | [1] SETTINGS ack | [2] GOAWAY/closed
package main

import (
	"bytes"
	"io"
	"net"
	"strconv"
	"sync"
	"time"

	"verif/harness/hv"

	"github.com/baidu/go-lib/web-monitor/metrics"
	http "github.com/bfenetworks/bfe/bfe_http"
	h2 "github.com/bfenetworks/bfe/bfe_http2"
	"github.com/bfenetworks/bfe/bfe_http2/hpack"
)

var liveOnce sync.Once
var liveMetrics metrics.Metrics

type lev struct {
	kind int // 0 DATA 1 SETTINGS-ACK 2 dead 100 PING-ACK
	sid  int
	n    int
	es   bool
	good bool
}

type lconn struct {
	c     net.Conn
	fr    *h2.Framer
	henc  *hpack.Encoder
	hbuf  bytes.Buffer
	evs   chan lev
	done  chan struct{}
	dead  bool
	pingN uint64
	cur   []lev
}

func liveHandler(w http.ResponseWriter, r *http.Request) {
	n, _ := strconv.Atoi(r.Header.Get("x-n"))
	chunk := make([]byte, 70000)
	off := 0
	for n > 0 {
		k := len(chunk)
		if k > n {
			k = n
		}
		for i := 0; i < k; i++ {
			chunk[i] = byte((off + i) % 251) // position-dependent content: loss/duplication/reordering is visible
		}
		if _, err := w.Write(chunk[:k]); err != nil {
			return
		}
		n -= k
		off += k
	}
}

func (cn *lconn) reader() {
	offs := map[uint32]int{}
	for {
		f, err := cn.fr.ReadFrame()
		if err != nil {
			cn.evs <- lev{kind: 2}
			return
		}
		switch f := f.(type) {
		case *h2.DataFrame:
			good := true
			off := offs[f.StreamID]
			for i, b := range f.Data() {
				if b != byte((off+i)%251) {
					good = false
				}
			}
			offs[f.StreamID] = off + len(f.Data())
			cn.evs <- lev{kind: 0, sid: int(f.StreamID), n: len(f.Data()), es: f.StreamEnded(), good: good}
		case *h2.SettingsFrame:
			if f.IsAck() {
				cn.evs <- lev{kind: 1}
			}
		case *h2.GoAwayFrame:
			cn.evs <- lev{kind: 2}
		case *h2.PingFrame:
			if f.IsAck() {
				var n uint64
				for _, b := range f.Data {
					n = n<<8 | uint64(b)
				}
				cn.evs <- lev{kind: 100, n: int(n)}
			}
		}
	}
}

func (cn *lconn) kill() {
	if cn.dead {
		return
	}
	cn.dead = true
	cn.c.Close()
	<-cn.done
}

// ping sends one PING and consumes events until its ack (or the end of the connection)
func (cn *lconn) ping() {
	if cn.dead {
		return
	}
	cn.pingN++
	n := cn.pingN
	var d [8]byte
	for i := 0; i < 8; i++ {
		d[7-i] = byte(n >> (8 * uint(i)))
	}
	cn.fr.WritePing(false, d)
	for !cn.dead {
		e := <-cn.evs
		switch e.kind {
		case 100:
			if e.n == int(n) {
				return
			}
		case 2:
			cn.cur = append(cn.cur, e)
			cn.kill()
		default:
			cn.cur = append(cn.cur, e)
		}
	}
}

// settle: PING round trips until two consecutive ones bring no new frame (the handlers are then blocked on
// flow control or finished); bounded.  Validation does not depend on this being exact.
func (cn *lconn) settle() {
	quiet := 0
	for k := 0; k < 400 && quiet < 3 && !cn.dead; k++ {
		before := len(cn.cur)
		cn.ping()
		if len(cn.cur) == before {
			quiet++
			time.Sleep(200 * time.Microsecond)
		} else {
			quiet = 0
		}
	}
}

func (cn *lconn) request(sid, n int) {
	cn.hbuf.Reset()
	w := func(k, v string) { cn.henc.WriteField(hpack.HeaderField{Name: k, Value: v}) }
	w(":method", "GET")
	w(":scheme", "http")
	w(":path", "/")
	w(":authority", "a")
	w("x-n", strconv.Itoa(n))
	cn.fr.WriteHeaders(h2.HeadersFrameParam{StreamID: uint32(sid), BlockFragment: append([]byte(nil), cn.hbuf.Bytes()...),
		EndStream: true, EndHeaders: true})
}

func liveRun(steps hv.L) hv.Val {
	liveOnce.Do(func() { liveMetrics.Init(h2.GetHttp2State(), "h2", 0) })
	cEnd, sEnd := net.Pipe()
	cn := &lconn{c: cEnd, evs: make(chan lev, 1<<16), done: make(chan struct{})}
	cn.henc = hpack.NewEncoder(&cn.hbuf)
	srv := &h2.Server{MaxConcurrentStreams: 100}
	go func() {
		srv.ServeConn(sEnd, &h2.ServeConnOpts{
			BaseConfig: &http.Server{ReadTimeout: 20 * time.Second, WriteTimeout: 20 * time.Second},
			Handler:    http.HandlerFunc(liveHandler),
		})
		close(cn.done)
	}()
	cn.fr = h2.NewFramer(cEnd, cEnd)
	cn.fr.AllowIllegalWrites = true
	cn.fr.ReadMetaHeaders = hpack.NewDecoder(4096, nil)
	go cn.reader()
	io.WriteString(cEnd, h2.ClientPreface)
	cn.fr.WriteSettings()
	cn.fr.WriteSettingsAck()
	cn.settle()
	cn.cur = nil // the ack of the initial (empty) SETTINGS is not part of the script

	out := make(hv.L, 0, len(steps))
	for _, sv := range steps {
		if cn.dead {
			out = append(out, hv.L{})
			continue
		}
		s := hv.AsList(sv)
		cn.cur = nil
		switch hv.AsInt(s[0]) {
		case 1:
			cn.request(int(hv.AsInt(s[1])), int(hv.AsInt(s[2])))
		case 3:
			cn.fr.WriteRSTStream(uint32(hv.AsInt(s[1])), h2.ErrCodeCancel)
		case 4:
			cn.fr.WriteWindowUpdate(uint32(hv.AsInt(s[1])), uint32(hv.AsInt(s[2])))
		case 5:
			cn.fr.WriteSettings(h2.Setting{ID: h2.SettingInitialWindowSize, Val: uint32(hv.AsInt(s[1]))})
		case 6:
			cn.fr.WriteSettings(h2.Setting{ID: h2.SettingMaxFrameSize, Val: uint32(hv.AsInt(s[1]))})
		}
		cn.settle()
		l := hv.L{}
		for _, e := range cn.cur {
			switch e.kind {
			case 0:
				l = append(l, hv.L{hv.I(0), hv.I(e.sid), hv.I(e.n), hv.Bool(e.es), hv.Bool(e.good)})
			case 1:
				l = append(l, hv.L{hv.I(1)})
			case 2:
				l = append(l, hv.L{hv.I(2)})
			}
		}
		out = append(out, l)
	}
	cn.kill()
	return out
}

// live scripts: several streams with large bodies; the windows are what limits the server, so every
// SETTINGS / WINDOW_UPDATE step moves the limit (initial window grown and shrunk below what was already sent)
func genLive(r *hv.Rng) (string, hv.Val) {
	steps := hv.L{}
	add := func(v ...int) {
		l := hv.L{}
		for _, x := range v {
			l = append(l, hv.I(x))
		}
		steps = append(steps, l)
	}
	iw := []int{65535, 40000, 20000, 1000, 0, 100000}[r.Intn(6)]
	if iw != 65535 {
		add(5, iw)
	}
	next := 1
	var open []int
	newReq := func() {
		n := []int{200000, 100000, 70000, 30000, 5000, 1, 0}[r.Intn(7)]
		add(1, next, n)
		open = append(open, next)
		next += 2
	}
	newReq()
	shrinks := 0
	if r.Chance(1, 3) { // directed: stream window left over while the connection window is the limit, then shrink
		big := []int{100000, 250000}[r.Intn(2)]
		steps = hv.L{}
		add(5, big)
		add(1, 1, 200000)
		v := []int{0, 4465, 30000, 70000}[r.Intn(4)]
		add(5, v)
		iw = v
		shrinks++
		open = []int{1}
		next = 3
	}
	for k := r.Range(4, 10); k > 0; k-- {
		switch c := r.Intn(12); {
		case c < 2 && len(open) < 4:
			newReq()
		case c < 5: // connection window
			add(4, 0, []int{1, 1000, 20000, 70000, 300000}[r.Intn(5)])
		case c < 7 && len(open) > 0:
			add(4, open[r.Intn(len(open))], []int{1, 500, 16384, 50000, 200000}[r.Intn(5)])
		case c < 10: // initial window change
			v := []int{0, 10, 1000, 4465, 16384, 30000, 65535, 100000, 250000}[r.Intn(9)]
			if v < iw {
				shrinks++
			}
			iw = v
			add(5, v)
		case c < 11:
			add(6, []int{16384, 16385, 20000, 65536, 1<<24 - 1}[r.Intn(5)])
		default:
			if len(open) > 0 {
				j := r.Intn(len(open))
				add(3, open[j])
				open = append(open[:j:j], open[j+1:]...)
			}
		}
	}
	add(4, 0, 1000000) // let everything that the stream windows allow through
	class := "live"
	if shrinks > 0 {
		class = "live+shrink"
	}
	return class, hv.L{hv.I(7), steps}
}
