// C34: writeScheduler + flow vs model H2Sched.v (trace validation: the model allows any map-iteration choice).
// input ops: [1 sid init] [2 frame] [3] take [4 sid] forget [5 sid n] flow.add [6 v] maxFrameSize
// frame: [0 tag] | [1 sid start len es] | [2 sid tag]; output per op: [obs conn [wins]]
package main

import (
	"verif/harness/hv"

	"github.com/bfenetworks/bfe/bfe_http2"
)

func step(t *bfe_http2.VerifC34Sched, op hv.L) (obs hv.Val) {
	defer func() {
		if e := recover(); e != nil {
			obs = hv.L{hv.I(3)}
		}
	}()
	switch hv.AsInt(op[0]) {
	case 1:
		created, ok := t.VerifC34NewStream(uint32(hv.AsInt(op[1])), int32(hv.AsInt(op[2])))
		if created {
			return hv.L{hv.I(2), hv.Bool(ok)}
		}
	case 2:
		f := hv.AsList(op[1])
		switch hv.AsInt(f[0]) {
		case 0:
			t.VerifC34AddCtl(int(hv.AsInt(f[1])))
		case 1:
			t.VerifC34AddData(uint32(hv.AsInt(f[1])), byte(hv.AsInt(f[2])), int(hv.AsInt(f[3])), hv.AsBool(f[4]))
		case 2:
			t.VerifC34AddHdr(uint32(hv.AsInt(f[1])), int(hv.AsInt(f[2])))
		}
	case 3:
		ok, kind, sid, a, b, es := t.VerifC34Take()
		if ok {
			switch kind {
			case 0:
				return hv.L{hv.I(1), hv.L{hv.I(0), hv.I(a)}}
			case 1:
				return hv.L{hv.I(1), hv.L{hv.I(1), hv.I(int(sid)), hv.I(a), hv.I(b), hv.Bool(es)}}
			default:
				return hv.L{hv.I(1), hv.L{hv.I(2), hv.I(int(sid)), hv.I(a)}}
			}
		}
	case 4:
		t.VerifC34Forget(uint32(hv.AsInt(op[1])))
	case 5:
		known, ok := t.VerifC34AddWindow(uint32(hv.AsInt(op[1])), int32(hv.AsInt(op[2])))
		if known {
			return hv.L{hv.I(2), hv.Bool(ok)}
		}
	case 6:
		t.VerifC34SetMaxFrame(uint32(hv.AsInt(op[1])))
	}
	return hv.L{}
}

func impl(in hv.Val) hv.Val {
	if top := hv.AsList(in); len(top) == 2 {
		if _, isList := top[0].(hv.L); !isList && hv.AsInt(top[0]) == 7 {
			return liveRun(hv.AsList(top[1]))
		}
	}
	t := bfe_http2.VerifC34New()
	out := hv.L{}
	for _, opv := range hv.AsList(in) {
		ob := step(t, hv.AsList(opv))
		conn, wins := t.VerifC34Windows()
		ws := hv.L{}
		for _, w := range wins {
			ws = append(ws, hv.I(int(w)))
		}
		out = append(out, hv.L{ob, hv.I(int(conn)), ws})
	}
	return out
}

const maxI32 = 1<<31 - 1

func gen(r *hv.Rng, i int, tier string) (string, hv.Val) {
	if i%10 == 3 {
		return genLive(r)
	}
	ops := hv.L{}
	add := func(v ...hv.Val) { ops = append(ops, hv.L(v)) }
	// regime: 0 tiny windows/frames (splits everywhere), 1 realistic sizes, 2 int32 boundary windows
	regime := r.Intn(4)
	if regime == 3 {
		regime = 0
	}
	small := func() int { return r.Intn(24) }
	var connInit, stInit, maxf int
	switch regime {
	case 0:
		connInit, stInit, maxf = r.Range(0, 60), r.Range(0, 30), r.Range(1, 12)
		if r.Chance(1, 4) {
			maxf = 16384
		}
	case 1:
		connInit, stInit, maxf = 65535, []int{65535, 16384, 100000, 0}[r.Intn(4)], []int{16384, 16385, 1 << 20, 1<<24 - 1}[r.Intn(4)]
	default:
		connInit, stInit, maxf = maxI32-r.Intn(3), maxI32-r.Intn(70000), 16384
	}
	add(hv.I(5), hv.I(0), hv.I(connInit))
	add(hv.I(6), hv.I(maxf))
	nst := r.Range(1, 4)
	var sids []int
	next := 1
	newStream := func() {
		add(hv.I(1), hv.I(next), hv.I(stInit))
		sids = append(sids, next)
		next += 2
	}
	for k := 0; k < nst; k++ {
		newStream()
	}
	dlen := func() int {
		switch regime {
		case 0:
			return small()
		case 1:
			return []int{0, 1, 100, 16383, 16384, 16385, 40000, 65535, 65536, 200000}[r.Intn(10)]
		default:
			return []int{1, 70000, 16384, 3}[r.Intn(4)]
		}
	}
	nops := r.Range(8, 40)
	nTake, nForget, nNeg := 0, 0, 0
	for len(ops) < nops {
		sid := sids[r.Intn(len(sids))]
		switch k := r.Intn(20); {
		case k < 5: // DATA
			es := r.Chance(1, 5)
			n, b0 := dlen(), r.Intn(256)
			if n == 0 {
				b0 = 0
			}
			add(hv.I(2), hv.L{hv.I(1), hv.I(sid), hv.I(b0), hv.I(n), hv.Bool(es)})
		case k < 6:
			add(hv.I(2), hv.L{hv.I(2), hv.I(sid), hv.I(r.Intn(5))})
		case k < 7:
			add(hv.I(2), hv.L{hv.I(0), hv.I(r.Intn(5))})
		case k < 14:
			add(hv.I(3))
			nTake++
		case k < 15:
			add(hv.I(4), hv.I(sid))
			nForget++
		case k < 16 && len(sids) < 5:
			newStream()
		case k < 18: // WINDOW_UPDATE
			target := sid
			if r.Bool() {
				target = 0
			}
			var n int
			switch regime {
			case 0:
				n = r.Range(1, 20)
			case 1:
				n = []int{1, 16384, 65535, 1 << 20}[r.Intn(4)]
			default:
				n = []int{1, 2, 70000, maxI32}[r.Intn(4)]
			}
			add(hv.I(5), hv.I(target), hv.I(n))
		case k < 19: // SETTINGS_INITIAL_WINDOW_SIZE change: the same delta on every stream
			var d int
			if regime == 0 {
				d = r.Range(-25, 25)
			} else {
				d = r.Range(-70000, 70000)
			}
			if d < 0 {
				nNeg++
			}
			for _, s := range sids {
				add(hv.I(5), hv.I(s), hv.I(d))
			}
		default:
			if regime == 0 {
				add(hv.I(6), hv.I(r.Range(1, 12)))
			} else {
				add(hv.I(6), hv.I([]int{16384, 16385, 65536, 1<<24 - 1}[r.Intn(4)]))
			}
		}
	}
	// drain
	for k := r.Intn(8); k > 0; k-- {
		add(hv.I(3))
		nTake++
	}
	class := []string{"tiny", "realistic", "int32-edge"}[regime]
	if nTake == 0 {
		class = "triv-notake"
	} else {
		if nForget > 0 {
			class += "+forget"
		}
		if nNeg > 0 {
			class += "+shrink"
		}
	}
	return class, ops
}

func main() {
	hv.Main(&hv.Spec{Prop: "C34", Gen: gen, Impl: impl, NQuick: 4000, NThorough: 150000})
}
