// C47: WebSocket and TLS stream tunnels are byte-transparent.  Whole-server harness (package e2e) with harness-owned raw
// TCP backends (e2e.Backend only speaks scripted HTTP; a raw listener is addressed by an e2e.Backend value that carries
// just Name/IP/Port).  Input / output format: see coq/run/RunC47.v.
//
// Determinism: the closing side closes only after BOTH directions were delivered completely (each end knows the totals),
// so the proxy's 250 ms shutdown timer (armed when the first io.Copy returns) cannot cut data; the other side reads until
// EOF.  Nothing observes timing; deadlines only bound failures.
package main

import (
	"bufio"
	"bytes"
	"crypto/tls"
	"encoding/json"
	"fmt"
	"io"
	"io/ioutil"
	"net"
	"os"
	"path/filepath"
	"sync"
	"time"

	"verif/harness/e2e"
	"verif/harness/hv"

	"github.com/bfenetworks/bfe/bfe_config/bfe_conf"
)

const deadline = 8 * time.Second

// idle tunnels: the server's ClientReadTimeout (seconds; 1 is the smallest value bfe.conf accepts) and how long both ends
// stay silent.  The sleep is the point of these cases: the property is about bytes sent AFTER idleness.
const idleTimeoutSec = 1
const idleFor = 1600 * time.Millisecond

// ---------------------------------------------------------------------------------------------
// raw backend: a plain TCP listener; every accepted connection is handed to the tunnel that is connecting

type rawBackend struct {
	ln   net.Listener
	port int
	anon chan net.Conn // accepted connections in accept order (the tunnels of one case connect one by one, see runTunnel)
}

func newRawBackend() *rawBackend {
	ln, err := net.Listen("tcp", "127.0.0.1:0")
	if err != nil {
		panic(err)
	}
	b := &rawBackend{ln: ln, port: ln.Addr().(*net.TCPAddr).Port, anon: make(chan net.Conn, 64)}
	go func() {
		for {
			c, err := ln.Accept()
			if err != nil {
				return
			}
			b.anon <- c
		}
	}()
	return b
}

type env struct {
	srv *e2e.Server
	ws  *rawBackend // backend of cluster cws (WebSocket tunnels)
	st  *rawBackend // backend of cluster cst (TLS stream tunnels)
}

var envs [3]*env

// setup(mode): 0 = the normal server; 1 = a second server whose ClientReadTimeout is 1 s (tunnels that contain an idle
// event); 2 = a third server whose TLS rules enable DynamicRecord (tunnel kinds 2 and 3)
func setup(k int) *env {
	idle, dynrec := k == 1, k == 2
	if envs[k] != nil {
		return envs[k]
	}
	ws, st := newRawBackend(), newRawBackend()
	bws := &e2e.Backend{Name: "rawws", IP: "127.0.0.1", Port: ws.port}
	bst := &e2e.Backend{Name: "rawst", IP: "127.0.0.1", Port: st.port}
	srv := e2e.Start(e2e.Options{
		Products: []e2e.Product{
			{Name: "pws", Hosts: []string{"ws.example.org"}, Cluster: "cws"},
			{Name: "pst", Hosts: []string{"st.example.org"}, Cluster: "cst"}},
		DefaultProduct: "pst", // a TLS stream connection has no Host: it is routed through the default product
		Clusters: []e2e.Cluster{
			{Name: "cws", SubClusters: []e2e.SubCluster{{Name: "s1", Weight: 100, Backends: []*e2e.Backend{bws}}}},
			{Name: "cst", SubClusters: []e2e.SubCluster{{Name: "s1", Weight: 100, Backends: []*e2e.Backend{bst}}}}},
		Handlers: 1, HTTPS: true,
		Tweak: func(cfg *bfe_conf.BfeConfig, root string) {
			if idle {
				cfg.Server.ClientReadTimeout = idleTimeoutSec
			}
			p := filepath.Join(root, "tls_conf", "tls_rule_conf.data")
			var v map[string]interface{}
			b, err := ioutil.ReadFile(p)
			if err != nil || json.Unmarshal(b, &v) != nil {
				panic("c47: tls_rule_conf.data")
			}
			v["DefaultNextProtos"] = []string{"stream", "http/1.1"}
			if dynrec {
				v["DefaultDynamicRecord"] = true
			}
			if cfgs, ok := v["Config"].(map[string]interface{}); ok {
				for _, pc := range cfgs {
					if pm, ok := pc.(map[string]interface{}); ok {
						pm["NextProtos"] = []string{"stream", "http/1.1"}
						if dynrec {
							pm["DynamicRecord"] = true
						}
					}
				}
			}
			nb, _ := json.MarshalIndent(v, "", " ")
			ioutil.WriteFile(p, nb, 0644)
		},
	})
	envs[k] = &env{srv: srv, ws: ws, st: st}
	return envs[k]
}

// ---------------------------------------------------------------------------------------------
// one end of a tunnel: a reader goroutine collects everything; writes come from the coordinator

type end struct {
	c    net.Conn
	r    io.Reader
	mu   sync.Mutex
	cond *sync.Cond
	got  []byte
	done bool // reader terminated (EOF or error)
}

func newEnd(c net.Conn, r io.Reader, pre []byte) *end {
	e := &end{c: c, r: r, got: append([]byte(nil), pre...)}
	e.cond = sync.NewCond(&e.mu)
	go func() {
		buf := make([]byte, 4096)
		for {
			n, err := e.r.Read(buf)
			e.mu.Lock()
			e.got = append(e.got, buf[:n]...)
			if err != nil {
				if ne, ok := err.(net.Error); ok && ne.Timeout() {
					// deadline: the connection is still open; not an EOF
				} else {
					e.done = true
				}
			}
			e.cond.Broadcast()
			e.mu.Unlock()
			if err != nil {
				return
			}
		}
	}()
	return e
}

// waitFor blocks until pred holds on the end's state or the deadline passes.
func (e *end) waitFor(pred func() bool, until time.Time) bool {
	t := time.AfterFunc(time.Until(until), func() { e.mu.Lock(); e.cond.Broadcast(); e.mu.Unlock() })
	defer t.Stop()
	e.mu.Lock()
	defer e.mu.Unlock()
	for !pred() {
		if time.Now().After(until) {
			return false
		}
		e.cond.Wait()
	}
	return true
}

type event struct {
	side  int
	data  []byte
	synch bool
}

type tunnel struct {
	kind           int
	cearly, bearly []byte
	events         []event
	closer, mode   int
}

func errVal() hv.Val { return hv.L{hv.B{}, hv.B{}, hv.I(-1), hv.I(-1)} }

var wsHead = "HTTP/1.1 101 Switching Protocols\r\nUpgrade: websocket\r\nConnection: Upgrade\r\nSec-WebSocket-Accept: s3pPLMBiTxaQ9kYGzzhZRbK+xOo=\r\n\r\n"

// readHead reads through the blank line from br.
func readHead(br *bufio.Reader) error {
	for {
		l, err := br.ReadString('\n')
		if err != nil {
			return err
		}
		if l == "\r\n" || l == "\n" {
			return nil
		}
	}
}

func closeWrite(c net.Conn) {
	switch t := c.(type) {
	case *net.TCPConn:
		t.CloseWrite()
	case *tls.Conn:
		t.CloseWrite()
	}
}

// runTunnel runs one tunnel; accept serialises "connect through the proxy and take the next backend connection" so that
// concurrent tunnels of one case get their own backend connection.
func (e *env) runTunnel(t tunnel, accept *sync.Mutex) hv.Val {
	until := time.Now().Add(deadline)
	var cc, bc net.Conn
	var cend, bend *end
	accept.Lock()
	if t.kind == 0 || t.kind == 3 || t.kind == 7 {
		addr := e.srv.Addr
		if t.kind != 0 {
			addr = e.srv.TLSAddr
		}
		c, err := net.DialTimeout("tcp", addr, deadline)
		if err != nil {
			accept.Unlock()
			return errVal()
		}
		cc = c
		cc.SetDeadline(until)
		if t.kind != 0 { // wss: the upgrade runs inside a TLS connection that negotiated http/1.1
			tc := tls.Client(c, clientTLS(t.kind, "http/1.1"))
			if err := tc.Handshake(); err != nil || !negotiated(t.kind, tc) {
				accept.Unlock()
				c.Close()
				return errVal()
			}
			cc = tc
		}
		req := "GET /tunnel HTTP/1.1\r\nHost: ws.example.org\r\nUpgrade: websocket\r\nConnection: Upgrade\r\n" +
			"Sec-WebSocket-Key: dGhlIHNhbXBsZSBub25jZQ==\r\nSec-WebSocket-Version: 13\r\n\r\n"
		// the upgrade request and the early bytes leave in ONE write
		if _, err := cc.Write(append([]byte(req), t.cearly...)); err != nil {
			accept.Unlock()
			cc.Close()
			return errVal()
		}
		select {
		case bc = <-e.ws.anon:
		case <-time.After(deadline):
			accept.Unlock()
			cc.Close()
			return errVal()
		}
		accept.Unlock()
		bc.SetDeadline(until)
		bbr := bufio.NewReader(bc)
		if err := readHead(bbr); err != nil {
			cc.Close()
			bc.Close()
			return errVal()
		}
		// the 101 response and the backend's early bytes leave in ONE write
		if _, err := bc.Write(append([]byte(wsHead), t.bearly...)); err != nil {
			cc.Close()
			bc.Close()
			return errVal()
		}
		cbr := bufio.NewReader(cc)
		if err := readHead(cbr); err != nil {
			cc.Close()
			bc.Close()
			return errVal()
		}
		cend, bend = newEnd(cc, cbr, nil), newEnd(bc, bbr, nil)
	} else {
		raw, err := net.DialTimeout("tcp", e.srv.TLSAddr, deadline)
		if err != nil {
			accept.Unlock()
			return errVal()
		}
		raw.SetDeadline(until)
		tc := tls.Client(raw, clientTLS(t.kind, "stream"))
		if err := tc.Handshake(); err != nil || tc.ConnectionState().NegotiatedProtocol != "stream" || !negotiated(t.kind, tc) {
			accept.Unlock()
			raw.Close()
			if os.Getenv("VERIF_DEBUG") != "" {
				fmt.Fprintf(os.Stderr, "stream handshake: %v proto=%q\n", err, tc.ConnectionState().NegotiatedProtocol)
			}
			return errVal()
		}
		cc = tc
		// first application data immediately after the handshake
		if len(t.cearly) > 0 {
			if _, err := cc.Write(t.cearly); err != nil {
				accept.Unlock()
				cc.Close()
				return errVal()
			}
		}
		select {
		case bc = <-e.st.anon:
		case <-time.After(deadline):
			accept.Unlock()
			cc.Close()
			return errVal()
		}
		accept.Unlock()
		bc.SetDeadline(until)
		if len(t.bearly) > 0 {
			if _, err := bc.Write(t.bearly); err != nil {
				cc.Close()
				bc.Close()
				return errVal()
			}
		}
		cend, bend = newEnd(cc, cc, nil), newEnd(bc, bc, nil)
	}
	defer cc.Close()
	defer bc.Close()

	ends := [2]*end{cend, bend}   // ends[side] writes
	conns := [2]net.Conn{cc, bc}
	sent := [2]int{len(t.cearly), len(t.bearly)}
	for _, ev := range t.events {
		if ev.side == 2 {
			time.Sleep(idleFor)
			until = until.Add(idleFor)
			cc.SetDeadline(until)
			bc.SetDeadline(until)
			continue
		}
		if _, err := conns[ev.side].Write(ev.data); err != nil {
			break
		}
		sent[ev.side] += len(ev.data)
		if ev.synch {
			other := ends[1-ev.side]
			want := sent[ev.side]
			other.waitFor(func() bool { return len(other.got) >= want || other.done }, until)
		}
	}
	// both directions delivered completely (or a reader died / the deadline passed), then the closer closes
	bend.waitFor(func() bool { return len(bend.got) >= sent[0] || bend.done }, until)
	cend.waitFor(func() bool { return len(cend.got) >= sent[1] || cend.done }, until)
	if t.mode == 1 {
		closeWrite(conns[t.closer])
	} else {
		conns[t.closer].Close()
	}
	// the other side must see its connection closed; the closer's own reader ends too (closed locally, or EOF when the
	// proxy closes after a half-close)
	bend.waitFor(func() bool { return bend.done }, until)
	cend.waitFor(func() bool { return cend.done }, until)
	bend.mu.Lock()
	cend.mu.Lock()
	bgot, cgot := append([]byte(nil), bend.got...), append([]byte(nil), cend.got...)
	if t.kind == 2 {
		bgot, cgot = collapse(bgot), collapse(cgot)
	}
	out := hv.L{hv.B(bgot), hv.B(cgot), hv.Bool(bend.done), hv.Bool(cend.done)}
	cend.mu.Unlock()
	bend.mu.Unlock()
	return out
}

// clientTLS: the client-side TLS parameters of a tunnel kind.  Kinds 4, 5, 6 (stream) and 7 (wss) pin the protocol
// version and offer CBC suites only; the others take TLS 1.2 with the library's default (AEAD) suites.
func clientTLS(kind int, proto string) *tls.Config {
	cfg := &tls.Config{InsecureSkipVerify: true, NextProtos: []string{proto}, ServerName: "example.org", MaxVersion: tls.VersionTLS12}
	ver := map[int]uint16{4: tls.VersionTLS10, 5: tls.VersionTLS11, 6: tls.VersionTLS12, 7: tls.VersionTLS10}[kind]
	if ver != 0 {
		cfg.MinVersion, cfg.MaxVersion = ver, ver
		cfg.CipherSuites = []uint16{tls.TLS_ECDHE_RSA_WITH_AES_128_CBC_SHA, tls.TLS_RSA_WITH_AES_128_CBC_SHA}
	}
	return cfg
}

// negotiated checks that the handshake really ended in the version / suite class the kind stands for.
func negotiated(kind int, tc *tls.Conn) bool {
	st := tc.ConnectionState()
	cbc := st.CipherSuite == tls.TLS_ECDHE_RSA_WITH_AES_128_CBC_SHA || st.CipherSuite == tls.TLS_RSA_WITH_AES_128_CBC_SHA
	switch kind {
	case 4, 7:
		return st.Version == tls.VersionTLS10 && cbc
	case 5:
		return st.Version == tls.VersionTLS11 && cbc
	case 6:
		return st.Version == tls.VersionTLS12 && cbc
	}
	return st.Version == tls.VersionTLS12 && !cbc
}

// block scaling of kind 2 tunnels: a wire value stands for blockSize bytes of that value
const blockSize = 4096

func expand(b []byte) []byte {
	out := make([]byte, 0, len(b)*blockSize)
	for _, v := range b {
		out = append(out, bytes.Repeat([]byte{v}, blockSize)...)
	}
	return out
}

// collapse maps every complete uniform block to its value; a block that is not uniform, or a partial last block, to 255.
func collapse(b []byte) []byte {
	out := []byte{}
	for len(b) > 0 {
		n := blockSize
		if len(b) < n {
			out = append(out, 255)
			break
		}
		v, uni := b[0], true
		for _, x := range b[:n] {
			if x != v {
				uni = false
				break
			}
		}
		if !uni {
			v = 255
		}
		out = append(out, v)
		b = b[n:]
	}
	return out
}

func decode(in hv.Val) ([]tunnel, bool) {
	l, ok := in.(hv.L)
	if !ok || len(l) < 1 || len(l) > 4 {
		return nil, false
	}
	isInt := func(v hv.Val) bool {
		switch v.(type) {
		case hv.L, hv.B:
			return false
		}
		return true
	}
	var ts []tunnel
	for _, tv := range l {
		f, ok := tv.(hv.L)
		if !ok || len(f) != 6 || !isInt(f[0]) || !isInt(f[4]) || !isInt(f[5]) {
			return nil, false
		}
		ce, ok1 := f[1].(hv.B)
		be, ok2 := f[2].(hv.B)
		evs, ok3 := f[3].(hv.L)
		if !ok1 || !ok2 || !ok3 || len(evs) > 12 {
			return nil, false
		}
		t := tunnel{kind: int(hv.AsInt(f[0])), cearly: ce, bearly: be, closer: int(hv.AsInt(f[4])), mode: int(hv.AsInt(f[5]))}
		if t.kind < 0 || t.kind > 7 || t.closer < 0 || t.closer > 1 || t.mode < 0 || t.mode > 1 {
			return nil, false
		}
		for _, evv := range evs {
			ev, ok := evv.(hv.L)
			if !ok || len(ev) != 3 || !isInt(ev[0]) || !isInt(ev[2]) {
				return nil, false
			}
			d, ok := ev[1].(hv.B)
			side, sy := int(hv.AsInt(ev[0])), int(hv.AsInt(ev[2]))
			if !ok || side < 0 || side > 2 || sy < 0 || sy > 1 || (side == 2 && (len(d) != 0 || sy != 0)) {
				return nil, false
			}
			if t.kind == 2 {
				d = expand(d)
			}
			t.events = append(t.events, event{side, d, sy == 1})
		}
		if t.kind == 2 {
			t.cearly, t.bearly = expand(t.cearly), expand(t.bearly)
		}
		ts = append(ts, t)
	}
	return ts, true
}

func impl(in hv.Val) hv.Val {
	ts, ok := decode(in)
	if !ok {
		return hv.Err(0)
	}
	idle := false
	for _, t := range ts {
		for _, ev := range t.events {
			if ev.side == 2 {
				idle = true
			}
		}
	}
	mode := 0
	if idle {
		mode = 1
	}
	for _, t := range ts {
		if t.kind == 2 || t.kind == 3 {
			mode = 2
		}
	}
	e := setup(mode)
	for _, rb := range []*rawBackend{e.ws, e.st} { // connections left over from a failed case
		for drained := false; !drained; {
			select {
			case c := <-rb.anon:
				c.Close()
			default:
				drained = true
			}
		}
	}
	out := make(hv.L, len(ts))
	var wg sync.WaitGroup
	var accWS, accST sync.Mutex
	for i := range ts {
		wg.Add(1)
		go func(i int) {
			defer wg.Done()
			acc := &accWS
			if k := ts[i].kind; k == 1 || k == 2 || (k >= 4 && k <= 6) {
				acc = &accST
			}
			out[i] = e.runTunnel(ts[i], acc)
		}(i)
	}
	wg.Wait()
	return out
}

// ---------------------------------------------------------------------------------------------
// generator

func payloadBytes(r *hv.Rng, n int) []byte {
	switch r.Intn(4) {
	case 0: // looks like HTTP (a proxy that parsed the stream would trip)
		s := bytes.Repeat([]byte("GET / HTTP/1.1\r\nHost: x\r\n\r\n"), n/27+1)
		return s[:n]
	case 1: // websocket-frame-like
		b := r.Bytes(n)
		if n > 1 {
			b[0], b[1] = 0x81, byte(n-2)&0x7f
		}
		return b
	default:
		return r.Bytes(n)
	}
}

func size(r *hv.Rng) int {
	switch r.Intn(10) {
	case 0:
		return 0
	case 1:
		return 1
	case 2:
		return r.Range(2, 16)
	case 3:
		return r.Range(80, 200)
	default:
		return r.Range(1, 40)
	}
}

var forceKind = -1

func genTunnel(r *hv.Rng, big bool) (hv.Val, string) {
	kind := 0
	switch c := r.Intn(12); {
	case c < 2:
		kind = 1
	case c < 4:
		kind = 4 // TLS 1.0 + CBC stream: the server splits every write 1 / n-1
	case c == 4:
		kind = 5
	case c == 5:
		kind = 6
	case c == 6:
		kind = 7
	}
	if forceKind >= 0 {
		kind = forceKind
	}
	ce, be := size(r), size(r)
	if r.Chance(1, 5) {
		ce = 0
	}
	if r.Chance(1, 5) {
		be = 0
	}
	class := []string{"ws", "stream", "stream-dynrec", "wss", "stream-tls10cbc", "stream-tls11cbc", "stream-tls12cbc", "wss-tls10cbc"}[kind]
	if big { // beyond the 4 KiB bufio buffers of the HTTP server / the backend-side reader
		if r.Bool() {
			ce = r.Range(3950, 4500)
		} else {
			be = r.Range(3950, 4500)
		}
		class += "-big"
	}
	if ce > 0 || be > 0 {
		class += "-early"
	}
	nev := r.Intn(9)
	evs := hv.L{}
	for k := 0; k < nev; k++ {
		evs = append(evs, hv.L{hv.I(r.Intn(2)), hv.B(payloadBytes(r, size(r))), hv.I(r.Intn(2))})
	}
	return hv.L{hv.I(kind), hv.B(payloadBytes(r, ce)), hv.B(payloadBytes(r, be)), evs, hv.I(r.Intn(2)), hv.I(r.Intn(2))}, class
}

func gen(r *hv.Rng, i int, tier string) (string, hv.Val) {
	if i == 0 {
		return "triv-empty-ws", hv.L{hv.L{hv.I(0), hv.B{}, hv.B{}, hv.L{}, hv.I(0), hv.I(0)}}
	}
	idleEvery := 20 // quick: cases 5, 25, 45; thorough: one in 12
	if tier == "thorough" {
		idleEvery = 12
	}
	if i%idleEvery == 5 {
		// idle tunnel: early bytes, a chunk each way, silence for > 1.5 x ClientReadTimeout, then chunks both ways
		ts := hv.L{}
		for k := 0; k < 2; k++ {
			kind := (i/idleEvery + k) % 2
			evs := hv.L{hv.L{hv.I(0), hv.B(payloadBytes(r, size(r))), hv.I(1)}, hv.L{hv.I(1), hv.B(payloadBytes(r, size(r))), hv.I(1)},
				hv.L{hv.I(2), hv.B{}, hv.I(0)},
				hv.L{hv.I(r.Intn(2)), hv.B(payloadBytes(r, 1+size(r))), hv.I(1)}, hv.L{hv.I(0), hv.B(payloadBytes(r, 1+size(r))), hv.I(1)},
				hv.L{hv.I(1), hv.B(payloadBytes(r, 1+size(r))), hv.I(r.Intn(2))}}
			if r.Chance(1, 3) {
				evs = append(evs, hv.L{hv.I(2), hv.B{}, hv.I(0)}, hv.L{hv.I(0), hv.B(payloadBytes(r, 1+size(r))), hv.I(1)})
			}
			ts = append(ts, hv.L{hv.I(kind), hv.B(payloadBytes(r, size(r))), hv.B(payloadBytes(r, size(r))), evs, hv.I(r.Intn(2)), hv.I(r.Intn(2))})
		}
		return "idle-ws-stream", ts
	}
	if i%24 == 9 {
		// bulk through a DynamicRecord stream tunnel (block-scaled): more than 1 MB one way in 256 KiB writes, then without
		// a pause further writes of 32 KiB (above the 16 KiB record limit) and traffic the other way
		blocks := func(n int) hv.B {
			b := make([]byte, n)
			for k := range b {
				b[k] = byte(1 + r.Intn(250))
			}
			return hv.B(b)
		}
		heavy, light := 1, 0 // heavy side sends the megabyte
		if (i/24)%2 == 1 {
			heavy, light = 0, 1
		}
		evs := hv.L{}
		for k := 0; k < 5; k++ {
			evs = append(evs, hv.L{hv.I(heavy), blocks(64), hv.I(0)})
		}
		evs = append(evs, hv.L{hv.I(heavy), blocks(8), hv.I(1)}, hv.L{hv.I(heavy), blocks(8), hv.I(r.Intn(2))},
			hv.L{hv.I(light), blocks(1 + r.Intn(3)), hv.I(1)}, hv.L{hv.I(heavy), blocks(8), hv.I(1)}, hv.L{hv.I(light), blocks(8), hv.I(1)})
		ts := hv.L{hv.L{hv.I(2), blocks(r.Intn(3)), blocks(r.Intn(3)), evs, hv.I(r.Intn(2)), hv.I(r.Intn(2))}}
		forceKind = 3 // plus a wss tunnel on the same DynamicRecord server
		t2, _ := genTunnel(r, false)
		forceKind = -1
		ts = append(ts, t2)
		return "bulk-dynrec-stream", ts
	}
	if i%41 == 7 {
		bad := []hv.Val{hv.L{}, hv.I(1), hv.L{hv.L{hv.I(4), hv.B{}, hv.B{}, hv.L{}, hv.I(0), hv.I(0)}},
			hv.L{hv.L{hv.I(0), hv.B{}, hv.B{}, hv.L{hv.L{hv.I(3), hv.B{1}, hv.I(0)}}, hv.I(0), hv.I(0)}}}
		return "triv-malformed", bad[r.Intn(len(bad))]
	}
	n := r.Range(2, 3)
	big := i%48 == 3
	if big {
		n = 1
	}
	ts := hv.L{}
	class := ""
	for k := 0; k < n; k++ {
		t, c := genTunnel(r, big)
		ts = append(ts, t)
		if k == 0 {
			class = c
		}
	}
	return class, ts
}

func main() {
	hv.Main(&hv.Spec{Prop: "C47", Gen: gen, Impl: impl, NQuick: 48, NThorough: 4000})
	e2e.RemoveAll()
	os.Stdout.Sync()
}
