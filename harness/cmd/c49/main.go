// C49: rewrite / header / redirect actions vs model Actions.v.
// input : [1 cmd:B params:LB [host path rawquery]]                mod_rewrite: rule file with one action loaded by
//                                                                 ReWriteConfLoad, run by ReqReWrite
//         [2 cmd:B params:LB reqhdr rsphdr vars]                  mod_header: ActionFileCheck+actionConvert+HeaderActionsDo;
//                                                                 vars = [[name value]...] = VariableHandlers[name](req) for the
//                                                                 %names in the value (computed by gen with the same request)
//                                                                 hdr = [[key [values]] ...] with canonical, distinct keys
//         [3 cmd:B params:LB [host path rawquery]]                mod_redirect: ActionFileListCheck+redirectActionsDo
//         [4 cmd:B params:LB [host path rawquery] reqhdr]         bfe_basic/action: json.Unmarshal into action.Action
//                                                                 (UnmarshalJSON -> ActionFileCheck) + Action.Do
//         [6 ops]  mod_rewrite reload history on a fresh module: op = [0 [[product rules]...]] reload via loadConfData |
//                  [1 product [host path rawquery]] request via rewriteHandler; output = one observation per op
//         [8 ops vars]  mod_header reload history: op = [0 [[product [[match last [[cmd params]...]]...]]...]] |
//                  [1 product reqhdr rsphdr]; output per op: [1] | Err 1 | [reqhdr rsphdr]
//         [7 ops]  mod_redirect reload history: op = [0 [[product [[match [[cmd params]...] status]...]]...]] | [1 product url];
//                  output per op: [1] | Err 1 | [0] | [1 location status]
//         [5 rules [host path rawquery]]                          mod_rewrite: rule file with several rules
//                                                                 rules = [[match last [[cmd params]...]]...]
// output: Err 1 (configuration rejected) | [host path rawquery cache] (cache = [] if req.Query is nil else [map]) | [reqhdr rsphdr] (sorted by key) | [url]
package main

import (
	"encoding/json"
	"fmt"
	"io/ioutil"
	"net"
	"net/url"
	"os"
	"path/filepath"
	"sort"
	"strings"

	"verif/harness/hv"

	"github.com/bfenetworks/bfe/bfe_basic"
	"github.com/bfenetworks/bfe/bfe_basic/action"
	"github.com/bfenetworks/bfe/bfe_http"
	"github.com/bfenetworks/bfe/bfe_module"
	"github.com/bfenetworks/bfe/bfe_modules/mod_header"
	"github.com/bfenetworks/bfe/bfe_modules/mod_redirect"
	"github.com/bfenetworks/bfe/bfe_modules/mod_rewrite"
	"github.com/bfenetworks/bfe/bfe_tls"
)

var tmpDir string

func strs(v hv.Val) []string {
	out := []string{}
	for _, x := range hv.AsList(v) {
		out = append(out, hv.AsStr(x))
	}
	return out
}

func mkReq(u hv.Val) *bfe_basic.Request {
	l := hv.AsList(u)
	req := new(bfe_basic.Request)
	req.HttpRequest = &bfe_http.Request{Method: "GET", Host: hv.AsStr(l[0]),
		URL:    &url.URL{Path: hv.AsStr(l[1]), RawQuery: hv.AsStr(l[2])},
		Header: bfe_http.Header{}}
	req.Route.Product = "p"
	return req
}

func toHeader(v hv.Val) bfe_http.Header {
	h := bfe_http.Header{}
	for _, kv := range hv.AsList(v) {
		p := hv.AsList(kv)
		h[hv.AsStr(p[0])] = strs(p[1])
	}
	return h
}

func fromHeader(h bfe_http.Header) hv.Val {
	keys := make([]string, 0, len(h))
	for k := range h {
		keys = append(keys, k)
	}
	sort.Strings(keys)
	out := hv.L{}
	for _, k := range keys {
		out = append(out, hv.L{hv.S(k), hv.LS(h[k])})
	}
	return out
}

// the request all header cases run on (the %variables read these fields)
func headerReq() *bfe_basic.Request {
	req := new(bfe_basic.Request)
	req.HttpRequest = &bfe_http.Request{Method: "GET", Host: "example.org", URL: &url.URL{Path: "/"}, Header: bfe_http.Header{}, Proto: "HTTP/1.1"}
	req.Session = &bfe_basic.Session{SessionId: "sess-1", Vip: net.IPv4(10, 1, 2, 3), Connection: pipeConn, IsSecure: true, Proto: "h2",
		TlsState: &bfe_tls.ConnectionState{JA3Raw: "771,4865-4866,0-23-65281,29-23-24,0", JA3Hash: "e7d705a3286e19ea42f587b344ee6865"}}
	req.ClientAddr = &net.TCPAddr{IP: net.IPv4(192, 0, 2, 7), Port: 4321}
	req.LogId = "log-42"
	req.Route.ClusterName = "cluster_a"
	return req
}

var pipeConn, _ = net.Pipe()

// every variable of the module's table whose handler runs on headerReq() (computed in Setup; all of them do)
var safeVars []string

func initVars() {
	names := make([]string, 0, len(mod_header.VariableHandlers))
	for n := range mod_header.VariableHandlers {
		names = append(names, n)
	}
	sort.Strings(names)
	for _, n := range names {
		func() {
			defer func() {
				if recover() != nil {
					fmt.Fprintf(os.Stderr, "c49: variable %s not usable on the harness request\n", n)
				}
			}()
			_ = mod_header.VariableHandlers[n](headerReq())
			safeVars = append(safeVars, n)
		}()
	}
}

// enumeration stream: every variable x the four documented value-taking commands x three value shapes
func genVarCase(i int) (string, hv.Val) {
	cmds := []string{"REQ_HEADER_SET", "REQ_HEADER_ADD", "RSP_HEADER_SET", "RSP_HEADER_ADD"}
	v := safeVars[(i/12)%len(safeVars)]
	cmd := cmds[i%4]
	val := []string{"%" + v, "id=%" + v + "; x", "%" + v + "%" + v}[(i/4)%3]
	return "varstream/" + cmd, hv.L{hv.I(2), hv.S(cmd), hv.LS([]string{"X-A", val}), hv.L{}, hv.L{}, varsFor(val)}
}

// oracle rows for the %names occurring in v (longest known name at each position, as splitParam cuts them)
func varsFor(v string) hv.Val {
	out := hv.L{}
	seen := map[string]bool{}
	for i := 0; i < len(v); i++ {
		if v[i] != '%' {
			continue
		}
		j := i + 1
		for j < len(v) && strings.IndexByte("abcdefghijklmnopqrstuvwxyz0123456789_", v[j]) >= 0 {
			j++
		}
		name := v[i+1 : j]
		if h, ok := mod_header.VariableHandlers[name]; ok && !seen[name] {
			seen[name] = true
			out = append(out, hv.L{hv.S(name), hv.S(h(headerReq()))})
		}
	}
	return out
}

// Host, path, raw query and the parsed query cached on the request
func stateVal(req *bfe_basic.Request) hv.Val {
	cache := hv.L{}
	if req.Query != nil {
		cache = hv.L{fromHeader(bfe_http.Header(req.Query))}
	}
	return hv.L{hv.S(req.HttpRequest.Host), hv.S(req.HttpRequest.URL.Path), hv.S(req.HttpRequest.URL.RawQuery), cache}
}

type actJSON struct {
	Cmd    string
	Params []string
}
type ruleJSON struct {
	Cond    string
	Actions []actJSON
	Last    bool
}

func rulesJSON(v hv.Val) []ruleJSON {
	rules := []ruleJSON{}
	for k, rv := range hv.AsList(v) {
		r := hv.AsList(rv)
		cond := []string{"default_t()", "default_t() && !(!default_t())"}[k%2]
		if !hv.AsBool(r[0]) {
			cond = []string{"!default_t()", "default_t() && !default_t()"}[k%2]
		}
		acts := []actJSON{}
		for _, av := range hv.AsList(r[2]) {
			a := hv.AsList(av)
			acts = append(acts, actJSON{hv.AsStr(a[0]), strs(a[1])})
		}
		rules = append(rules, ruleJSON{Cond: cond, Actions: acts, Last: hv.AsBool(r[1])})
	}
	return rules
}

var loadSeq int

func runHistory(ops hv.L) hv.Val {
	mod_rewrite.VerifRewriteResetC49()
	out := hv.L{}
	for _, opv := range ops {
		op := hv.AsList(opv)
		if hv.AsInt(op[0]) == 1 {
			req := mkReq(op[2])
			req.Route.Product = hv.AsStr(op[1])
			mod_rewrite.VerifRewriteRequestC49(req)
			out = append(out, stateVal(req))
			continue
		}
		loadSeq++
		cfg := map[string][]ruleJSON{}
		for _, pr := range hv.AsList(op[1]) {
			p := hv.AsList(pr)
			cfg[hv.AsStr(p[0])] = rulesJSON(p[1])
		}
		data, err := json.Marshal(map[string]interface{}{"Version": fmt.Sprintf("v%d", loadSeq), "Config": cfg})
		if err != nil {
			return hv.Err(7)
		}
		fn := filepath.Join(tmpDir, fmt.Sprintf("rewrite-%d.data", os.Getpid()))
		if err := ioutil.WriteFile(fn, data, 0644); err != nil {
			return hv.Err(8)
		}
		if err := mod_rewrite.VerifRewriteReloadC49(fn); err != nil {
			out = append(out, hv.Err(1))
		} else {
			out = append(out, hv.L{hv.I(1)})
		}
	}
	return out
}

type rdRuleJSON struct {
	Cond    string
	Actions []actJSON
	Status  int
}

func runRedirectHistory(ops hv.L) hv.Val {
	mod_redirect.VerifRedirectResetC49()
	out := hv.L{}
	for _, opv := range ops {
		op := hv.AsList(opv)
		if hv.AsInt(op[0]) == 1 {
			req := mkReq(op[2])
			req.Route.Product = hv.AsStr(op[1])
			ret := mod_redirect.VerifRedirectRequestC49(req)
			switch ret {
			case bfe_module.BfeHandlerGoOn:
				out = append(out, hv.L{hv.I(0)})
			case bfe_module.BfeHandlerRedirect:
				out = append(out, hv.L{hv.I(1), hv.S(req.Redirect.Url), hv.I(req.Redirect.Code)})
			default:
				out = append(out, hv.L{hv.I(2)})
			}
			continue
		}
		loadSeq++
		cfg := map[string][]rdRuleJSON{}
		for _, pr := range hv.AsList(op[1]) {
			p := hv.AsList(pr)
			rules := []rdRuleJSON{}
			for k, rv := range hv.AsList(p[1]) {
				r := hv.AsList(rv)
				cond := []string{"default_t()", "default_t() && !(!default_t())"}[k%2]
				if !hv.AsBool(r[0]) {
					cond = []string{"!default_t()", "default_t() && !default_t()"}[k%2]
				}
				acts := []actJSON{}
				for _, av := range hv.AsList(r[1]) {
					a := hv.AsList(av)
					acts = append(acts, actJSON{hv.AsStr(a[0]), strs(a[1])})
				}
				rules = append(rules, rdRuleJSON{Cond: cond, Actions: acts, Status: int(hv.AsInt(r[2]))})
			}
			cfg[hv.AsStr(p[0])] = rules
		}
		data, err := json.Marshal(map[string]interface{}{"Version": fmt.Sprintf("v%d", loadSeq), "Config": cfg})
		if err != nil {
			return hv.Err(7)
		}
		fn := filepath.Join(tmpDir, fmt.Sprintf("redirect-%d.data", os.Getpid()))
		if err := ioutil.WriteFile(fn, data, 0644); err != nil {
			return hv.Err(8)
		}
		if err := mod_redirect.VerifRedirectReloadC49(fn); err != nil {
			out = append(out, hv.Err(1))
		} else {
			out = append(out, hv.L{hv.I(1)})
		}
	}
	return out
}

func runHeaderHistory(ops hv.L) hv.Val {
	mod_header.VerifHeaderResetC49()
	out := hv.L{}
	for _, opv := range ops {
		op := hv.AsList(opv)
		if hv.AsInt(op[0]) == 1 {
			req := headerReq()
			req.Route.Product = hv.AsStr(op[1])
			req.HttpRequest.Header = toHeader(op[2])
			req.HttpResponse = &bfe_http.Response{StatusCode: 200, Header: toHeader(op[3])}
			mod_header.VerifHeaderRequestC49(req)
			out = append(out, hv.L{fromHeader(req.HttpRequest.Header), fromHeader(req.HttpResponse.Header)})
			continue
		}
		loadSeq++
		cfg := map[string][]ruleJSON{}
		for _, pr := range hv.AsList(op[1]) {
			p := hv.AsList(pr)
			cfg[hv.AsStr(p[0])] = rulesJSON(p[1])
		}
		data, err := json.Marshal(map[string]interface{}{"Version": fmt.Sprintf("v%d", loadSeq), "Config": cfg})
		if err != nil {
			return hv.Err(7)
		}
		fn := filepath.Join(tmpDir, fmt.Sprintf("header-%d.data", os.Getpid()))
		if err := ioutil.WriteFile(fn, data, 0644); err != nil {
			return hv.Err(8)
		}
		if err := mod_header.VerifHeaderReloadC49(fn); err != nil {
			out = append(out, hv.Err(1))
		} else {
			out = append(out, hv.L{hv.I(1)})
		}
	}
	return out
}

func runRewrite(rules []ruleJSON, u hv.Val) hv.Val {
	conf := map[string]interface{}{"Version": "v1", "Config": map[string][]ruleJSON{"p": rules}}
	data, err := json.Marshal(conf)
	if err != nil {
		return hv.Err(7)
	}
	fn := filepath.Join(tmpDir, fmt.Sprintf("rewrite-%d.data", os.Getpid()))
	if err := ioutil.WriteFile(fn, data, 0644); err != nil {
		return hv.Err(8)
	}
	rc, err := mod_rewrite.ReWriteConfLoad(fn)
	if err != nil {
		return hv.Err(1)
	}
	req := mkReq(u)
	mod_rewrite.ReqReWrite(req, rc.Config["p"])
	return stateVal(req)
}

func impl(in hv.Val) hv.Val {
	top := hv.AsList(in)
	op := hv.AsInt(top[0])
	if op == 6 {
		return runHistory(hv.AsList(top[1]))
	}
	if op == 7 {
		return runRedirectHistory(hv.AsList(top[1]))
	}
	if op == 8 {
		return runHeaderHistory(hv.AsList(top[1]))
	}
	if op == 5 {
		return runRewrite(rulesJSON(top[1]), top[2])
	}
	cmd := hv.AsStr(top[1])
	params := strs(top[2])
	switch op {
	case 1:
		return runRewrite([]ruleJSON{{Cond: "default_t()", Actions: []actJSON{{cmd, params}}, Last: true}}, top[3])
	case 2:
		req := headerReq()
		req.HttpRequest.Header = toHeader(top[3])
		req.HttpResponse = &bfe_http.Response{StatusCode: 200, Header: toHeader(top[4])}
		if err := mod_header.VerifHeaderActionC49(cmd, params, req); err != nil {
			return hv.Err(1)
		}
		return hv.L{fromHeader(req.HttpRequest.Header), fromHeader(req.HttpResponse.Header)}
	case 4:
		data, err := json.Marshal(map[string]interface{}{"Cmd": cmd, "Params": params})
		if err != nil {
			return hv.Err(7)
		}
		var ac action.Action
		if err := json.Unmarshal(data, &ac); err != nil {
			return hv.Err(1)
		}
		req := mkReq(top[3])
		req.HttpRequest.Header = toHeader(top[4])
		if err := ac.Do(req); err != nil {
			return hv.Err(6)
		}
		return hv.L{stateVal(req), fromHeader(req.HttpRequest.Header)}
	case 3:
		req := mkReq(top[3])
		u, err := mod_redirect.VerifRedirectActionC49(cmd, params, req)
		if err != nil {
			return hv.Err(1)
		}
		return hv.L{hv.S(u)}
	}
	return hv.Err(9)
}

// ---------------- generators
var qkeys = []string{"a", "b", "ab", "a1", "wd", "A", "a b", "k"}

func encKey(r *hv.Rng, k string) string {
	if k == "" {
		return ""
	}
	switch r.Intn(8) {
	case 0: // percent-encode everything
		s := ""
		for i := 0; i < len(k); i++ {
			s += fmt.Sprintf("%%%02x", k[i])
		}
		return s
	case 1: // percent-encode one char, upper hex
		i := r.Intn(len(k))
		return k[:i] + fmt.Sprintf("%%%02X", k[i]) + k[i+1:]
	default:
		return strings.Replace(k, " ", r.Pick([]string{"+", "%20"}), -1)
	}
}

func genQuery(r *hv.Rng, focus []string) string {
	n := r.Intn(6)
	if r.Chance(1, 12) {
		return ""
	}
	var segs []string
	for i := 0; i < n; i++ {
		k := r.Pick(qkeys)
		if len(focus) > 0 && r.Bool() {
			k = r.Pick(focus)
		}
		switch r.Intn(14) {
		case 0:
			segs = append(segs, encKey(r, k)) // bare key
		case 1:
			segs = append(segs, encKey(r, k)+"=") // empty value
		case 2:
			segs = append(segs, "") // empty parameter
		case 3:
			segs = append(segs, r.Pick([]string{"%zz=1", "a=%4", "x;y=1", "=v", "a=b=c", "%", "a%3Db=1", "a%26b=2"}))
		case 4, 5: // the key is fine but url.ParseQuery drops the parameter (bad escape in the value, ';')
			segs = append(segs, encKey(r, k)+"="+r.Pick([]string{"%zz", "s3cret;x", "%4", "a;b;c", "%"}))
		default:
			segs = append(segs, encKey(r, k)+"="+r.Pick([]string{"1", "2", "x+y", "%41", "v", "a", "http%3A%2F%2Fe.org%2Fp%3Fq%3D1", "x=y", "=", "a=1=2"}))
		}
	}
	return strings.Join(segs, "&")
}

var hosts = []string{"www.example.com", "example.com", "a.b.example.org", "example.org:8080", "com", "", "www.cnblogs.cn", "comcast.com",
	"cdn.example.com.example.com", ".com.com"}
var paths = []string{"/", "", "/a", "/a/b", "/a/b/c", "/service/shortcut/x", "/x.example.com/y/z", "/x.example.com", "//a", "a/b/c", "/rewrite/", "/a%20b"}

func genURL(r *hv.Rng, focus []string) hv.Val {
	return hv.L{hv.S(r.Pick(hosts)), hv.S(r.Pick(paths)), hv.S(genQuery(r, focus))}
}

func caseMix(r *hv.Rng, s string) string {
	switch r.Intn(12) {
	case 0:
		return strings.ToLower(s)
	case 1:
		return strings.Title(strings.ToLower(s))
	}
	return s
}

var rewriteCmds = []string{"HOST_SET", "HOST_SET_FROM_PATH_PREFIX", "HOST_SUFFIX_REPLACE", "PATH_SET", "PATH_PREFIX_ADD",
	"PATH_PREFIX_TRIM", "QUERY_ADD", "QUERY_DEL", "QUERY_DEL_ALL_EXCEPT", "QUERY_RENAME"}
var otherCmds = []string{"REQ_HEADER_SET", "REQ_HEADER_ADD", "REQ_HEADER_DEL", "CLOSE", "PASS", "FINISH", "QUERY_SET", "HOST_DEL", "",
	"URL_SET", "RSP_HEADER_SET", "QUERY_DEL "}

func genRewrite(r *hv.Rng) (string, hv.Val) {
	cmd := r.Pick(rewriteCmds)
	var params []string
	var focus []string
	switch cmd {
	case "HOST_SET":
		params = []string{r.Pick([]string{"m.example.com", "x", "example.org:80"})}
	case "HOST_SET_FROM_PATH_PREFIX":
	case "HOST_SUFFIX_REPLACE":
		params = []string{r.Pick([]string{".com", "example.com", ".org", "www.example.com", "x", ":8080", "m", ".cn", "com", ".example.com"}), r.Pick([]string{".cn", "example.net", "y"})}
	case "PATH_SET":
		params = []string{r.Pick([]string{"/new", "new", "/"})}
	case "PATH_PREFIX_ADD":
		params = []string{r.Pick([]string{"/bfe/", "/bfe", "bfe", "bfe/", "/"})}
	case "PATH_PREFIX_TRIM":
		params = []string{r.Pick([]string{"/a", "/a/", "/service/shortcut", "/", "a", "/a/b/c", "/zz", "/rewrite"})}
	case "QUERY_ADD":
		params = []string{r.Pick(qkeys), r.Pick([]string{"1", "v w", "x&y=z", "%41"})}
		focus = params[:1]
	case "QUERY_RENAME":
		params = []string{r.Pick(qkeys), r.Pick([]string{"new", "b", "n w"})}
		focus = params[:1]
	case "QUERY_DEL", "QUERY_DEL_ALL_EXCEPT":
		n := r.Intn(4)
		for i := 0; i < n; i++ {
			params = append(params, r.Pick(qkeys))
		}
		if r.Chance(1, 15) {
			params = append(params, r.Pick([]string{"a=b", "a&b", "%61", "a+b", "=", "&"}))
		}
		focus = params
	}
	class := cmd
	switch r.Intn(16) {
	case 0: // wrong parameter count
		if len(params) > 0 && r.Bool() {
			params = params[:len(params)-1]
		} else {
			params = append(params, "extra")
		}
		class = "arity/" + cmd
	case 1:
		if len(params) > 0 {
			params[r.Intn(len(params))] = ""
			class = "emptyparam/" + cmd
		}
	case 2:
		cmd = r.Pick(otherCmds)
		switch cmd {
		case "REQ_HEADER_SET", "REQ_HEADER_ADD":
			params = []string{r.Pick([]string{"X-Bfe-A", "x-bfe-b", "X-Other"}), "v"}
		case "REQ_HEADER_DEL":
			params = []string{"X-A"}
		case "CLOSE", "PASS", "FINISH":
			params = nil
		}
		class = "notallowed"
	}
	cmd = caseMix(r, cmd)
	if params == nil {
		params = []string{}
	}
	return class, hv.L{hv.I(1), hv.S(cmd), hv.LS(params), genURL(r, focus)}
}

var hkeys = []string{"X-Bfe-Log-Id", "X-Proxied-By", "Referer", "Location", "X-A", "Set-Cookie"}
var hkeyForms = []string{"x-bfe-log-id", "X-PROXIED-BY", "referer", "location", "x-a", "Set-Cookie", "X-New", "x-new-hdr", "bad key", "X_Under", "a--b-"}

func genHdr(r *hv.Rng) hv.Val {
	out := hv.L{}
	perm := []int{0, 1, 2, 3, 4, 5}
	for i := range perm {
		j := i + r.Intn(len(perm)-i)
		perm[i], perm[j] = perm[j], perm[i]
	}
	n := r.Intn(4)
	ks := []string{}
	for i := 0; i < n; i++ {
		ks = append(ks, hkeys[perm[i]])
	}
	sort.Strings(ks)
	for _, k := range ks {
		vs := []string{r.Pick([]string{"v1", "bfe", "http://a/", "https://b.example/x?y=http://z", "", "httpx://c", "http:/d", "HTTP://e"})}
		if r.Chance(1, 4) {
			vs = append(vs, "v2")
		}
		out = append(out, hv.L{hv.S(k), hv.LS(vs)})
	}
	return out
}

func genHeader(r *hv.Rng) (string, hv.Val) {
	cmd := r.Pick([]string{"REQ_HEADER_SET", "REQ_HEADER_ADD", "REQ_HEADER_DEL", "RSP_HEADER_SET", "RSP_HEADER_ADD", "RSP_HEADER_DEL",
		"REQ_HEADER_RENAME", "RSP_HEADER_RENAME", "REQ_HEADER_MOD", "RSP_HEADER_MOD"})
	params := []string{r.Pick(hkeyForms)}
	switch {
	case strings.HasSuffix(cmd, "DEL"):
	case strings.HasSuffix(cmd, "RENAME"):
		params = append(params, r.Pick(hkeyForms))
	case strings.HasSuffix(cmd, "MOD"):
		params = []string{r.Pick([]string{"SCHEME_SET", "scheme_set", "Scheme_Set", "SCHEME_DEL"}),
			r.Pick([]string{"Referer", "referer", "LOCATION", "location", "X-A"}), r.Pick([]string{"http", "https", "HTTPS", "ftp"})}
	default:
		v := r.Pick([]string{"bfe", "v 1", "a,b", "x"})
		if r.Chance(1, 2) { // value templates: text, %variable, %%escape, unknown / upper-case / cut names, lone %
			v = ""
			n := r.Range(1, 4)
			for j := 0; j < n; j++ {
				switch r.Intn(10) {
				case 0, 1, 2:
					v += "%" + r.Pick(safeVars)
				case 3:
					v += r.Pick([]string{"%%", "%%bfe_vip", "%%x%%y"})
				case 4:
					v += r.Pick([]string{"%", "%nosuch", "%BFE_VIP", "%bfe_vipx", "%bfe_vi", "%Bfe_log_id", "%bfe_vip%"})
				case 5:
					v += "%" + r.Pick(safeVars) + r.Pick([]string{"-", ";", "X", " ", "="})
				default:
					v += r.Pick([]string{"id=", "; max-age=3600", "a", "-", "__bsi=", "X"})
				}
			}
			cmd2 := cmd
			_ = cmd2
		}
		params = append(params, v)
	}
	class := cmd
	switch r.Intn(14) {
	case 0:
		if r.Bool() {
			params = params[:len(params)-1]
		} else {
			params = append(params, "extra")
		}
		class = "arity/" + cmd
	case 1:
		params[r.Intn(len(params))] = ""
		class = "emptyparam/" + cmd
	case 2:
		cmd = r.Pick([]string{"req_header_set", "REQ_HEADER", "HEADER_SET", "HOST_SET", "RSP_HEADER_SETX", ""})
		class = "unknown"
	}
	vars := hv.Val(hv.L{})
	if len(params) >= 2 {
		vars = varsFor(params[1])
		if strings.Contains(params[1], "%") && class == cmd {
			class = "template/" + cmd
		}
	}
	reqH, rspH := genHdr(r), genHdr(r)
	if class == cmd && (strings.HasSuffix(cmd, "RENAME") || strings.HasSuffix(cmd, "DEL") || strings.HasSuffix(cmd, "ADD")) && r.Chance(1, 2) {
		// aim at fields that exist: RENAME onto / from present fields, DEL / ADD of present fields
		h := hv.AsList(reqH)
		if strings.HasPrefix(cmd, "RSP") {
			h = hv.AsList(rspH)
		}
		if len(h) > 0 {
			for j := range params {
				if j == 1 && !strings.HasSuffix(cmd, "RENAME") {
					break
				}
				k := hv.AsStr(hv.AsList(h[r.Intn(len(h))])[0])
				if r.Bool() {
					k = strings.ToLower(k)
				}
				params[j] = k
			}
			class = "present/" + cmd
		}
	}
	return class, hv.L{hv.I(2), hv.S(cmd), hv.LS(params), reqH, rspH, vars}
}

var safePaths = []string{"/", "", "/a", "/a/b.html", "/redirect/x_y-z~1", "/a/b/", "*", "/a b", "/a?b", "/%41", "/a/\xe4\xb8\xad", "/$&+,:;=@",
	"/<x>\"y\"", "/a#b", "//x", "/\x00\x7f", "**"}

func genRedirect(r *hv.Rng) (string, hv.Val) {
	cmd := r.Pick([]string{"URL_SET", "URL_FROM_QUERY", "URL_PREFIX_ADD", "SCHEME_SET"})
	var params []string
	var focus []string
	switch cmd {
	case "URL_SET":
		params = []string{r.Pick([]string{"https://example.org", "/x", "http://a/b?c=d"})}
	case "URL_FROM_QUERY":
		params = []string{r.Pick(qkeys)}
		focus = params
	case "URL_PREFIX_ADD":
		params = []string{r.Pick([]string{"https://m.example.org", "/link", "x"})}
	case "SCHEME_SET":
		params = []string{r.Pick([]string{"https", "http", "HTTPS", "Http", "ftp", "httpss"})}
	}
	class := cmd
	switch r.Intn(14) {
	case 0:
		if r.Bool() {
			params = []string{}
		} else {
			params = append(params, "extra")
		}
		class = "arity/" + cmd
	case 1:
		cmd = r.Pick([]string{"url_set", "URL_DEL", "HOST_SET", ""})
		class = "unknown"
	}
	u := hv.L{hv.S(r.Pick(hosts)), hv.S(r.Pick(safePaths)), hv.S(genQuery(r, focus))}
	return class, hv.L{hv.I(3), hv.S(cmd), hv.LS(params), u}
}

// bfe_basic/action used directly: every command of the package, header commands with and without the X-BFE- prefix
func genDirect(r *hv.Rng) (string, hv.Val) {
	if r.Bool() {
		c, v := genRewrite(r)
		l := v.(hv.L)
		return c, hv.L{hv.I(4), l[1], l[2], l[3], genHdr(r)}
	}
	cmd := r.Pick([]string{"REQ_HEADER_SET", "REQ_HEADER_ADD", "REQ_HEADER_DEL", "CLOSE", "PASS", "FINISH", "RSP_HEADER_SET"})
	var params []string
	switch cmd {
	case "REQ_HEADER_SET", "REQ_HEADER_ADD":
		params = []string{r.Pick([]string{"X-Bfe-Log-Id", "x-bfe-log-id", "X-BFE-New", "X-Bfe", "X-BFE-", "X-Other", "Referer", "x-bfe bad"}), r.Pick([]string{"v", "a b"})}
	case "REQ_HEADER_DEL":
		params = []string{r.Pick(hkeyForms)}
	default:
		params = []string{}
	}
	class := cmd
	switch r.Intn(12) {
	case 0:
		params = append(params, "extra")
		class = "arity/" + cmd
	case 1:
		if len(params) > 0 {
			params[r.Intn(len(params))] = ""
			class = "emptyparam/" + cmd
		}
	}
	return class, hv.L{hv.I(4), hv.S(caseMix(r, cmd)), hv.LS(params), genURL(r, nil), genHdr(r)}
}

// rule files with 1-3 rules of 0-4 actions: sequences exercise the interplay of the raw query and the cached
// parsed query (ADD then DEL/RENAME of the same key, RENAME onto an existing key, DEL then ADD, ...), Last and
// non-matching rules
func genRules(r *hv.Rng) (string, hv.Val) {
	nr := r.Range(1, 3)
	keys := []string{r.Pick(qkeys), r.Pick(qkeys), "n"}
	rules := hv.L{}
	bad := false
	total := 0
	for k := 0; k < nr; k++ {
		na := r.Range(0, 4)
		if k == 0 && na == 0 {
			na = 3
		}
		acts := hv.L{}
		for j := 0; j < na; j++ {
			var cmd string
			var params []string
			if r.Chance(3, 4) { // query actions on a small key set
				cmd = r.Pick([]string{"QUERY_ADD", "QUERY_DEL", "QUERY_RENAME", "QUERY_DEL_ALL_EXCEPT", "QUERY_ADD", "QUERY_RENAME"})
				switch cmd {
				case "QUERY_ADD":
					params = []string{r.Pick(keys), r.Pick([]string{"1", "v", "x+y"})}
				case "QUERY_RENAME":
					params = []string{r.Pick(keys), r.Pick(keys)}
				default:
					for n := r.Range(1, 2); n > 0; n-- {
						params = append(params, r.Pick(keys))
					}
				}
			} else {
				_, v := genRewrite(r)
				l := v.(hv.L)
				cmd = hv.AsStr(l[1])
				params = strs(l[2])
				if strings.ToUpper(cmd) != cmd || !contains(rewriteCmds, cmd) || !arityOK(cmd, params) {
					bad = true
				}
			}
			acts = append(acts, hv.L{hv.S(cmd), hv.LS(params)})
			total++
		}
		rules = append(rules, hv.L{hv.Bool(r.Chance(4, 5)), hv.Bool(r.Chance(1, 3)), acts})
	}
	class := fmt.Sprintf("seq%d", total)
	if total > 4 {
		class = "seq5+"
	}
	if bad {
		class = "seq-maybe-rejected"
	}
	return class, hv.L{hv.I(5), rules, genURL(r, keys[:2])}
}

func contains(xs []string, x string) bool {
	for _, y := range xs {
		if x == y {
			return true
		}
	}
	return false
}

// label helper only (not a specification): would a loader that follows the documentation accept this?
func arityOK(cmd string, params []string) bool {
	for _, p := range params {
		if p == "" {
			return false
		}
	}
	switch cmd {
	case "HOST_SET_FROM_PATH_PREFIX":
		return len(params) == 0
	case "HOST_SET", "PATH_SET", "PATH_PREFIX_ADD", "PATH_PREFIX_TRIM":
		return len(params) == 1
	case "HOST_SUFFIX_REPLACE", "QUERY_ADD", "QUERY_RENAME":
		return len(params) == 2
	}
	return true
}

var rwProducts = []string{"pa", "pb", "pc"}

// reload histories: load v1 -> requests -> reload (product dropped / emptied / changed / invalid file / unchanged) -> requests
func genHistory(r *hv.Rng) (string, hv.Val) {
	mkRules := func() hv.Val {
		_, v := genRules(r)
		return v.(hv.L)[1]
	}
	simple := func() hv.Val { // one valid, visible action
		return hv.L{hv.L{hv.I(1), hv.I(1), hv.L{hv.L{hv.S("PATH_PREFIX_ADD"), hv.LS([]string{r.Pick([]string{"/v1", "/v2", "/x/"})})}}}}
	}
	genConf := func(must string, mustRules hv.Val, drop string) hv.Val {
		conf := hv.L{}
		for _, p := range rwProducts {
			switch {
			case p == drop:
			case p == must:
				conf = append(conf, hv.L{hv.S(p), mustRules})
			case r.Bool():
				conf = append(conf, hv.L{hv.S(p), simple()})
			}
		}
		return conf
	}
	prod := r.Pick(rwProducts)
	u := genURL(r, []string{"a", "b"})
	ops := hv.L{}
	if r.Chance(1, 8) {
		ops = append(ops, hv.L{hv.I(1), hv.S(prod), u})
	}
	first := simple()
	if r.Chance(1, 3) {
		first = mkRules()
	}
	ops = append(ops, hv.L{hv.I(0), genConf(prod, first, "")}, hv.L{hv.I(1), hv.S(prod), u})
	class := "history"
	for n := r.Range(1, 2); n > 0; n-- {
		var conf hv.Val
		switch r.Intn(6) {
		case 0, 1:
			conf = genConf("", nil, prod)
			class = "history-drop"
		case 2:
			conf = genConf(prod, hv.L{}, "")
		case 3:
			conf = genConf(prod, simple(), "")
		case 4: // invalid file: the table must stay as it was
			bad := hv.L{hv.L{hv.I(1), hv.I(1), hv.L{hv.L{hv.S(r.Pick([]string{"PATH_SET", "NO_SUCH", "REQ_HEADER_DEL"})), hv.LS([]string{})}}}}
			conf = genConf(r.Pick(rwProducts), bad, "")
			class = "history-badfile"
		default:
			conf = genConf(prod, first, "")
		}
		ops = append(ops, hv.L{hv.I(0), conf}, hv.L{hv.I(1), hv.S(prod), u})
		if r.Bool() {
			ops = append(ops, hv.L{hv.I(1), hv.S(r.Pick(rwProducts)), genURL(r, nil)})
		}
	}
	return class, hv.L{hv.I(6), ops}
}

// redirect reload histories: rules with match flags (first match decides), products dropped / emptied / changed,
// invalid files (two actions, no action, status 0, bad scheme)
func genRedirectHistory(r *hv.Rng) (string, hv.Val) {
	rule := func() hv.Val {
		_, v := genRedirect(r)
		l := v.(hv.L)
		status := []int{301, 302, 307, 301, 302, 0}[r.Intn(6)]
		acts := hv.L{hv.L{l[1], l[2]}}
		switch r.Intn(14) {
		case 0:
			acts = hv.L{}
		case 1:
			acts = append(acts, hv.L{hv.S("URL_SET"), hv.LS([]string{"/second"})})
		}
		return hv.L{hv.Bool(r.Chance(2, 3)), acts, hv.I(status)}
	}
	goodRule := func() hv.Val {
		return hv.L{hv.Bool(r.Chance(3, 4)), hv.L{hv.L{hv.S("URL_SET"), hv.LS([]string{r.Pick([]string{"https://a.example/", "/moved", "/v2"})})}}, hv.I([]int{301, 302}[r.Intn(2)])}
	}
	rulesOf := func(clean bool) hv.Val {
		rs := hv.L{}
		for n := r.Range(0, 3); n > 0; n-- {
			if clean || r.Chance(2, 3) {
				rs = append(rs, goodRule())
			} else {
				rs = append(rs, rule())
			}
		}
		return rs
	}
	genConf := func(must string, mustRules hv.Val, drop string) hv.Val {
		conf := hv.L{}
		for _, p := range rwProducts {
			switch {
			case p == drop:
			case p == must:
				conf = append(conf, hv.L{hv.S(p), mustRules})
			case r.Bool():
				conf = append(conf, hv.L{hv.S(p), rulesOf(true)})
			}
		}
		return conf
	}
	prod := r.Pick(rwProducts)
	u := hv.L{hv.S(r.Pick(hosts)), hv.S(r.Pick(safePaths)), hv.S(genQuery(r, []string{"a", "wd"}))}
	first := rulesOf(r.Chance(2, 3))
	ops := hv.L{}
	if r.Chance(1, 8) {
		ops = append(ops, hv.L{hv.I(1), hv.S(prod), u})
	}
	ops = append(ops, hv.L{hv.I(0), genConf(prod, first, "")}, hv.L{hv.I(1), hv.S(prod), u})
	class := "rd-history"
	for n := r.Range(1, 2); n > 0; n-- {
		var conf hv.Val
		switch r.Intn(5) {
		case 0, 1:
			conf = genConf("", nil, prod)
			class = "rd-history-drop"
		case 2:
			conf = genConf(prod, hv.L{}, "")
		case 3:
			conf = genConf(prod, rulesOf(false), "")
		default:
			conf = genConf(prod, first, "")
		}
		ops = append(ops, hv.L{hv.I(0), conf}, hv.L{hv.I(1), hv.S(prod), u})
		if r.Bool() {
			ops = append(ops, hv.L{hv.I(1), hv.S(r.Pick(rwProducts)), u})
		}
	}
	return class, hv.L{hv.I(7), ops}
}

// header reload histories: rules (match, Last, 1-3 actions of both sides) for "global" and products
func genHeaderHistory(r *hv.Rng) (string, hv.Val) {
	allVars := ""
	action := func(clean bool) hv.Val {
		for {
			_, v := genHeader(r)
			l := v.(hv.L)
			cmd, params := hv.AsStr(l[1]), strs(l[2])
			if clean && (len(params) == 0 || params[0] == "" || !strings.Contains(cmd, "_HEADER_") || strings.HasSuffix(cmd, "MOD")) {
				continue
			}
			if len(params) >= 2 {
				allVars += " " + params[1]
			}
			return hv.L{l[1], l[2]}
		}
	}
	rulesOf := func(clean bool) hv.Val {
		rs := hv.L{}
		for n := r.Range(1, 3); n > 0; n-- {
			acts := hv.L{}
			for k := r.Range(1, 3); k > 0; k-- {
				acts = append(acts, action(clean))
			}
			if !clean && r.Chance(1, 10) {
				acts = hv.L{}
			}
			rs = append(rs, hv.L{hv.Bool(r.Chance(3, 4)), hv.Bool(r.Chance(1, 3)), acts})
		}
		return rs
	}
	prods := []string{"global", "pa", "pb"}
	genConf := func(must string, mustRules hv.Val, drop []string) hv.Val {
		conf := hv.L{}
		for _, p := range prods {
			switch {
			case contains(drop, p):
			case p == must:
				conf = append(conf, hv.L{hv.S(p), mustRules})
			case r.Chance(1, 3):
				conf = append(conf, hv.L{hv.S(p), rulesOf(true)})
			}
		}
		return conf
	}
	prod := r.Pick(prods[1:])
	rq, rs := genHdr(r), genHdr(r)
	first := rulesOf(r.Chance(3, 4))
	ops := hv.L{hv.L{hv.I(0), genConf(prod, first, nil)}, hv.L{hv.I(1), hv.S(prod), rq, rs}}
	class := "hd-history"
	for n := r.Range(1, 2); n > 0; n-- {
		var conf hv.Val
		switch r.Intn(5) {
		case 0:
			conf = genConf("", nil, []string{prod})
			class = "hd-history-drop"
		case 1:
			conf = genConf("", nil, []string{prod, "global"})
			class = "hd-history-drop"
		case 2:
			conf = genConf(prod, rulesOf(false), nil)
		case 3:
			conf = genConf("global", rulesOf(true), []string{prod})
		default:
			conf = genConf(prod, first, nil)
		}
		ops = append(ops, hv.L{hv.I(0), conf}, hv.L{hv.I(1), hv.S(prod), rq, rs})
		if r.Bool() {
			ops = append(ops, hv.L{hv.I(1), hv.S(r.Pick(prods[1:])), rq, rs})
		}
	}
	return class, hv.L{hv.I(8), ops, varsFor(allVars)}
}

func gen(r *hv.Rng, i int, tier string) (string, hv.Val) {
	if i < 12*len(safeVars) {
		return genVarCase(i)
	}
	if r.Chance(1, 12) {
		c, v := genHeaderHistory(r)
		return "header/" + c, v
	}
	if r.Chance(1, 12) {
		c, v := genRedirectHistory(r)
		return "redirect/" + c, v
	}
	if r.Chance(1, 8) {
		c, v := genHistory(r)
		return "rules/" + c, v
	}
	if r.Chance(1, 5) {
		c, v := genRules(r)
		return "rules/" + c, v
	}
	if r.Chance(1, 7) {
		c, v := genDirect(r)
		return "direct/" + c, v
	}
	switch k := r.Intn(10); {
	case k < 6:
		c, v := genRewrite(r)
		return "rewrite/" + c, v
	case k < 8:
		c, v := genHeader(r)
		return "header/" + c, v
	default:
		c, v := genRedirect(r)
		return "redirect/" + c, v
	}
}

func main() {
	hv.Main(&hv.Spec{Prop: "C49", Gen: gen, Impl: impl, NQuick: 12000, NThorough: 600000,
		Setup: func(string) {
			initVars()
			// one fixed scratch directory, one rule file per process (rewritten for every case)
			tmpDir = filepath.Join(scratchRoot(), "verif-c49")
			if err := os.MkdirAll(tmpDir, 0755); err != nil {
				panic(err)
			}
		}})
}

// rule files are rewritten for every case: prefer a memory file system
func scratchRoot() string {
	if st, err := os.Stat("/dev/shm"); err == nil && st.IsDir() {
		return "/dev/shm"
	}
	return os.TempDir()
}
