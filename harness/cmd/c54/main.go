// C54: mod_compress GzipFilter/BrotliFilter.Read and compressHandler vs model Compress.v.
// op 1: [1, codec, level, flushSize, [chunk...], p, srcerr]  => [[c per Read call...], decoded, ok, closes]
// op 2: [2, cmd, rule mode, AE, CE, hasCL, level, flushSize, body] => [CE', hasCL', wrapped, decoded, ok]
package main

import (
	"bytes"
	"strings"
	"encoding/json"
	"os"
	"errors"
	"compress/gzip"
	"io"
	"io/ioutil"
	"runtime/debug"

	"verif/harness/hv"

	"github.com/andybalholm/brotli"
	"github.com/bfenetworks/bfe/bfe_modules/mod_compress"
)

// chunkSource hands out the chunks one per Read (split when the caller's buffer is smaller); counts bytes.
type chunkSource struct {
	chunks [][]byte
	taken  int64
	fail   bool // after the chunks: an error instead of EOF
	closes int
}

var errBackend = errors.New("backend failed")

func (s *chunkSource) Read(p []byte) (int, error) {
	if len(s.chunks) == 0 {
		if s.fail {
			return 0, errBackend
		}
		return 0, io.EOF
	}
	ch := s.chunks[0]
	n := copy(p, ch)
	if n == len(ch) {
		s.chunks = s.chunks[1:]
	} else {
		s.chunks[0] = ch[n:]
	}
	s.taken += int64(n)
	return n, nil
}
func (s *chunkSource) Close() error { s.closes++; return nil }

// decode returns what decompresses (also of a truncated stream) and whether the stream ended cleanly
func decode(codec int, data []byte) ([]byte, bool) {
	switch codec {
	case 1:
		zr, err := gzip.NewReader(bytes.NewReader(data))
		if err != nil {
			return nil, false
		}
		zr.Multistream(false)
		out, err := ioutil.ReadAll(zr)
		return out, err == nil
	case 2:
		out, err := ioutil.ReadAll(brotli.NewReader(bytes.NewReader(data)))
		return out, err == nil
	}
	return data, true
}

var lastErr error

// drain reads f with buffers of size p until EOF; returns per-call source consumption and all bytes received
func drain(f io.Reader, src *chunkSource, p int) (hv.L, []byte, bool) {
	pulls := hv.L{}
	lastErr = nil
	var got []byte
	buf := make([]byte, p)
	for calls := 0; calls < 100000; calls++ {
		before := int64(0)
		if src != nil {
			before = src.taken
		}
		n, err := f.Read(buf)
		if src != nil {
			pulls = append(pulls, hv.Z(src.taken-before))
		}
		got = append(got, buf[:n]...)
		if err == io.EOF {
			return pulls, got, true
		}
		if err != nil {
			lastErr = err
			return pulls, got, false
		}
	}
	return pulls, got, false
}

func impl(in hv.Val) hv.Val {
	l := hv.AsList(in)
	switch hv.AsInt(l[0]) {
	case 1:
		codec := int(hv.AsInt(l[1]))
		src := &chunkSource{}
		for _, c := range hv.AsList(l[4]) {
			src.chunks = append(src.chunks, append([]byte(nil), hv.AsBytes(c)...))
		}
		var f io.ReadCloser
		var err error
		if codec == 0 {
			f, err = mod_compress.NewGzipFilter(src, int(hv.AsInt(l[2])), int(hv.AsInt(l[3])))
		} else {
			f, err = mod_compress.NewBrotliFilter(src, int(hv.AsInt(l[2])), int(hv.AsInt(l[3])))
		}
		if err != nil {
			return hv.Err(1)
		}
		src.fail = hv.AsInt(l[6]) != 0
		pulls, got, ok := drain(f, src, int(hv.AsInt(l[5])))
		f.Close()
		dec, ok2 := decode(codec+1, got)
		if src.fail {
			// the filter must report the backend's error instead of a clean end (whether a decoder notices the
			// truncation of the stream is the decoder's business: brotli's does not at a flush boundary)
			_ = ok2
			code := 2
			if ok {
				code = 1
			}
			if lastErr != errBackend {
				code = 3
			}
			return hv.L{pulls, hv.B(dec), hv.I(code), hv.I(src.closes)}
		}
		return hv.L{pulls, hv.B(dec), hv.Bool(ok && ok2), hv.I(src.closes)}
	case 2:
		cmd := []string{"GZIP", "BROTLI", "DEFLATE", ""}[hv.AsInt(l[1])]
		ae := hv.AsStr(l[3])
		ce := hv.AsStr(l[4])
		body := append([]byte(nil), hv.AsBytes(l[8])...)
		src := &chunkSource{chunks: [][]byte{body}}
		if len(body) == 0 {
			src.chunks = nil
		}
		ce2, cl2, wrapped, rd := mod_compress.VerifHandler(cmd, int(hv.AsInt(l[2])), int(hv.AsInt(l[6])), int(hv.AsInt(l[7])),
			ae, ae != "", ce, ce != "", hv.AsInt(l[5]) != 0, src)
		_, got, ok := drain(rd, nil, 512)
		codec := 0
		switch ce2 { // the client decodes according to what is announced
		case "gzip":
			codec = 1
		case "br":
			codec = 2
		}
		if ce2 == ce { // pre-existing encoding label of the backend: opaque bytes
			codec = 0
		}
		dec, ok2 := decode(codec, got)
		return hv.L{hv.S(ce2), hv.Bool(cl2), hv.I(wrapped), hv.B(dec), hv.Bool(ok && ok2)}
	case 3:
		ae := hv.AsStr(l[4])
		ce := hv.AsStr(l[5])
		body := append([]byte(nil), hv.AsBytes(l[7])...)
		src := &chunkSource{chunks: [][]byte{body}}
		if len(body) == 0 {
			src.chunks = nil
		}
		os.MkdirAll(scratch, 0755)
		data, _ := json.Marshal(map[string]interface{}{"Version": "v", "Config": map[string]interface{}{"p": []interface{}{
			map[string]interface{}{"Cond": "default_t()", "Action": map[string]interface{}{"Cmd": hv.AsStr(l[1]),
				"Quality": hv.AsInt(l[2]), "FlushSize": hv.AsInt(l[3])}}}}})
		path := scratch + "/compress_rule.data"
		if err := os.WriteFile(path, data, 0644); err != nil {
			panic(err)
		}
		loaded, ce2, cl2, wrapped, rd := mod_compress.VerifLoadHandler(path, ae, ae != "", ce, ce != "", hv.AsInt(l[6]) != 0, src)
		_, got, ok := drain(rd, nil, 512)
		codec := 0
		switch ce2 {
		case "gzip":
			codec = 1
		case "br":
			codec = 2
		}
		if ce2 == ce {
			codec = 0
		}
		dec, ok2 := decode(codec, got)
		return hv.L{hv.Bool(loaded), hv.S(ce2), hv.Bool(cl2), hv.I(wrapped), hv.B(dec), hv.Bool(ok && ok2)}
	}
	return hv.Err(0)
}

const scratch = "/tmp/w-mod2/c54"

func genLoad(r *hv.Rng) (string, hv.Val) {
	cmd := r.Pick([]string{"GZIP", "GZIP", "BROTLI", "BROTLI", "gzip", "Gzip", "brotli", "BR", "DEFLATE", ""})
	var q int
	switch r.Intn(2) {
	case 0: // the quality bounds of the rule's codec and their neighbours
		if strings.EqualFold(cmd, "BROTLI") {
			q = pick(r, -1, 0, 11, 12)
		} else {
			q = pick(r, -3, -2, 9, 10)
		}
	default:
		q = r.Range(0, 9)
	}
	flush := pick(r, 64, 64, 512, 4096, 63, 4097, 0, 1, 65, 4095)
	ae := r.Pick([]string{"gzip", "br", "gzip, br", "", "deflate", "GZIP"})
	ce := r.Pick([]string{"", "", "", "identity", "gzip"})
	body := genBody(r, 200)
	return "rulefile", hv.L{hv.I(3), hv.S(cmd), hv.I(q), hv.I(flush), hv.S(ae), hv.S(ce), hv.Bool(r.Chance(1, 2)), hv.B(body)}
}

func genBody(r *hv.Rng, max int) []byte {
	n := 0
	switch r.Intn(6) {
	case 0:
		n = r.Intn(3)
	case 1:
		n = r.Range(60, 70)
	default:
		n = r.Intn(max)
	}
	b := make([]byte, n)
	switch r.Intn(3) {
	case 0: // compressible
		for i := range b {
			b[i] = "abcab "[r.Intn(6)]
		}
	case 1:
		copy(b, r.Bytes(n))
	default:
		for i := range b {
			b[i] = byte(i / 7)
		}
	}
	return b
}

var aes = []string{"", "gzip", "br", "gzip", "br", "gzip, deflate, br", "br,gzip",  "gzip, br", "br, gzip", "GZIP", "Br", "deflate", "x-gzip", "gzipx", "gzip;q=0", "*",
	"identity", "deflate, gzip", "gzip,deflate", "br;q=1.0, gzip", "\tgzip", "g zip", "gzip br"}
var ces = []string{"", "", "", "", "", "", "identity", "identity", "gzip", "br", "deflate", "Identity", "compress"}

func gen(r *hv.Rng, i int, tier string) (string, hv.Val) {
	if r.Chance(1, 6) {
		return genLoad(r)
	}
	if r.Chance(3, 5) {
		codec := 0
		if r.Chance(3, 10) { // a brotli writer costs ~30 ms to set up: smaller share
			codec = 1
		}
		level := r.Range(1, 9)
		if codec == 0 && r.Chance(1, 5) {
			level = pick(r, -2, -1, 0)
		}
		if codec == 1 {
			level = r.Range(0, 9)
			if r.Chance(1, 25) { // the slow zopfli-style qualities: rarely
				level = r.Range(10, 11)
			}
		}
		flush := pick(r, 64, 64, 100, 128, 512, 4096, 16, 1, 7, 65)
		body := genBody(r, 700)
		if flush < 16 && len(body) > 120 {
			body = body[:120]
		}
		// split into source chunks
		chunks := hv.L{}
		rest := body
		for len(rest) > 0 {
			var k int
			switch r.Intn(5) {
			case 0:
				k = 1
			case 1:
				k = flush
			case 2:
				k = flush + r.Range(-1, 1)
			case 3:
				k = len(rest)
			default:
				k = r.Range(1, 200)
			}
			if k < 1 {
				k = 1
			}
			if k > len(rest) {
				k = len(rest)
			}
			chunks = append(chunks, hv.B(rest[:k]))
			rest = rest[k:]
			if r.Chance(1, 15) {
				chunks = append(chunks, hv.B{}) // a (0, nil) read
			}
		}
		p := pick(r, 1, 2, 7, 64, 512, 4096, 32768)
		class := "gzip"
		if codec == 1 {
			class = "brotli"
		}
		if len(body) == 0 {
			class += "-empty"
		} else if len(body)%flush == 0 {
			class += "-multiple"
		}
		if p < 8 {
			class += "-smallbuf"
		}
		srcerr := 0
		if r.Chance(1, 8) { // failing backend; a large client buffer so that every completed Read is fully delivered
			srcerr = 1
			p = 32768
			class += "-srcerr"
		}
		return class, hv.L{hv.I(1), hv.I(codec), hv.I(level), hv.I(flush), chunks, hv.I(p), hv.I(srcerr)}
	}
	cmd := pick(r, 0, 0, 0, 0, 1, 1, 2, 3)
	rule := pick(r, 1, 1, 1, 1, 1, 3, 3, 0, 2)
	ae := r.Pick(aes)
	ce := r.Pick(ces)
	hasCL := r.Chance(2, 3)
	level := r.Range(1, 9)
	flush := pick(r, 64, 128, 4096)
	body := genBody(r, 300)
	class := "handler"
	if ce != "" && ce != "identity" {
		class = "handler-encoded"
	} else if ae == "" {
		class = "handler-noae"
	}
	return class, hv.L{hv.I(2), hv.I(cmd), hv.I(rule), hv.S(ae), hv.S(ce), hv.Bool(hasCL), hv.I(level), hv.I(flush), hv.B(body)}
}

func main() {
	debug.SetGCPercent(1000) // every case allocates fresh MB-sized compressor tables
	hv.Main(&hv.Spec{Prop: "C54", Gen: gen, Impl: impl, NQuick: 2000, NThorough: 100000})
}

func pick(r *hv.Rng, xs ...int) int { return xs[r.Intn(len(xs))] }
