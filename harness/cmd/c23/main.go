// C23: chunked transfer coding (bfe_http/chunked.go) vs model Chunked.v.
//   [1 wire [rd sizes] [piece sizes]] -> [data errcode consumed errcode2]   decode: newChunkedReader over a bfe_bufio.Reader
//        whose source hands out the wire in the given piece sizes (cycled); Read buffers of the given sizes (cycled)
//        until an error; consumed = wire bytes taken by the decoder, reported only on a clean end (errcode 1), else 0;
//        errcode2 = what two further Reads return (the error is sticky; 100+n if they return data)
//   [2 [chunk ...]]                        -> wire                  encode: chunkedWriter.Write per chunk, then Close
//   [3 line]                               -> [n] | [-1 code]       parseHexUint
package main

import (
	"bytes"
	"fmt"
	"io"
	"strings"

	"verif/harness/hv"

	"github.com/bfenetworks/bfe/bfe_bufio"
	"github.com/bfenetworks/bfe/bfe_http"
)

func errCode(err error) int {
	switch {
	case err == nil:
		return 0
	case err == io.EOF:
		return 1
	case err == io.ErrUnexpectedEOF:
		return 2
	case err == bfe_http.ErrLineTooLong:
		return 3
	}
	s := err.Error()
	switch {
	case strings.Contains(s, "invalid byte in chunk length"):
		return 4
	case strings.Contains(s, "malformed chunked encoding"):
		return 5
	case strings.Contains(s, "empty hex number"):
		return 6
	case strings.Contains(s, "chunk length too large"):
		return 7
	}
	return 9
}

// pieceReader hands out data in pieces of the scripted sizes (cycled), then io.EOF.
type pieceReader struct {
	data  []byte
	sizes []int
	k     int
}

func (p *pieceReader) Read(b []byte) (int, error) {
	if len(p.data) == 0 {
		return 0, io.EOF
	}
	n := 1
	if len(p.sizes) > 0 {
		n = p.sizes[p.k%len(p.sizes)]
		p.k++
	}
	if n < 1 {
		n = 1
	}
	if n > len(b) {
		n = len(b)
	}
	if n > len(p.data) {
		n = len(p.data)
	}
	copy(b, p.data[:n])
	p.data = p.data[n:]
	return n, nil
}

func ints(v hv.Val) []int {
	var out []int
	for _, x := range hv.AsList(v) {
		out = append(out, int(hv.AsInt(x)))
	}
	return out
}

func impl(in hv.Val) hv.Val {
	l := hv.AsList(in)
	switch hv.AsInt(l[0]) {
	case 1:
		wire := hv.AsBytes(l[1])
		rds := ints(l[2])
		src := &pieceReader{data: append([]byte(nil), wire...), sizes: ints(l[3])}
		br := bfe_bufio.NewReader(src)
		cr := bfe_http.VerifNewChunkedReader(br)
		var data []byte
		var err error
		for k := 0; k < 4*len(wire)+16; k++ {
			sz := 1
			if len(rds) > 0 {
				sz = rds[k%len(rds)]
			}
			if sz < 1 {
				sz = 1
			}
			buf := make([]byte, sz)
			var n int
			n, err = cr.Read(buf)
			data = append(data, buf[:n]...)
			if err != nil {
				break
			}
		}
		code := errCode(err)
		// errors are sticky: two more Reads must return (0, the same error)
		code2 := code
		if err != nil {
			for k := 0; k < 2; k++ {
				n2, err2 := cr.Read(make([]byte, 3))
				if n2 != 0 {
					code2 = 100 + n2
				} else if errCode(err2) != code {
					code2 = errCode(err2)
				}
			}
		}
		consumed := 0
		if code == 1 {
			consumed = len(wire) - len(src.data) - br.Buffered()
		}
		return hv.L{hv.B(data), hv.I(code), hv.I(consumed), hv.I(code2)}
	case 2:
		var w bytes.Buffer
		cw := bfe_http.VerifNewChunkedWriter(&w)
		for _, c := range hv.AsList(l[1]) {
			d := hv.AsBytes(c)
			n, err := cw.Write(d)
			if err != nil || n != len(d) {
				return hv.Err(1)
			}
		}
		if err := cw.Close(); err != nil {
			return hv.Err(2)
		}
		return hv.B(w.Bytes())
	case 3:
		n, err := bfe_http.VerifParseHexUint(hv.AsBytes(l[1]))
		if err != nil {
			return hv.Err(errCode(err))
		}
		return hv.L{hv.U(n)}
	}
	return hv.Err(0)
}

func sizes(r *hv.Rng, max int) hv.Val {
	n := r.Range(1, 4)
	out := hv.L{}
	for i := 0; i < n; i++ {
		if r.Chance(1, 5) {
			out = append(out, hv.I(r.Range(1, 5000)))
		} else {
			out = append(out, hv.I(r.Range(1, max)))
		}
	}
	return out
}

const hexdig = "0123456789abcdefABCDEF"

func sizeLine(r *hv.Rng, n int) string {
	s := fmt.Sprintf("%x", n)
	switch r.Intn(8) {
	case 0:
		s = strings.ToUpper(s)
	case 1:
		s = strings.Repeat("0", r.Range(1, 16-len(s))) + s
	}
	return s
}

func eol(r *hv.Rng) string {
	switch r.Intn(12) {
	case 0:
		return "\n"
	case 1:
		return " \r\n"
	case 2:
		return "\t \r\n"
	}
	return "\r\n"
}

// a well-formed chunked body (with tolerated leniencies) for random chunks
func encode(r *hv.Rng) []byte {
	var w bytes.Buffer
	k := r.Range(0, 5)
	for i := 0; i < k; i++ {
		n := r.Range(1, 40)
		if r.Chance(1, 10) {
			n = r.Range(250, 300)
		}
		d := r.Bytes(n)
		if r.Chance(1, 3) { // data full of CR/LF/hex to confuse a bad framer
			for j := range d {
				d[j] = "\r\n0a;"[r.Intn(5)]
			}
		}
		w.WriteString(sizeLine(r, n) + eol(r))
		w.Write(d)
		w.WriteString("\r\n")
	}
	w.WriteString(sizeLine(r, 0) + eol(r))
	switch r.Intn(4) { // what follows the last-chunk line is not the decoder's business
	case 0:
		w.WriteString("\r\n")
	case 1:
		w.WriteString("X-T: v\r\n\r\n")
	case 2:
		w.Write(r.Bytes(r.Intn(6)))
	}
	return w.Bytes()
}

func badSize(r *hv.Rng) string {
	switch r.Intn(12) {
	case 0:
		return ""
	case 1:
		return " "
	case 2: // 17+ digits, wraps to a small number
		return "1" + strings.Repeat("0", r.Range(15, 20)) + fmt.Sprintf("%x", r.Intn(20))
	case 3: // exactly 17 digits
		b := make([]byte, 17)
		for i := range b {
			b[i] = hexdig[r.Intn(len(hexdig))]
		}
		return string(b)
	case 4: // exactly 16 digits (legal, huge)
		b := make([]byte, 16)
		for i := range b {
			b[i] = hexdig[r.Intn(len(hexdig))]
		}
		return string(b)
	case 5:
		return "0x" + fmt.Sprintf("%x", r.Intn(30))
	case 6:
		return fmt.Sprintf("%x;ext=1", r.Intn(30))
	case 7:
		return "-" + fmt.Sprintf("%x", r.Intn(30))
	case 8:
		return "+" + fmt.Sprintf("%x", r.Intn(30))
	case 9:
		return fmt.Sprintf("%x", r.Intn(30)) + " " + fmt.Sprintf("%x", r.Intn(30))
	case 10:
		return " " + fmt.Sprintf("%x", r.Intn(30))
	}
	return string([]byte{"gGzZ/:@`"[r.Intn(8)]}) + fmt.Sprintf("%x", r.Intn(30))
}

func gen(r *hv.Rng, i int, tier string) (string, hv.Val) {
	mk := func(wire []byte) hv.Val {
		pieces := sizes(r, 17)
		if r.Chance(1, 3) {
			pieces = hv.L{hv.I(5000)} // whole wire at once
		}
		return hv.L{hv.I(1), hv.B(wire), sizes(r, 17), pieces}
	}
	switch c := r.Intn(20); {
	case c < 6:
		return "dec-valid", mk(encode(r))
	case c < 9: // truncate a valid stream at a random point
		w := encode(r)
		return "dec-trunc", mk(w[:r.Intn(len(w)+1)])
	case c < 12: // mutate one byte
		w := encode(r)
		j := r.Intn(len(w))
		switch r.Intn(3) {
		case 0:
			w[j] ^= byte(1 << uint(r.Intn(8)))
		case 1:
			w[j] = "\r\n0 ;fF"[r.Intn(7)]
		default:
			w = append(w[:j], w[j+1:]...)
		}
		return "dec-mutated", mk(w)
	case c < 15: // a bad size line at chunk position k
		var w bytes.Buffer
		k := r.Intn(3)
		for j := 0; j < k; j++ {
			d := r.Bytes(r.Range(1, 20))
			fmt.Fprintf(&w, "%x\r\n%s\r\n", len(d), d)
		}
		w.WriteString(badSize(r) + eol(r))
		w.Write(r.Bytes(r.Intn(24)))
		if r.Bool() {
			w.WriteString("\r\n0\r\n\r\n")
		}
		return "dec-badsize", mk(w.Bytes())
	case c < 16: // bad CRLF after data
		var w bytes.Buffer
		d := r.Bytes(r.Range(1, 20))
		fmt.Fprintf(&w, "%x\r\n%s", len(d), d)
		w.WriteString([]string{"\n\r", "\r", "\n", "\rX", "X\n", "\r\r\n", ""}[r.Intn(7)])
		w.WriteString("0\r\n\r\n")
		return "dec-badcrlf", mk(w.Bytes())
	case c < 17:
		if r.Chance(1, 10) { // over-long size line
			n := r.Range(4090, 4100)
			w := bytes.Repeat([]byte("0"), n)
			if r.Bool() {
				w = append(w, "\r\n\r\n"...)
			}
			return "dec-longline", mk(w)
		}
		return "dec-random", mk(r.Bytes(r.Intn(12)))
	case c < 19:
		k := r.Range(0, 6)
		chunks := hv.L{}
		for j := 0; j < k; j++ {
			n := r.Intn(40)
			if r.Chance(1, 4) {
				n = 0
			}
			if r.Chance(1, 10) {
				n = r.Range(250, 300)
			}
			chunks = append(chunks, hv.B(r.Bytes(n)))
		}
		return "encode", hv.L{hv.I(2), chunks}
	}
	if r.Bool() {
		return "hex-bad", hv.L{hv.I(3), hv.S(badSize(r))}
	}
	n := r.Range(0, 18)
	b := make([]byte, n)
	for j := range b {
		b[j] = hexdig[r.Intn(len(hexdig))]
	}
	return "hex", hv.L{hv.I(3), hv.B(b)}
}

func main() {
	hv.Main(&hv.Spec{Prop: "C23", Gen: gen, Impl: impl, NQuick: 6000, NThorough: 300000})
}
