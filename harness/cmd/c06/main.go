// C06: backend health state machine.  Model: coq/model/Health.v; wire format: coq/run/RunC06.v.
//
// The REAL BfeBackend and the REAL check goroutine (health_check.go:check, started by UpdateStatus) run against a
// local HTTP check target owned by the harness.  The target's handler blocks every health-check request until the
// next CheckOk / CheckFail operation decides its status code, so the checker advances exactly one loop iteration
// per operation and the run is deterministic (CheckInterval = 0 ms).  "pending" = requests of the case's backend
// currently blocked in the handler (= live checkers with a request outstanding).
package main

import (
	"bytes"
	"os"
	"fmt"
	"net"
	"net/http"
	"runtime"
	"sync"
	"sync/atomic"
	"time"

	"verif/harness/hv"

	"github.com/bfenetworks/bfe/bfe_balance/backend"
	"github.com/bfenetworks/bfe/bfe_config/bfe_cluster_conf/cluster_conf"
	"github.com/bfenetworks/bfe/bfe_config/bfe_cluster_conf/cluster_table_conf"
)

var (
	mu       sync.Mutex
	confs    = map[string]*cluster_conf.BackendCheck{}
	curPath  string
	pending  int32
	arrivals chan struct{}
	respond  chan int
	quit     chan struct{}
	port     int
	serial   int
)

// thresholds >= noConf stand for a cluster without health-check conf
const noConf = 1000000

func handler(w http.ResponseWriter, r *http.Request) {
	mu.Lock()
	mine := r.URL.Path == curPath
	arr, resp, q := arrivals, respond, quit
	mu.Unlock()
	if !mine {
		w.WriteHeader(500)
		return
	}
	atomic.AddInt32(&pending, 1)
	select {
	case arr <- struct{}{}:
	default:
	}
	code := 500
	select {
	case code = <-resp:
	case <-q: // the case is over: whatever is still waiting gets a failure
	}
	atomic.AddInt32(&pending, -1)
	w.WriteHeader(code)
}

func setup(tier string) {
	l, err := net.Listen("tcp", "127.0.0.1:0")
	if err != nil {
		panic(err)
	}
	port = l.Addr().(*net.TCPAddr).Port
	go (&http.Server{Handler: http.HandlerFunc(handler)}).Serve(l)
	backend.SetCheckConfFetcher(func(cluster string) *cluster_conf.BackendCheck {
		mu.Lock()
		defer mu.Unlock()
		return confs[cluster]
	})
}

func setThr(cluster, path string, ft, st int) {
	schem, code, iv := "http", 200, 0
	c := &cluster_conf.BackendCheck{Schem: &schem, Uri: &path, StatusCode: &code, FailNum: &ft, SuccNum: &st, CheckInterval: &iv}
	mu.Lock()
	confs[cluster] = c
	mu.Unlock()
}

// liveCheckers counts goroutines currently inside health_check.go:check (from the runtime's stack dump).
// patience: how long a wait for an expected event may take; once a case has missed one (the implementation does not
// behave as expected, the observation will differ anyway) the remaining waits of that case are short
var caseBroken bool

var brokenCases int

func patience() time.Duration {
	if caseBroken {
		return 20 * time.Millisecond
	}
	if brokenCases >= 10 { // the implementation evidently deviates: do not spend 3 s on every further case
		return 100 * time.Millisecond
	}
	return 3 * time.Second
}

func missed(start time.Time) {
	if time.Since(start) >= 3*time.Second {
		caseBroken = true
	}
}

var stackBuf = make([]byte, 1<<18)

func liveCheckers() int {
	n := runtime.Stack(stackBuf, true)
	return bytes.Count(stackBuf[:n], []byte("bfe_balance/backend.check("))
}

// live = goroutines inside check.  The stack dump stops the world, so it is taken only once the backend has been
// released (the states in which a checker may exist without a request outstanding); before that the checker, if any,
// is blocked in the harness's handler and counted there.
func live(released bool) int {
	if released {
		return liveCheckers()
	}
	return int(atomic.LoadInt32(&pending))
}

// waitGone waits until no check goroutine is alive or a further check request shows up.
func waitGone() {
	t0 := time.Now()
	defer missed(t0)
	defer func() {
		if d := time.Since(t0); d > 500*time.Millisecond && os.Getenv("VERIF_DEBUG") != "" {
			fmt.Fprintln(os.Stderr, "waitGone stall", d, liveCheckers(), atomic.LoadInt32(&pending))
		}
	}()
	deadline := time.Now().Add(patience())
	for liveCheckers() > 0 && atomic.LoadInt32(&pending) == 0 && time.Now().Before(deadline) {
		time.Sleep(100 * time.Microsecond)
	}
}

func waitArrival(d time.Duration) bool {
	select {
	case <-arrivals:
		return true
	case <-time.After(d):
		return false
	}
}

func impl(in hv.Val) hv.Val {
	top := hv.AsList(in)
	if len(top) != 3 {
		return hv.Err(0)
	}
	serial++
	if caseBroken {
		brokenCases++
	}
	caseBroken = false
	cluster, path := fmt.Sprintf("cl%d", serial), fmt.Sprintf("/c%d", serial)
	mu.Lock()
	curPath = path
	arrivals = make(chan struct{}, 64)
	respond = make(chan int, 64)
	quit = make(chan struct{})
	mu.Unlock()
	atomic.StoreInt32(&pending, 0)
	setThr(cluster, path, int(hv.AsInt(top[0])), int(hv.AsInt(top[1])))

	back := backend.NewBfeBackend()
	name, addr, w := "b", "127.0.0.1", 1
	back.Init("sub", &cluster_table_conf.BackendConf{Name: &name, Addr: &addr, Port: &port, Weight: &w})
	released := false
	out := hv.L{}
	for _, opv := range hv.AsList(top[2]) {
		op := hv.AsList(opv)
		switch hv.AsInt(op[0]) {
		case 1:
			n := int(hv.AsInt(op[1]))
			before := back.Avail()
			g0 := runtime.NumGoroutine()
			if n == 1 {
				back.OnFail(cluster)
			} else {
				var wg sync.WaitGroup
				for k := 0; k < n; k++ {
					wg.Add(1)
					go func() { defer wg.Done(); back.OnFail(cluster) }()
				}
				wg.Wait()
			}
			if before && !back.Avail() && !released {
				if !waitArrival(patience()) { // the checker that was just started issues its first request
					caseBroken = true
				}
			} else if released {
				// a checker started for a removed backend leaves at once: wait until the goroutine count is back
				// (the new goroutine may not have run yet) and no goroutine is inside check
				deadline := time.Now().Add(patience())
				for (runtime.NumGoroutine() > g0 || liveCheckers() > int(atomic.LoadInt32(&pending))) && time.Now().Before(deadline) {
					time.Sleep(100 * time.Microsecond)
				}
				if time.Now().After(deadline) {
					caseBroken = true
				}
				if os.Getenv("VERIF_DEBUG") != "" && time.Now().After(deadline) {
					fmt.Fprintln(os.Stderr, "released-fail stall", runtime.NumGoroutine(), g0, liveCheckers())
				}
			}
		case 2:
			back.OnSuccess()
		case 3, 4:
			if atomic.LoadInt32(&pending) >= 1 {
				code := 200
				if hv.AsInt(op[0]) == 4 {
					code = 500
				}
				respond <- code
				if released {
					// the checker must finish this iteration and leave; a further request would show as pending
					for atomic.LoadInt32(&pending) > 0 {
						time.Sleep(10 * time.Microsecond)
					}
					waitGone()
					select {
					case <-arrivals:
					default:
					}
				} else {
					// either the next request arrives or the backend is back in rotation (then the checker leaves)
					deadline := time.Now().Add(patience())
					for {
						if waitArrival(50 * time.Microsecond) {
							break
						}
						if time.Now().After(deadline) {
							caseBroken = true
							break
						}
						if back.Avail() {
							waitGone()
							break
						}
					}
				}
			}
		case 5:
			if !released {
				back.Release()
				released = true
			}
		case 8:
			// a reload removes the whole cluster: its check conf disappears and the backend is released, whatever the
			// state of the backend (also while a checker has a check outstanding)
			mu.Lock()
			delete(confs, cluster)
			mu.Unlock()
			if !released {
				back.Release()
				released = true
			}
			if atomic.LoadInt32(&pending) == 0 {
				waitGone()
			}
		case 6:
			ft := int(hv.AsInt(op[1]))
			if ft >= noConf && atomic.LoadInt32(&pending) == 0 && back.Avail() {
				// "no check conf for this cluster": getCheckConf returns nil, UpdateStatus ignores failures - the same
				// behaviour as an unreachable threshold (only done while no checker runs: its loop would sleep 1 s)
				mu.Lock()
				delete(confs, cluster)
				mu.Unlock()
			} else {
				setThr(cluster, path, ft, int(hv.AsInt(op[2])))
			}
		default:
			return hv.Err(0)
		}
		out = append(out, hv.L{hv.Bool(back.Avail()), hv.I(back.FailNum()), hv.I(back.SuccNum()),
			hv.I(int(atomic.LoadInt32(&pending))), hv.Bool(back.GetRestart()), hv.I(live(released))})
	}
	// stop whatever is still running for this case
	if !released {
		back.Release()
	}
	mu.Lock()
	curPath = ""
	close(quit)
	mu.Unlock()
	deadline := time.Now().Add(patience())
	for liveCheckers() > 0 && time.Now().Before(deadline) {
		time.Sleep(100 * time.Microsecond)
	}
	return out
}

func gen(r *hv.Rng, i int, tier string) (string, hv.Val) {
	thr := func(hi int) int {
		switch r.Intn(12) {
		case 0:
			return 0
		case 1:
			return hi + 1
		}
		return r.Range(1, hi)
	}
	ft, st := thr(4), thr(3)
	nops := r.Range(1, 40)
	ops := hv.L{}
	class := "plain"
	rel := false
	for k := 0; k < nops; k++ {
		switch c := r.Intn(100); {
		case c < 30:
			ops = append(ops, hv.L{hv.I(1), hv.I(1)})
		case c < 38:
			ops = append(ops, hv.L{hv.I(1), hv.I(r.Range(2, 5))})
			if class == "plain" {
				class = "burst"
			}
		case c < 52:
			ops = append(ops, hv.L{hv.I(2)})
		case c < 77:
			ops = append(ops, hv.L{hv.I(3)})
		case c < 88:
			ops = append(ops, hv.L{hv.I(4)})
		case c < 89:
			ops = append(ops, hv.L{hv.I(5)})
			rel = true
		case c < 91:
			ops = append(ops, hv.L{hv.I(8)})
			rel = true
		default:
			ft := thr(4)
			if r.Chance(1, 5) {
				ft = noConf
				class = "no-conf"
			}
			ops = append(ops, hv.L{hv.I(6), hv.I(ft), hv.I(thr(3))})
			if class == "plain" || class == "burst" {
				class = "thr-change"
			}
		}
	}
	if rel {
		class = "release"
	}
	if nops < 3 {
		class = "triv-short"
	}
	return class, hv.L{hv.I(ft), hv.I(st), ops}
}

func main() {
	hv.Main(&hv.Spec{Prop: "C06", Gen: gen, Impl: impl, Setup: setup, NQuick: 1500, NThorough: 60000})
}
