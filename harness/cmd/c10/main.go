// C10: HostTable.LookupHostTagAndProduct (host trie with splat entries, VIP table, default product)
// vs model HostTable.v.  The tables are written as JSON files and loaded with the real loaders
// (host_rule_conf.HostRuleConfLoad, vip_rule_conf.VipRuleConfLoad), then HostTable.Update.
// input : [entries vips dflt queries]  entries=[[host tag product]..] vips=[[vip product]..] queries=[[host vip]..]
// output: [[product tag err]..]
package main

import (
	"encoding/json"
	"net"
	"os"
	"path/filepath"
	"strings"

	"verif/harness/hv"

	"github.com/bfenetworks/bfe/bfe_basic"
	"github.com/bfenetworks/bfe/bfe_config/bfe_route_conf/host_rule_conf"
	"github.com/bfenetworks/bfe/bfe_config/bfe_route_conf/route_rule_conf"
	"github.com/bfenetworks/bfe/bfe_config/bfe_route_conf/vip_rule_conf"
	"github.com/bfenetworks/bfe/bfe_http"
	"github.com/bfenetworks/bfe/bfe_route"
)

var tmpdir string

func setup(string) {
	d, err := os.MkdirTemp("", "verif-c10-")
	if err != nil {
		panic(err)
	}
	tmpdir = d
}

func writeJSON(name string, v interface{}) string {
	b, err := json.Marshal(v)
	if err != nil {
		panic(err)
	}
	p := filepath.Join(tmpdir, name)
	if err := os.WriteFile(p, b, 0o644); err != nil {
		panic(err)
	}
	return p
}

func impl(in hv.Val) hv.Val {
	top := hv.AsList(in)
	entries, vips, dflt, queries := hv.AsList(top[0]), hv.AsList(top[1]), hv.AsStr(top[2]), hv.AsList(top[3])
	hosts := map[string][]string{}    // tag -> hosts
	hostTags := map[string][]string{} // product -> tags
	seenTag := map[string]bool{}
	for _, e := range entries {
		l := hv.AsList(e)
		h, t, p := hv.AsStr(l[0]), hv.AsStr(l[1]), hv.AsStr(l[2])
		hosts[t] = append(hosts[t], h)
		if !seenTag[t] {
			seenTag[t] = true
			hostTags[p] = append(hostTags[p], t)
		}
	}
	hostFile := map[string]interface{}{"Version": "v1", "Hosts": hosts, "HostTags": hostTags}
	if dflt != "" {
		if _, ok := hostTags[dflt]; !ok {
			hostTags[dflt] = []string{}
		}
		hostFile["DefaultProduct"] = dflt
	}
	vipMap := map[string][]string{}
	for _, e := range vips {
		l := hv.AsList(e)
		vipMap[hv.AsStr(l[1])] = append(vipMap[hv.AsStr(l[1])], hv.AsStr(l[0]))
	}
	hostConf, err := host_rule_conf.HostRuleConfLoad(writeJSON("host_rule.data", hostFile))
	if err != nil {
		return hv.Err(10)
	}
	vipConf, err := vip_rule_conf.VipRuleConfLoad(writeJSON("vip_rule.data", map[string]interface{}{"Version": "v1", "Vips": vipMap}))
	if err != nil {
		return hv.Err(11)
	}
	ht := new(bfe_route.HostTable)
	ht.Update(hostConf, vipConf, &route_rule_conf.RouteTableConf{})
	out := hv.L{}
	for _, q := range queries {
		l := hv.AsList(q)
		req := &bfe_basic.Request{Session: &bfe_basic.Session{}, HttpRequest: &bfe_http.Request{Host: hv.AsStr(l[0])}}
		if v := hv.AsStr(l[1]); v != "" {
			req.Session.Vip = net.ParseIP(v)
		}
		err := ht.LookupHostTagAndProduct(req)
		code := 0
		switch {
		case err == nil && req.Route.Error == nil:
		case err == bfe_route.ErrNoProduct && req.Route.Error == err:
			code = 1
		default:
			code = 9
		}
		out = append(out, hv.L{hv.S(req.Route.Product), hv.S(req.Route.HostTag), hv.I(code)})
	}
	return out
}

var words = []string{"a", "b", "com", "net", "www", "x1"}

func flipCase(r *hv.Rng, s string) string {
	b := []byte(s)
	for i := range b {
		if r.Chance(1, 3) {
			if b[i] >= 'a' && b[i] <= 'z' {
				b[i] -= 32
			} else if b[i] >= 'A' && b[i] <= 'Z' {
				b[i] += 32
			}
		}
	}
	return string(b)
}

func randLabels(r *hv.Rng, n int) []string {
	ls := make([]string, n)
	for i := range ls {
		ls[i] = r.Pick(words)
		if i >= n-1 && r.Chance(2, 3) { // realistic TLD position
			ls[i] = r.Pick([]string{"com", "net"})
		}
	}
	return ls
}

// normalised key as the host table sees it: lower case, one trailing dot dropped
func normKey(h string) string {
	h = strings.ToLower(h)
	if strings.HasSuffix(h, ".") {
		h = h[:len(h)-1]
	}
	return h
}

func gen(r *hv.Rng, i int, tier string) (string, hv.Val) {
	nEnt := r.Range(0, 12)
	if r.Chance(1, 6) {
		nEnt = r.Range(12, 30)
	}
	type ent struct{ host, tag, prod string }
	var ents []ent
	seen := map[string]bool{}
	var bases [][]string // label lists used in the table
	class := "mixed"
	for len(ents) < nEnt {
		var ls []string
		if len(bases) > 0 && r.Chance(1, 2) { // derive from an existing entry: heavy overlap
			b := bases[r.Intn(len(bases))]
			switch r.Intn(3) {
			case 0:
				ls = append([]string{r.Pick(words)}, b...)
			case 1:
				if len(b) > 1 {
					ls = append([]string{}, b[1:]...)
				} else {
					ls = append([]string{}, b...)
				}
			default:
				ls = append([]string{}, b...)
			}
		} else {
			ls = randLabels(r, r.Range(1, 3))
		}
		bases = append(bases, ls)
		h := strings.Join(ls, ".")
		switch k := r.Intn(20); {
		case k < 8:
			h = "*." + h
		case k == 8:
			if r.Chance(1, 3) {
				h = "*"
			}
		case k == 9: // rejected silently by Trie.Set: "*" not the left-most label
			h = r.Pick(words) + ".*." + h
			class = "invalid-star"
		case k == 10:
			h = h + ":80" // never matches: request ports are stripped
		case k == 11:
			h = "*.*." + h
			class = "invalid-star"
		}
		if r.Chance(1, 4) {
			h = flipCase(r, h)
		}
		if r.Chance(1, 8) {
			h += "."
		}
		if r.Chance(1, 40) {
			h += "."
		}
		if seen[normKey(h)] {
			nEnt--
			continue
		}
		seen[normKey(h)] = true
		p := "p" + string(rune('0'+r.Intn(4)))
		t := p + "-t" + string(rune('0'+r.Intn(3)))
		ents = append(ents, ent{h, t, p})
	}
	// vips
	vipPool := []string{"10.0.0.1", "10.0.0.2", "192.168.1.9", "2001:db8::1", "::1"}
	var vips hv.L
	usedVip := map[string]bool{}
	for k := r.Intn(4); k > 0; k-- {
		v := r.Pick(vipPool)
		if usedVip[v] {
			continue
		}
		usedVip[v] = true
		vips = append(vips, hv.L{hv.S(v), hv.S("v" + string(rune('0'+r.Intn(3))))})
	}
	if vips == nil {
		vips = hv.L{}
	}
	dflt := ""
	if r.Bool() {
		dflt = r.Pick([]string{"pd", "p0", "p1"})
	}
	// queries
	nq := r.Range(4, 10)
	qs := hv.L{}
	for k := 0; k < nq; k++ {
		var ls []string
		if len(bases) > 0 && r.Chance(5, 6) {
			b := bases[r.Intn(len(bases))]
			switch r.Intn(6) {
			case 0, 1:
				ls = append([]string{}, b...)
			case 2:
				ls = append([]string{r.Pick(words)}, b...)
			case 3:
				ls = append([]string{r.Pick(words), r.Pick(words)}, b...)
			case 4:
				if len(b) > 1 {
					ls = append([]string{}, b[1:]...)
				} else {
					ls = []string{r.Pick(words)}
				}
			default:
				ls = append([]string{}, b...)
				ls[r.Intn(len(ls))] = r.Pick(words)
			}
		} else {
			ls = randLabels(r, r.Range(1, 4))
		}
		if r.Chance(1, 25) {
			ls[r.Intn(len(ls))] = "*"
		}
		if r.Chance(1, 40) {
			ls[r.Intn(len(ls))] = ""
		}
		h := strings.Join(ls, ".")
		if r.Chance(1, 30) {
			h = ""
		}
		if r.Chance(1, 3) {
			h = flipCase(r, h)
		}
		if r.Chance(1, 5) {
			h += "."
		}
		if r.Chance(1, 30) {
			h += "."
		}
		switch r.Intn(8) {
		case 0:
			h += ":8080"
		case 1:
			h += ":"
		case 2:
			if r.Chance(1, 4) {
				h += ":80:1"
			}
		}
		vip := ""
		if r.Chance(1, 2) {
			vip = r.Pick(vipPool)
		}
		qs = append(qs, hv.L{hv.S(h), hv.S(vip)})
	}
	es := hv.L{}
	for _, e := range ents {
		es = append(es, hv.L{hv.S(e.host), hv.S(e.tag), hv.S(e.prod)})
	}
	if nEnt == 0 {
		class = "triv-empty-table"
	}
	return class, hv.L{es, vips, hv.S(dflt), qs}
}

func main() {
	hv.Main(&hv.Spec{Prop: "C10", Gen: gen, Impl: impl, Setup: setup, NQuick: 5000, NThorough: 200000})
}
