// C10: HostTable.LookupHostTagAndProduct (host trie with splat entries, VIP table, default product)
// vs model HostTable.v.  The tables are written as JSON files and loaded with the real loaders
// (host_rule_conf.HostRuleConfLoad, vip_rule_conf.VipRuleConfLoad), then HostTable.Update.
// input : [preQueries stages]  stage=[entries vips dflt queries]  entries=[[host tag product]..] vips=[[text addr16 canon product]..]
//         (text = the vip as written in the file, in any textual form; addr16/canon = net.ParseIP(text).To16()/.String(),
//         computed by the generator for the model; the implementation is given text only)
//         queries=[[host vipRaw vipStr]..]  vipRaw = Session.Vip as raw net.IP bytes (4- or 16-byte form, "" = nil),
//         vipStr = argument of LookupProductByVip.  preQueries run on a fresh HostTable before any Update; the stages are applied to the
//         SAME HostTable in order (Update, then queries): act -> reload -> act.
// output: [preResults [stageResults..]], per query [product tag err lpProduct lpErr vpProduct vpErr]
//         (LookupHostTagAndProduct, LookupProduct(host), LookupProductByVip(vip))
package main

import (
	"encoding/json"
	"fmt"
	"net"
	"os"
	"path/filepath"
	"strings"

	"verif/harness/hv"

	"github.com/bfenetworks/bfe/bfe_basic"
	"github.com/bfenetworks/bfe/bfe_config/bfe_route_conf/host_rule_conf"
	"github.com/bfenetworks/bfe/bfe_config/bfe_route_conf/route_rule_conf"
	"github.com/bfenetworks/bfe/bfe_config/bfe_route_conf/vip_rule_conf"
	"github.com/bfenetworks/bfe/bfe_http"
	"github.com/bfenetworks/bfe/bfe_route"
)

var tmpdir string

func setup(string) {
	d, err := os.MkdirTemp("", "verif-c10-")
	if err != nil {
		panic(err)
	}
	tmpdir = d
}

func writeJSON(name string, v interface{}) string {
	b, err := json.Marshal(v)
	if err != nil {
		panic(err)
	}
	p := filepath.Join(tmpdir, name)
	if err := os.WriteFile(p, b, 0o644); err != nil {
		panic(err)
	}
	return p
}

func errCode(err error) int {
	switch err {
	case nil:
		return 0
	case bfe_route.ErrNoProduct:
		return 1
	}
	return 9
}

func runQueries(ht *bfe_route.HostTable, queries hv.L) hv.Val {
	out := hv.L{}
	for _, q := range queries {
		l := hv.AsList(q)
		host, raw, vip := hv.AsStr(l[0]), hv.AsBytes(l[1]), hv.AsStr(l[2])
		req := &bfe_basic.Request{Session: &bfe_basic.Session{}, HttpRequest: &bfe_http.Request{Host: host}}
		if len(raw) > 0 {
			req.Session.Vip = net.IP(append([]byte(nil), raw...))
		}
		err := ht.LookupHostTagAndProduct(req)
		code := errCode(err)
		if req.Route.Error != err {
			code = 8
		}
		lp, lerr := ht.LookupProduct(host)
		vp, verr := ht.LookupProductByVip(vip)
		out = append(out, hv.L{hv.S(req.Route.Product), hv.S(req.Route.HostTag), hv.I(code),
			hv.S(lp), hv.I(errCode(lerr)), hv.S(vp), hv.I(errCode(verr))})
	}
	return out
}

func impl(in hv.Val) hv.Val {
	top := hv.AsList(in)
	ht := new(bfe_route.HostTable)
	pre := runQueries(ht, hv.AsList(top[0]))
	stageOut := hv.L{}
	for _, sv := range hv.AsList(top[1]) {
		st := hv.AsList(sv)
		entries, vips, dflt, queries := hv.AsList(st[0]), hv.AsList(st[1]), hv.AsStr(st[2]), hv.AsList(st[3])
		hosts := map[string][]string{}    // tag -> hosts
		hostTags := map[string][]string{} // product -> tags
		seenTag := map[string]bool{}
		for _, e := range entries {
			l := hv.AsList(e)
			h, t, p := hv.AsStr(l[0]), hv.AsStr(l[1]), hv.AsStr(l[2])
			hosts[t] = append(hosts[t], h)
			if !seenTag[t] {
				seenTag[t] = true
				hostTags[p] = append(hostTags[p], t)
			}
		}
		hostFile := map[string]interface{}{"Version": "v1", "Hosts": hosts, "HostTags": hostTags}
		if dflt != "" {
			if _, ok := hostTags[dflt]; !ok {
				hostTags[dflt] = []string{}
			}
			hostFile["DefaultProduct"] = dflt
		}
		vipMap := map[string][]string{}
		for _, e := range vips {
			l := hv.AsList(e)
			vipMap[hv.AsStr(l[3])] = append(vipMap[hv.AsStr(l[3])], hv.AsStr(l[0]))
		}
		hostConf, err := host_rule_conf.HostRuleConfLoad(writeJSON("host_rule.data", hostFile))
		if err != nil {
			return hv.Err(10)
		}
		vipConf, err := vip_rule_conf.VipRuleConfLoad(writeJSON("vip_rule.data", map[string]interface{}{"Version": "v1", "Vips": vipMap}))
		if err != nil {
			return hv.Err(11)
		}
		ht.Update(hostConf, vipConf, &route_rule_conf.RouteTableConf{})
		stageOut = append(stageOut, runQueries(ht, queries))
	}
	return hv.L{pre, stageOut}
}

// addresses used as vips; "::10.0.0.1" (IPv4-compatible, not IPv4-mapped) is a near miss of 10.0.0.1
var vipPool = []string{"10.0.0.1", "10.0.0.2", "192.168.1.9", "127.0.0.1", "255.255.255.255", "0.0.0.0",
	"2001:db8::1", "::1", "::", "fe80::1:2", "2001:db8:0:1::", "::10.0.0.1", "2001:db8::a00:1", "::ffff:0:1"}

// every textual form of the address that net.ParseIP accepts (and that denotes the same address)
func ipForms(ip net.IP) []string {
	b := ip.To16()
	g := make([]int, 8)
	for i := range g {
		g[i] = int(b[2*i])<<8 | int(b[2*i+1])
	}
	join := func(f string, n int) string {
		parts := make([]string, n)
		for i := 0; i < n; i++ {
			parts[i] = fmt.Sprintf(f, g[i])
		}
		return strings.Join(parts, ":")
	}
	forms := []string{ip.String(), join("%x", 8), join("%04x", 8), join("%X", 8), join("%04X", 8), strings.ToUpper(ip.String())}
	dotted := fmt.Sprintf("%d.%d.%d.%d", b[12], b[13], b[14], b[15])
	forms = append(forms, join("%x", 6)+":"+dotted, join("%04X", 6)+":"+dotted) // IPv4 tail notation
	if v4 := ip.To4(); v4 != nil {
		forms = append(forms, dotted, "::ffff:"+dotted, "::FFFF:"+dotted, "0:0:0:0:0:ffff:"+dotted, "0:0:0:0:0:FFFF:"+dotted,
			fmt.Sprintf("::ffff:%x:%x", g[6], g[7]), fmt.Sprintf("0000:0000:0000:0000:0000:FFFF:%04X:%04X", g[6], g[7]))
	} else if g[0] == 0 && g[1] == 0 && g[2] == 0 && g[3] == 0 && g[4] == 0 && g[5] == 0 {
		forms = append(forms, "::"+dotted)
	}
	ok := forms[:0]
	for _, f := range forms {
		if p := net.ParseIP(f); p != nil && p.Equal(ip) {
			ok = append(ok, f)
		}
	}
	return ok
}

var words = []string{"a", "b", "com", "net", "www", "x1"}

func flipCase(r *hv.Rng, s string) string {
	b := []byte(s)
	for i := range b {
		if r.Chance(1, 3) {
			if b[i] >= 'a' && b[i] <= 'z' {
				b[i] -= 32
			} else if b[i] >= 'A' && b[i] <= 'Z' {
				b[i] += 32
			}
		}
	}
	return string(b)
}

func randLabels(r *hv.Rng, n int) []string {
	ls := make([]string, n)
	for i := range ls {
		ls[i] = r.Pick(words)
		if i >= n-1 && r.Chance(2, 3) { // realistic TLD position
			ls[i] = r.Pick([]string{"com", "net"})
		}
	}
	return ls
}

// normalised key as the host table sees it: lower case, one trailing dot dropped
func normKey(h string) string {
	h = strings.ToLower(h)
	if strings.HasSuffix(h, ".") {
		h = h[:len(h)-1]
	}
	return h
}

func genStage(r *hv.Rng) (string, hv.Val, hv.L) {
	nEnt := r.Range(0, 12)
	if r.Chance(1, 6) {
		nEnt = r.Range(12, 30)
	}
	type ent struct{ host, tag, prod string }
	var ents []ent
	seen := map[string]bool{}
	var bases [][]string // label lists used in the table
	class := "mixed"
	for len(ents) < nEnt {
		var ls []string
		if len(bases) > 0 && r.Chance(1, 2) { // derive from an existing entry: heavy overlap
			b := bases[r.Intn(len(bases))]
			switch r.Intn(3) {
			case 0:
				ls = append([]string{r.Pick(words)}, b...)
			case 1:
				if len(b) > 1 {
					ls = append([]string{}, b[1:]...)
				} else {
					ls = append([]string{}, b...)
				}
			default:
				ls = append([]string{}, b...)
			}
		} else {
			ls = randLabels(r, r.Range(1, 3))
		}
		bases = append(bases, ls)
		h := strings.Join(ls, ".")
		switch k := r.Intn(20); {
		case k < 8:
			h = "*." + h
		case k == 8:
			if r.Chance(1, 3) {
				h = "*"
			}
		case k == 9: // rejected silently by Trie.Set: "*" not the left-most label
			h = r.Pick(words) + ".*." + h
			class = "invalid-star"
		case k == 10:
			h = h + ":80" // never matches: request ports are stripped
		case k == 11:
			h = "*.*." + h
			class = "invalid-star"
		case k == 12 && r.Chance(1, 3):
			h = "." // the root name: same trie path as the empty host
		}
		if r.Chance(1, 4) {
			h = flipCase(r, h)
		}
		if r.Chance(1, 8) {
			h += "."
		}
		if r.Chance(1, 40) {
			h += "."
		}
		if seen[normKey(h)] {
			nEnt--
			continue
		}
		seen[normKey(h)] = true
		p := "p" + string(rune('0'+r.Intn(4)))
		t := p + "-t" + string(rune('0'+r.Intn(3)))
		ents = append(ents, ent{h, t, p})
	}
	// vips: distinct address values, each written in one of its textual forms
	var vips hv.L
	usedVip := map[string]bool{}
	for k := r.Intn(5); k > 0; k-- {
		ip := net.ParseIP(r.Pick(vipPool))
		if usedVip[ip.String()] {
			continue
		}
		usedVip[ip.String()] = true
		text := r.Pick(ipForms(ip))
		vips = append(vips, hv.L{hv.S(text), hv.B(ip.To16()), hv.S(ip.String()), hv.S("v" + string(rune('0'+r.Intn(3))))})
	}
	if vips == nil {
		vips = hv.L{}
	}
	dflt := ""
	if r.Bool() {
		dflt = r.Pick([]string{"pd", "p0", "p1"})
	}
	// queries
	nq := r.Range(4, 10)
	qs := hv.L{}
	for k := 0; k < nq; k++ {
		var ls []string
		if len(bases) > 0 && r.Chance(5, 6) {
			b := bases[r.Intn(len(bases))]
			switch r.Intn(6) {
			case 0, 1:
				ls = append([]string{}, b...)
			case 2:
				ls = append([]string{r.Pick(words)}, b...)
			case 3:
				ls = append([]string{r.Pick(words), r.Pick(words)}, b...)
			case 4:
				if len(b) > 1 {
					ls = append([]string{}, b[1:]...)
				} else {
					ls = []string{r.Pick(words)}
				}
			default:
				ls = append([]string{}, b...)
				ls[r.Intn(len(ls))] = r.Pick(words)
			}
		} else {
			ls = randLabels(r, r.Range(1, 4))
		}
		if r.Chance(1, 25) {
			ls[r.Intn(len(ls))] = "*"
		}
		if r.Chance(1, 40) {
			ls[r.Intn(len(ls))] = ""
		}
		h := strings.Join(ls, ".")
		if r.Chance(1, 30) {
			h = ""
		}
		if r.Chance(1, 40) {
			h = "."
		}
		if r.Chance(1, 3) {
			h = flipCase(r, h)
		}
		if r.Chance(1, 5) {
			h += "."
		}
		if r.Chance(1, 30) {
			h += "."
		}
		switch r.Intn(8) {
		case 0:
			h += ":8080"
		case 1:
			h += ":"
		case 2:
			if r.Chance(1, 4) {
				h += ":80:1"
			}
		}
		var raw []byte
		if r.Chance(3, 5) {
			ip := net.ParseIP(r.Pick(vipPool))
			raw = ip.To16()
			if v4 := ip.To4(); v4 != nil && r.Bool() {
				raw = v4 // the same address in its 4-byte form
			}
		}
		vipStr := ""
		if r.Chance(1, 2) {
			ip := net.ParseIP(r.Pick(vipPool))
			vipStr = ip.String()
			if r.Chance(1, 4) {
				vipStr = r.Pick(ipForms(ip)) // LookupProductByVip compares text: only the canonical form hits
			}
		}
		qs = append(qs, hv.L{hv.S(h), hv.B(raw), hv.S(vipStr)})
	}
	es := hv.L{}
	for _, e := range ents {
		es = append(es, hv.L{hv.S(e.host), hv.S(e.tag), hv.S(e.prod)})
	}
	if nEnt == 0 {
		class = "empty-table"
	}
	return class, hv.L{es, vips, hv.S(dflt), qs}, qs
}

// 1-3 stages on one HostTable; the later stages reuse queries of the earlier ones (a stale trie, VIP table or
// default product left over from the previous Update would answer them differently)
func gen(r *hv.Rng, i int, tier string) (string, hv.Val) {
	n := 1
	if r.Chance(1, 2) {
		n = r.Range(2, 3)
	}
	stages := hv.L{}
	class := ""
	var prevQ hv.L
	for k := 0; k < n; k++ {
		c, st, qs := genStage(r.Fork(1000 + k))
		if k > 0 && r.Chance(1, 6) { // reload to (nearly) nothing: everything must be forgotten
			st = hv.L{hv.L{}, hv.L{}, hv.S(""), qs}
			c = "cleared"
		}
		if k > 0 {
			l := hv.AsList(st)
			st = hv.L{l[0], l[1], l[2], append(append(hv.L{}, hv.AsList(l[3])...), prevQ...)}
		}
		prevQ = qs
		stages = append(stages, st)
		if k == 0 {
			class = c
		} else {
			class += "+" + c
		}
	}
	pre := hv.L{}
	if r.Chance(1, 5) {
		for _, q := range prevQ {
			if r.Bool() {
				pre = append(pre, q)
			}
		}
		class = "pre+" + class
	}
	return class, hv.L{pre, stages}
}

func main() {
	hv.Main(&hv.Spec{Prop: "C10", Gen: gen, Impl: impl, Setup: setup, NQuick: 2500, NThorough: 100000})
}
