// C12: HostTable.LookupCluster (basic rule tree, ADVANCED_MODE, ordered advanced rules) vs model ClusterLookup.v.
// The route table is written as JSON and loaded with route_rule_conf.RouteConfLoad (conditions built by
// condition.Build), then installed with HostTable.Update.
// input : [stage..]  stage=[products requests]  products=[[name basic adv]..]  basic=[]|[rules]
//         adv=[]|[[[kind args cluster]..]]  requests=[[product host path method url]..]  (url 0 = nil URL)
//         The stages are loaded into the SAME HostTable in order (Update, then requests): act -> reload -> act.
// output: per stage [[cluster err]..]  (err 0 ok, 1 ErrNoProductRule, 2 ErrNoMatchRule) ; Err(1) = file rejected
// Several products share one pool of hosts/paths, so the same (host, path) is a basic hit in one product and a
// miss in another: each request must be answered from the rules of its own product only.
package main

import (
	"encoding/json"
	"net/url"
	"os"
	"path/filepath"
	"strings"

	"verif/harness/hv"

	"github.com/bfenetworks/bfe/bfe_basic"
	"github.com/bfenetworks/bfe/bfe_config/bfe_route_conf/host_rule_conf"
	"github.com/bfenetworks/bfe/bfe_config/bfe_route_conf/route_rule_conf"
	"github.com/bfenetworks/bfe/bfe_config/bfe_route_conf/vip_rule_conf"
	"github.com/bfenetworks/bfe/bfe_http"
	"github.com/bfenetworks/bfe/bfe_route"
)

var tmpdir string

func setup(string) {
	d, err := os.MkdirTemp("", "verif-c12-")
	if err != nil {
		panic(err)
	}
	tmpdir = d
}

type ruleFile struct {
	Hostname    []string
	Path        []string
	ClusterName string
}
type advFile struct {
	Cond        string
	ClusterName string
}

func strs(v hv.Val) []string {
	out := []string{}
	for _, x := range hv.AsList(v) {
		out = append(out, hv.AsStr(x))
	}
	return out
}

func impl(in hv.Val) hv.Val {
	ht := new(bfe_route.HostTable)
	out := hv.L{}
	for _, st := range hv.AsList(in) {
		out = append(out, implStage(ht, st))
	}
	return out
}

func implStage(ht *bfe_route.HostTable, in hv.Val) hv.Val {
	top := hv.AsList(in)
	basic := map[string]interface{}{}
	advm := map[string]interface{}{}
	for _, pv := range hv.AsList(top[0]) {
		pl := hv.AsList(pv)
		name := hv.AsStr(pl[0])
		if b := hv.AsList(pl[1]); len(b) == 1 {
			rules := []ruleFile{}
			for _, rv := range hv.AsList(b[0]) {
				l := hv.AsList(rv)
				rules = append(rules, ruleFile{strs(l[0]), strs(l[1]), hv.AsStr(l[2])})
			}
			basic[name] = rules
		}
		if a := hv.AsList(pl[2]); len(a) == 1 {
			rules := []advFile{}
			for _, rv := range hv.AsList(a[0]) {
				l := hv.AsList(rv)
				args := strings.Join(strs(l[1]), "|")
				var cond string
				switch hv.AsInt(l[0]) {
				case 0:
					cond = "default_t()"
				case 1:
					cond = `req_method_in("` + args + `")`
				default:
					cond = `req_path_prefix_in("` + args + `", false)`
				}
				rules = append(rules, advFile{cond, hv.AsStr(l[2])})
			}
			advm[name] = rules
		}
	}
	file := map[string]interface{}{"Version": "v1", "BasicRule": basic, "ProductRule": advm}
	b, err := json.Marshal(file)
	if err != nil {
		panic(err)
	}
	p := filepath.Join(tmpdir, "route_rule.data")
	if err := os.WriteFile(p, b, 0o644); err != nil {
		panic(err)
	}
	conf, err := route_rule_conf.RouteConfLoad(p)
	if err != nil {
		return hv.Err(1)
	}
	ht.Update(host_rule_conf.HostConf{}, vip_rule_conf.VipConf{}, conf)
	out := hv.L{}
	for _, qv := range hv.AsList(top[1]) {
		q := hv.AsList(qv)
		req := &bfe_basic.Request{
			Session:     &bfe_basic.Session{},
			HttpRequest: &bfe_http.Request{Host: hv.AsStr(q[1]), Method: hv.AsStr(q[3])},
		}
		if hv.AsInt(q[4]) != 0 {
			req.HttpRequest.URL = &url.URL{Path: hv.AsStr(q[2])}
		}
		req.Route.Product = hv.AsStr(q[0])
		err = ht.LookupCluster(req)
		code := 0
		switch {
		case err == nil:
		case err == bfe_route.ErrNoProductRule && req.Route.Error == err:
			code = 1
		case err == bfe_route.ErrNoMatchRule && req.Route.Error == err:
			code = 2
		default:
			code = 9
		}
		out = append(out, hv.L{hv.S(req.Route.ClusterName), hv.I(code)})
	}
	return out
}

var words = []string{"a", "b", "com", "net", "www"}
var elems = []string{"foo", "bar", "a", "foobar"}
var methods = []string{"GET", "POST", "PUT", "HEAD"}

func flipCase(r *hv.Rng, s string) string {
	b := []byte(s)
	for i := range b {
		if r.Chance(1, 3) && b[i] >= 'a' && b[i] <= 'z' {
			b[i] -= 32
		}
	}
	return string(b)
}

func hostKey(h string) string {
	w := ""
	if strings.HasPrefix(h, "*") {
		w = "W"
		h = h[1:]
	}
	h = strings.ToUpper(h)
	if strings.HasSuffix(h, ".") {
		h = h[:len(h)-1]
	}
	return w + "|" + h
}
func pathKey(p string) string {
	if strings.HasSuffix(p, "*") {
		k := p[:len(p)-1]
		if len(k) > 0 && k[len(k)-1] != '/' {
			k += "/"
		}
		return "W|" + k
	}
	return "E|" + p
}

type ruleT struct {
	hosts, paths []string
}

func genStage(r *hv.Rng, hostBases, pathBases [][]string) (string, hv.Val, hv.L, [][]string, [][]string) {
	labels := func() []string {
		if len(hostBases) > 0 && r.Chance(3, 5) {
			b := hostBases[r.Intn(len(hostBases))]
			if r.Chance(1, 3) {
				return append([]string{r.Pick(words)}, b...)
			}
			return append([]string{}, b...)
		}
		ls := make([]string, r.Range(1, 3))
		for k := range ls {
			ls[k] = r.Pick(words)
		}
		return ls
	}
	pelems := func() []string {
		if len(pathBases) > 0 && r.Chance(3, 5) {
			b := pathBases[r.Intn(len(pathBases))]
			if r.Chance(1, 3) {
				return append(append([]string{}, b...), r.Pick(elems))
			}
			return append([]string{}, b...)
		}
		es := make([]string, r.Range(0, 2))
		for k := range es {
			es[k] = r.Pick(elems)
		}
		return es
	}
	nProd := r.Range(2, 4)
	if r.Chance(1, 8) {
		nProd = 1
	}
	names := []string{"pa", "pb", "pc", "pd"}[:nProd]
	var pool []ruleT // basic rules already used by some product: reused verbatim by the others
	prods := hv.L{}
	nBasic, nAdv := 0, 0
	for pi, name := range names {
		tag := string(rune('a' + pi))
		basic := hv.L{}
		if r.Chance(5, 6) {
			nBasic++
			rules := hv.L{}
			used := map[string]bool{}
			for k := r.Range(0, 5); k > 0; k-- {
				var hosts, paths []string
				if len(pool) > 0 && r.Chance(1, 3) { // the very same hosts/paths as a rule of another product
					t := pool[r.Intn(len(pool))]
					hosts, paths = t.hosts, t.paths
				} else {
					nh, np := r.Range(0, 2), r.Range(0, 2)
					if nh == 0 && np == 0 {
						nh = 1
					}
					for j := 0; j < nh; j++ {
						ls := labels()
						hostBases = append(hostBases, ls)
						h := strings.Join(ls, ".")
						switch x := r.Intn(10); {
						case x < 3:
							h = "*." + h
						case x == 3:
							h = "*"
						}
						if r.Chance(1, 5) {
							h = flipCase(r, h)
						}
						hosts = append(hosts, h)
					}
					for j := 0; j < np; j++ {
						es := pelems()
						pathBases = append(pathBases, es)
						p := "/" + strings.Join(es, "/")
						switch x := r.Intn(10); {
						case x < 4:
							p += "*"
						case x == 4:
							p = "*"
						}
						paths = append(paths, p)
					}
				}
				eh, ep := hosts, paths
				if len(eh) == 0 {
					eh = []string{"*"}
				}
				if len(ep) == 0 {
					ep = []string{"*"}
				}
				dup := false
				local := map[string]bool{}
				for _, h := range eh {
					for _, p := range ep {
						key := hostKey(h) + "#" + pathKey(p)
						if used[key] || local[key] {
							dup = true
						}
						local[key] = true
					}
				}
				if dup && !r.Chance(1, 80) {
					continue
				}
				for key := range local {
					used[key] = true
				}
				pool = append(pool, ruleT{hosts, paths})
				cl := "c" + tag + string(rune('0'+r.Intn(10)))
				if r.Chance(1, 3) {
					cl = "ADVANCED_MODE"
				}
				if r.Chance(1, 40) {
					cl = r.Pick([]string{"", "advanced_mode", "ADVANCED_MODE "})
				}
				rules = append(rules, hv.L{hv.LS(hosts), hv.LS(paths), hv.S(cl)})
			}
			basic = hv.L{rules}
		}
		adv := hv.L{}
		if r.Chance(5, 6) {
			nAdv++
			rules := hv.L{}
			n := r.Range(0, 5)
			for k := 0; k < n; k++ {
				cl := "a" + tag + string(rune('0'+r.Intn(6)))
				if r.Chance(1, 25) {
					cl = r.Pick([]string{"", "ADVANCED_MODE"})
				}
				var kind int
				args := []string{}
				switch x := r.Intn(10); {
				case x < 2 || (k == n-1 && x < 6):
					kind = 0
				case x < 6:
					kind = 1
					for j := r.Range(1, 2); j > 0; j-- {
						args = append(args, r.Pick(methods))
					}
				default:
					kind = 2
					for j := r.Range(1, 2); j > 0; j-- {
						p := "/" + strings.Join(pelems(), "/")
						if r.Chance(1, 4) {
							p = p[:r.Range(1, len(p))]
						}
						args = append(args, p)
					}
				}
				rules = append(rules, hv.L{hv.I(kind), hv.LS(args), hv.S(cl)})
			}
			adv = hv.L{rules}
		}
		prods = append(prods, hv.L{hv.S(name), basic, adv})
	}
	// requests
	reqs := hv.L{}
	for k := r.Range(3, 6); k > 0; k-- {
		prod := names[r.Intn(len(names))]
		if r.Chance(1, 15) {
			prod = "px" // not in the table
		}
		var ls []string
		if len(hostBases) > 0 && r.Chance(5, 6) {
			b := hostBases[r.Intn(len(hostBases))]
			switch r.Intn(4) {
			case 0, 1:
				ls = append([]string{r.Pick(words)}, b...)
			case 2:
				ls = append([]string{}, b...)
			default:
				ls = append([]string{r.Pick(words), r.Pick(words)}, b...)
			}
		} else {
			ls = make([]string, r.Range(1, 3))
			for j := range ls {
				ls[j] = r.Pick(words)
			}
		}
		h := strings.Join(ls, ".")
		if r.Chance(1, 4) {
			h = flipCase(r, h)
		}
		if r.Chance(1, 8) {
			h += "."
		}
		switch r.Intn(5) {
		case 0, 1:
			h += ":8080"
		case 2:
			if r.Chance(1, 3) {
				h += ":80:x"
			}
		}
		var es []string
		if len(pathBases) > 0 && r.Chance(5, 6) {
			b := pathBases[r.Intn(len(pathBases))]
			switch r.Intn(3) {
			case 0:
				es = append(append([]string{}, b...), r.Pick(elems))
			default:
				es = append([]string{}, b...)
			}
		} else {
			es = make([]string, r.Range(0, 3))
			for j := range es {
				es[j] = r.Pick(elems)
			}
		}
		p := "/" + strings.Join(es, "/")
		if r.Chance(1, 8) {
			p += "bar"
		}
		if r.Chance(1, 30) {
			p = ""
		}
		m := r.Pick(methods)
		if r.Chance(1, 10) {
			m = strings.ToLower(m)
		}
		if r.Chance(1, 15) {
			m = "DELETE"
		}
		u := 1
		if r.Chance(1, 25) {
			u = 0
		}
		reqs = append(reqs, hv.L{hv.S(prod), hv.S(h), hv.S(p), hv.S(m), hv.I(u)})
	}
	class := "prods" + string(rune('0'+nProd)) + "-basic" + string(rune('0'+nBasic)) + "-adv" + string(rune('0'+nAdv))
	if nBasic == 0 && nAdv == 0 {
		class = "prods0-norules"
	}
	return class, hv.L{prods, reqs}, reqs, hostBases, pathBases
}

// 1-3 stages on one HostTable over one shared pool; later stages replay the earlier requests (a tree or an
// advanced list left over from the previous Update would answer them differently)
func gen(r *hv.Rng, i int, tier string) (string, hv.Val) {
	n := 1
	if r.Chance(1, 2) {
		n = r.Range(2, 3)
	}
	var hb, pb [][]string
	stages := hv.L{}
	class := ""
	var prev hv.L
	for k := 0; k < n; k++ {
		c, st, reqs, hb2, pb2 := genStage(r.Fork(2000+k), hb, pb)
		hb, pb = hb2, pb2
		l := hv.AsList(st)
		if k > 0 && r.Chance(1, 6) { // reload to an empty table
			l = hv.L{hv.L{}, l[1]}
			c = "cleared"
		}
		if k > 0 {
			l = hv.L{l[0], append(append(hv.L{}, hv.AsList(l[1])...), prev...)}
		}
		prev = reqs
		stages = append(stages, l)
		if k == 0 {
			class = c[:6] // "prodsN"
		} else if c == "cleared" {
			class += "+cleared"
		} else {
			class += "+reload"
		}
	}
	return class, stages
}

func main() {
	hv.Main(&hv.Spec{Prop: "C12", Gen: gen, Impl: impl, Setup: setup, NQuick: 2500, NThorough: 60000})
}
