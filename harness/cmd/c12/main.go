// C12: HostTable.LookupCluster (basic rule tree, ADVANCED_MODE, ordered advanced rules) vs model ClusterLookup.v.
// The route table is written as JSON and loaded with route_rule_conf.RouteConfLoad (conditions built by
// condition.Build), then installed with HostTable.Update.
// input : [basic adv [host path method]]  basic=[]|[rules]  adv=[]|[[[kind args cluster]..]]
// output: [cluster err]  (err 0 ok, 1 ErrNoProductRule, 2 ErrNoMatchRule) ; Err(1) = configuration rejected
package main

import (
	"encoding/json"
	"net/url"
	"os"
	"path/filepath"
	"strings"

	"verif/harness/hv"

	"github.com/bfenetworks/bfe/bfe_basic"
	"github.com/bfenetworks/bfe/bfe_config/bfe_route_conf/host_rule_conf"
	"github.com/bfenetworks/bfe/bfe_config/bfe_route_conf/route_rule_conf"
	"github.com/bfenetworks/bfe/bfe_config/bfe_route_conf/vip_rule_conf"
	"github.com/bfenetworks/bfe/bfe_http"
	"github.com/bfenetworks/bfe/bfe_route"
)

var tmpdir string

func setup(string) {
	d, err := os.MkdirTemp("", "verif-c12-")
	if err != nil {
		panic(err)
	}
	tmpdir = d
}

type ruleFile struct {
	Hostname    []string
	Path        []string
	ClusterName string
}
type advFile struct {
	Cond        string
	ClusterName string
}

func strs(v hv.Val) []string {
	out := []string{}
	for _, x := range hv.AsList(v) {
		out = append(out, hv.AsStr(x))
	}
	return out
}

func impl(in hv.Val) hv.Val {
	top := hv.AsList(in)
	basic := map[string]interface{}{}
	if b := hv.AsList(top[0]); len(b) == 1 {
		rules := []ruleFile{}
		for _, rv := range hv.AsList(b[0]) {
			l := hv.AsList(rv)
			rules = append(rules, ruleFile{strs(l[0]), strs(l[1]), hv.AsStr(l[2])})
		}
		basic["prod"] = rules
	}
	file := map[string]interface{}{"Version": "v1", "BasicRule": basic}
	if a := hv.AsList(top[1]); len(a) == 1 {
		rules := []advFile{}
		for _, rv := range hv.AsList(a[0]) {
			l := hv.AsList(rv)
			args := strings.Join(strs(l[1]), "|")
			var cond string
			switch hv.AsInt(l[0]) {
			case 0:
				cond = "default_t()"
			case 1:
				cond = `req_method_in("` + args + `")`
			default:
				cond = `req_path_prefix_in("` + args + `", false)`
			}
			rules = append(rules, advFile{cond, hv.AsStr(l[2])})
		}
		file["ProductRule"] = map[string]interface{}{"prod": rules}
	}
	b, err := json.Marshal(file)
	if err != nil {
		panic(err)
	}
	p := filepath.Join(tmpdir, "route_rule.data")
	if err := os.WriteFile(p, b, 0o644); err != nil {
		panic(err)
	}
	conf, err := route_rule_conf.RouteConfLoad(p)
	if err != nil {
		return hv.Err(1)
	}
	ht := new(bfe_route.HostTable)
	ht.Update(host_rule_conf.HostConf{}, vip_rule_conf.VipConf{}, conf)
	q := hv.AsList(top[2])
	req := &bfe_basic.Request{
		Session:     &bfe_basic.Session{},
		HttpRequest: &bfe_http.Request{Host: hv.AsStr(q[0]), Method: hv.AsStr(q[2]), URL: &url.URL{Path: hv.AsStr(q[1])}},
	}
	req.Route.Product = "prod"
	err = ht.LookupCluster(req)
	code := 0
	switch {
	case err == nil:
	case err == bfe_route.ErrNoProductRule && req.Route.Error == err:
		code = 1
	case err == bfe_route.ErrNoMatchRule && req.Route.Error == err:
		code = 2
	default:
		code = 9
	}
	return hv.L{hv.S(req.Route.ClusterName), hv.I(code)}
}

var words = []string{"a", "b", "com", "net", "www"}
var elems = []string{"foo", "bar", "a", "foobar"}
var methods = []string{"GET", "POST", "PUT", "HEAD"}

func flipCase(r *hv.Rng, s string) string {
	b := []byte(s)
	for i := range b {
		if r.Chance(1, 3) && b[i] >= 'a' && b[i] <= 'z' {
			b[i] -= 32
		}
	}
	return string(b)
}

func hostKey(h string) string {
	w := ""
	if strings.HasPrefix(h, "*") {
		w = "W"
		h = h[1:]
	}
	h = strings.ToUpper(h)
	if strings.HasSuffix(h, ".") {
		h = h[:len(h)-1]
	}
	return w + "|" + h
}
func pathKey(p string) string {
	if strings.HasSuffix(p, "*") {
		k := p[:len(p)-1]
		if len(k) > 0 && k[len(k)-1] != '/' {
			k += "/"
		}
		return "W|" + k
	}
	return "E|" + p
}

func gen(r *hv.Rng, i int, tier string) (string, hv.Val) {
	var hostBases, pathBases [][]string
	labels := func() []string {
		if len(hostBases) > 0 && r.Chance(1, 2) {
			b := hostBases[r.Intn(len(hostBases))]
			if r.Bool() {
				return append([]string{r.Pick(words)}, b...)
			}
			return append([]string{}, b...)
		}
		ls := make([]string, r.Range(1, 3))
		for k := range ls {
			ls[k] = r.Pick(words)
		}
		return ls
	}
	pelems := func() []string {
		if len(pathBases) > 0 && r.Chance(1, 2) {
			b := pathBases[r.Intn(len(pathBases))]
			if r.Bool() {
				return append(append([]string{}, b...), r.Pick(elems))
			}
			return append([]string{}, b...)
		}
		es := make([]string, r.Range(0, 2))
		for k := range es {
			es[k] = r.Pick(elems)
		}
		return es
	}
	class := ""
	basic := hv.L{}
	if r.Chance(5, 6) {
		rules := hv.L{}
		used := map[string]bool{}
		for k := r.Range(0, 6); k > 0; k-- {
			var hosts, paths []string
			nh, np := r.Range(0, 2), r.Range(0, 2)
			if nh == 0 && np == 0 {
				nh = 1
			}
			for j := 0; j < nh; j++ {
				ls := labels()
				hostBases = append(hostBases, ls)
				h := strings.Join(ls, ".")
				switch x := r.Intn(10); {
				case x < 3:
					h = "*." + h
				case x == 3:
					h = "*"
				}
				if r.Chance(1, 5) {
					h = flipCase(r, h)
				}
				hosts = append(hosts, h)
			}
			for j := 0; j < np; j++ {
				es := pelems()
				pathBases = append(pathBases, es)
				p := "/" + strings.Join(es, "/")
				switch x := r.Intn(10); {
				case x < 4:
					p += "*"
				case x == 4:
					p = "*"
				}
				paths = append(paths, p)
			}
			eh, ep := hosts, paths
			if len(eh) == 0 {
				eh = []string{"*"}
			}
			if len(ep) == 0 {
				ep = []string{"*"}
			}
			dup := false
			local := map[string]bool{}
			for _, h := range eh {
				for _, p := range ep {
					key := hostKey(h) + "#" + pathKey(p)
					if used[key] || local[key] {
						dup = true
					}
					local[key] = true
				}
			}
			if dup && !r.Chance(1, 60) {
				continue
			}
			for key := range local {
				used[key] = true
			}
			cl := "c" + string(rune('0'+r.Intn(10)))
			if r.Chance(1, 3) {
				cl = "ADVANCED_MODE"
			}
			if r.Chance(1, 40) {
				cl = r.Pick([]string{"", "advanced_mode", "ADVANCED_MODE "})
			}
			rules = append(rules, hv.L{hv.LS(hosts), hv.LS(paths), hv.S(cl)})
		}
		basic = hv.L{rules}
		class = "basic"
	} else {
		class = "nobasic"
	}
	adv := hv.L{}
	if r.Chance(9, 10) {
		rules := hv.L{}
		n := r.Range(0, 6)
		for k := 0; k < n; k++ {
			cl := "a" + string(rune('0'+r.Intn(6)))
			if r.Chance(1, 25) {
				cl = r.Pick([]string{"", "ADVANCED_MODE"})
			}
			var kind int
			args := []string{}
			switch x := r.Intn(10); {
			case x < 2 || (k == n-1 && x < 6):
				kind = 0
			case x < 6:
				kind = 1
				for j := r.Range(1, 2); j > 0; j-- {
					args = append(args, r.Pick(methods))
				}
			default:
				kind = 2
				for j := r.Range(1, 2); j > 0; j-- {
					p := "/" + strings.Join(pelems(), "/")
					if r.Chance(1, 4) {
						p = p[:r.Range(1, len(p))]
					}
					args = append(args, p)
				}
			}
			rules = append(rules, hv.L{hv.I(kind), hv.LS(args), hv.S(cl)})
		}
		adv = hv.L{rules}
		class += "+adv"
	} else {
		class += "+noadv"
	}
	// request
	var ls []string
	if len(hostBases) > 0 && r.Chance(5, 6) {
		b := hostBases[r.Intn(len(hostBases))]
		switch r.Intn(4) {
		case 0, 1:
			ls = append([]string{r.Pick(words)}, b...)
		case 2:
			ls = append([]string{}, b...)
		default:
			ls = append([]string{r.Pick(words), r.Pick(words)}, b...)
		}
	} else {
		ls = make([]string, r.Range(1, 3))
		for j := range ls {
			ls[j] = r.Pick(words)
		}
	}
	h := strings.Join(ls, ".")
	if r.Chance(1, 4) {
		h = flipCase(r, h)
	}
	if r.Chance(1, 8) {
		h += "."
	}
	switch r.Intn(5) {
	case 0, 1:
		h += ":8080"
	case 2:
		if r.Chance(1, 3) {
			h += ":80:x"
		}
	}
	var es []string
	if len(pathBases) > 0 && r.Chance(5, 6) {
		b := pathBases[r.Intn(len(pathBases))]
		switch r.Intn(3) {
		case 0:
			es = append(append([]string{}, b...), r.Pick(elems))
		default:
			es = append([]string{}, b...)
		}
	} else {
		es = make([]string, r.Range(0, 3))
		for j := range es {
			es[j] = r.Pick(elems)
		}
	}
	p := "/" + strings.Join(es, "/")
	if r.Chance(1, 8) {
		p += "bar"
	}
	if r.Chance(1, 30) {
		p = ""
	}
	m := r.Pick(methods)
	if r.Chance(1, 10) {
		m = strings.ToLower(m)
	}
	if r.Chance(1, 15) {
		m = "DELETE"
	}
	return class, hv.L{basic, adv, hv.L{hv.S(h), hv.S(p), hv.S(m)}}
}

func main() {
	hv.Main(&hv.Spec{Prop: "C12", Gen: gen, Impl: impl, Setup: setup, NQuick: 4000, NThorough: 100000})
}
