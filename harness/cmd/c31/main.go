// C31: hpack.Decoder.Write/Close on arbitrary byte strings, split at random points, vs model Hpack.v
// and the RFC 7541 reference decoder in the same file.
// input : [mx M k [chunk ...]]  (k: SetEmitEnabled(false) after k emitted fields, -1 never)    NewDecoder(mx); SetMaxStringLength(M) if M > 0; Write(chunk)... until error; Close()
// output: [fields status tableSize tableMax tableEntries]
package main

import (
	"verif/harness/hv"

	"github.com/bfenetworks/bfe/bfe_http2/hpack"
)

func errCode(err error) int {
	if err == nil {
		return 0
	}
	if de, ok := err.(hpack.DecodingError); ok {
		if _, ok := de.Err.(hpack.InvalidIndexError); ok {
			return 1
		}
		switch de.Err.Error() {
		case "varint integer overflow":
			return 2
		case "dynamic table size update too large":
			return 3
		case "invalid encoding":
			return 5
		case "truncated headers":
			return 6
		case "dynamic table size update MUST occur at the beginning of a header block":
			return 8
		}
		return 50
	}
	switch err {
	case hpack.ErrInvalidHuffman:
		return 4
	case hpack.ErrStringLength:
		return 4 // one class with ErrInvalidHuffman: huffmanDecode reports whichever it meets first
	}
	return 51
}

func impl(in hv.Val) hv.Val {
	l := hv.AsList(in)
	fs := hv.L{}
	budget := int(hv.AsInt(l[2]))
	var dec *hpack.Decoder
	dec = hpack.NewDecoder(uint32(hv.AsInt(l[0])), func(f hpack.HeaderField) error {
		fs = append(fs, hv.L{hv.B([]byte(f.Name)), hv.B([]byte(f.Value)), hv.Bool(f.Sensitive)})
		if budget >= 0 && len(fs) >= budget {
			dec.SetEmitEnabled(false)
		}
		return nil
	})
	if budget == 0 {
		dec.SetEmitEnabled(false)
	}
	if m := hv.AsInt(l[1]); m > 0 {
		dec.SetMaxStringLength(int(m))
	}
	var err error
	for _, c := range hv.AsList(l[3]) {
		if _, err = dec.Write(hv.AsBytes(c)); err != nil {
			break
		}
	}
	if err == nil {
		err = dec.Close()
	}
	sz, mx, n := hpack.VerifDecTable(dec)
	return hv.L{fs, hv.I(errCode(err)), hv.U(uint64(sz)), hv.U(uint64(mx)), hv.I(n)}
}

// ---- block builder -------------------------------------------------------------------------------
func varint(n uint, i uint64, flag byte, r *hv.Rng) []byte {
	k := uint64(1)<<n - 1
	if i < k {
		if r != nil && r.Chance(1, 30) { // non-canonical: prefix all ones + continuation(s)  (only if i >= k; so pad zeros)
			return []byte{flag | byte(i)}
		}
		return []byte{flag | byte(i)}
	}
	out := []byte{flag | byte(k)}
	i -= k
	for i >= 128 {
		out = append(out, byte(0x80|(i&0x7f)))
		i >>= 7
	}
	out = append(out, byte(i))
	if r != nil && r.Chance(1, 12) { // over-long form: extra zero continuation octets (legal up to the length limit)
		out[len(out)-1] |= 0x80
		for z := r.Range(0, 9); z > 0; z-- {
			out = append(out, 0x80)
		}
		out = append(out, 0)
	}
	return out
}

type bitw struct {
	b []byte
	n uint // bits used in last byte (0..7); 0 = aligned
}

func (w *bitw) put(code uint32, nbits uint8) {
	for k := int(nbits) - 1; k >= 0; k-- {
		if w.n == 0 {
			w.b = append(w.b, 0)
		}
		if code>>uint(k)&1 == 1 {
			w.b[len(w.b)-1] |= 1 << (7 - w.n)
		}
		w.n = (w.n + 1) % 8
	}
}

// Huffman body with a chosen tail; returns bytes and a label
func huffBody(r *hv.Rng, s []byte) ([]byte, string) {
	w := &bitw{}
	eosAt := -1
	mode := r.Intn(12)
	if mode == 0 && len(s) > 0 {
		eosAt = r.Intn(len(s) + 1)
	}
	for i, c := range s {
		if i == eosAt {
			w.put(0x3fffffff, 30)
		}
		code, n := hpack.VerifHuffCode(c)
		w.put(code, n)
	}
	if eosAt == len(s) {
		w.put(0x3fffffff, 30)
	}
	label := "huff"
	switch mode {
	case 0:
		label = "huff-eos"
	case 1: // over-long padding: fill and add whole bytes of ones
		for w.n != 0 {
			w.put(1, 1)
		}
		for k := r.Range(1, 4); k > 0; k-- {
			w.b = append(w.b, 0xff)
		}
		return w.b, "huff-longpad"
	case 2: // padding with a zero bit somewhere
		if w.n != 0 {
			rem := 8 - w.n
			z := uint(r.Intn(int(rem)))
			for k := uint(0); k < rem; k++ {
				if k == z {
					w.put(0, 1)
				} else {
					w.put(1, 1)
				}
			}
			return w.b, "huff-zeropad"
		}
	case 3: // incomplete symbol: a proper prefix of a long code
		code, n := hpack.VerifHuffCode(byte(r.Intn(256)))
		cut := uint8(r.Range(1, int(n)-1))
		w.put(code>>(n-cut), cut)
		label = "huff-partial"
	case 4: // exactly 8..15 one bits after the last symbol
		for k := r.Range(8, 15); k > 0; k-- {
			w.put(1, 1)
		}
		label = "huff-ones"
	}
	for w.n != 0 {
		w.put(1, 1)
	}
	return w.b, label
}

var names = []string{":method", ":path", "cookie", "x-custom", "x", "", "accept-encoding", "user-agent"}
var values = []string{"GET", "/", "200", "gzip, deflate", "", "a", "session=0123456789abcdef", "0", "01", "no-cache"}

func genStr(r *hv.Rng, pool []string, label *string) []byte {
	var s []byte
	switch r.Intn(5) {
	case 0:
		s = r.Bytes(r.Range(0, 40))
	case 1:
		n := r.Range(0, 200)
		s = make([]byte, n)
		for i := range s {
			s[i] = "abcdefghijklmnopqrstuvwxyz0123456789-/ ="[r.Intn(40)]
		}
	default:
		s = []byte(r.Pick(pool))
	}
	if r.Chance(1, 2) {
		body, lab := huffBody(r, s)
		if lab != "huff" {
			*label = lab
		}
		return append(varint(7, uint64(len(body)), 0x80, r), body...)
	}
	if r.Chance(1, 40) { // random bytes as a Huffman body
		body := r.Bytes(r.Range(1, 12))
		*label = "huff-random"
		return append(varint(7, uint64(len(body)), 0x80, nil), body...)
	}
	return append(varint(7, uint64(len(s)), 0, r), s...)
}

func genBlock(r *hv.Rng, mx int) ([]byte, string) {
	var b []byte
	label := "valid"
	dyn := 0 // rough count of dynamic entries
	nrep := r.Range(1, 10)
	leading := r.Intn(3) // size updates at the beginning of the block
	for k := 0; k < nrep; k++ {
		sel := r.Intn(10)
		if k < leading {
			sel = 8
		} else if sel == 8 && !r.Chance(1, 3) {
			sel = r.Intn(8) // most blocks have no late size update
		}
		switch sel {
		case 0, 1, 2: // indexed
			idx := uint64(r.Range(1, 61+dyn))
			if r.Chance(1, 15) {
				idx = uint64([]int{0, 62 + dyn, 61 + dyn + r.Range(1, 300), 1 << 20}[r.Intn(4)])
				label = "bad-index"
			}
			b = append(b, varint(7, idx, 0x80, r)...)
		case 3, 4, 5: // literal with incremental indexing
			if r.Bool() {
				b = append(b, varint(6, uint64(r.Range(1, 61+dyn)), 0x40, r)...)
			} else {
				b = append(b, 0x40)
				b = append(b, genStr(r, names, &label)...)
			}
			b = append(b, genStr(r, values, &label)...)
			dyn++
		case 6, 7: // without indexing / never indexed
			flag := byte(0)
			if r.Bool() {
				flag = 0x10
			}
			if r.Bool() {
				idx := uint64(r.Range(1, 61+dyn))
				if r.Chance(1, 15) {
					idx = uint64(62 + dyn + r.Intn(3))
					label = "bad-index"
				}
				b = append(b, varint(4, idx, flag, r)...)
			} else {
				b = append(b, flag)
				b = append(b, genStr(r, names, &label)...)
			}
			b = append(b, genStr(r, values, &label)...)
		case 8: // size update
			v := uint64(r.Range(0, mx))
			switch r.Intn(6) {
			case 0:
				v = 0
			case 1:
				v = uint64(mx)
			case 2:
				v = uint64(mx) + 1
				label = "size-too-large"
			case 3:
				v = uint64(mx) + uint64(r.Range(1, 1<<20))
				label = "size-too-large"
			case 4: // would fit after truncation to uint32
				v = uint64(1)<<32*uint64(r.Range(1, 3)) + uint64(r.Range(0, mx))
				label = "size-over-2^32"
			}
			if k >= leading && k > 0 && label == "valid" {
				label = "size-update-late"
			}
			b = append(b, varint(5, v, 0x20, r)...)
			if v < 64 {
				dyn = 0
			}
		default: // huge / overflowing integers
			flag := []byte{0x80, 0x40, 0x00, 0x10, 0x20}[r.Intn(5)]
			n := []uint{7, 6, 4, 4, 5}[map[byte]int{0x80: 0, 0x40: 1, 0x00: 2, 0x10: 3, 0x20: 4}[flag]]
			out := []byte{flag | byte(1<<n-1)}
			for z := r.Range(1, 11); z > 0; z-- {
				out = append(out, 0x80|byte(r.Intn(128)))
			}
			out = append(out, byte(r.Intn(128)))
			b = append(b, out...)
			label = "big-int"
		}
	}
	return b, label
}

func gen(r *hv.Rng, i int, tier string) (string, hv.Val) {
	mx := []int{0, 64, 100, 256, 4096, 4096, 65536}[r.Intn(7)]
	var blk []byte
	var label string
	switch r.Intn(12) {
	case 0: // plain random bytes
		blk, label = r.Bytes(r.Range(0, 30)), "random"
	case 1: // real encoder output
		var w wbuf
		enc := hpack.NewEncoder(&w)
		enc.SetMaxDynamicTableSizeLimit(uint32(mx))
		for k := r.Range(1, 8); k > 0; k-- {
			if r.Chance(1, 5) {
				enc.SetMaxDynamicTableSize(uint32(r.Range(0, mx+10)))
			}
			enc.WriteField(hpack.HeaderField{Name: r.Pick(names), Value: r.Pick(values), Sensitive: r.Chance(1, 6)})
		}
		blk, label = w.b, "encoder"
	default:
		blk, label = genBlock(r, mx)
	}
	// mutate
	if len(blk) > 0 {
		switch r.Intn(10) {
		case 0:
			blk[r.Intn(len(blk))] ^= 1 << uint(r.Intn(8))
			label += "+mut"
		case 1:
			blk = blk[:r.Intn(len(blk))]
			label += "+mut"
		case 2:
			p := r.Intn(len(blk) + 1)
			blk = append(append(append([]byte(nil), blk[:p]...), byte(r.Intn(256))), blk[p:]...)
			label += "+mut"
		case 3:
			blk[r.Intn(len(blk))] = byte(r.Intn(256))
			label += "+mut"
		}
	}
	// split
	chunks := hv.L{}
	switch r.Intn(4) {
	case 0:
		chunks = append(chunks, hv.B(blk))
	case 1: // byte by byte
		for _, c := range blk {
			chunks = append(chunks, hv.B{c})
		}
		label += "/split"
	default:
		rest := blk
		for len(rest) > 0 {
			n := r.Range(0, len(rest))
			if r.Chance(1, 2) && n > 3 {
				n = r.Range(1, 3)
			}
			chunks = append(chunks, hv.B(append([]byte(nil), rest[:n]...)))
			rest = rest[n:]
		}
		label += "/split"
	}
	if len(blk) == 0 {
		label = "triv-empty"
	}
	// string length limit: mostly the default; otherwise around the string lengths the builder uses
	m := 0
	if r.Chance(1, 3) {
		m = []int{1, 2, 3, 5, 8, 9, 10, 11, 13, 14, 15, 16, 23, 24, 25, 40, 100}[r.Intn(17)]
		if r.Chance(1, 4) {
			m = r.Range(1, 30)
		}
		label = "lim:" + label
	}
	if r.Chance(1, 80) {
		// Write refuses to buffer more than 2*(M+8) bytes of an incomplete representation: only reachable with
		// M = 1 and over-long integers (10-byte name index + unfinished 9-byte length = 19 > 18); 17..19 bytes
		blk := []byte{[]byte{0x0f, 0x1f, 0x7f}[r.Intn(3)], 0x80, 0x80, 0x80, 0x80, 0x80, 0x80, 0x80, 0x80, 0x00, 0x7f}
		for k := r.Range(6, 8); k > 0; k-- {
			blk = append(blk, 0x80)
		}
		chunks = hv.L{}
		if r.Bool() {
			chunks = append(chunks, hv.B(blk))
		} else {
			cut := r.Range(1, len(blk)-1)
			chunks = append(chunks, hv.B(blk[:cut]), hv.B(blk[cut:]))
		}
		return "lim-paranoia", hv.L{hv.I(mx), hv.I(r.Range(1, 2)), hv.I(-1), chunks}
	}
	// emit budget: mostly never disabled; otherwise disabled from the start or after a few fields
	k := -1
	if r.Chance(1, 3) {
		k = []int{0, 0, 1, 1, 2, 3, 5}[r.Intn(7)]
		label = "emitoff:" + label
	}
	return label, hv.L{hv.I(mx), hv.I(m), hv.I(k), chunks}
}

type wbuf struct{ b []byte }

func (w *wbuf) Write(p []byte) (int, error) { w.b = append(w.b, p...); return len(p), nil }

func main() {
	hv.Main(&hv.Spec{Prop: "C31", Gen: gen, Impl: impl, NQuick: 15000, NThorough: 1000000})
}
