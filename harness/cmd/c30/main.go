// C30: hpack.Encoder -> hpack.Decoder round trip vs model Hpack.v.
// input : [L [op ...]]  op = [0 name value sens] WriteField | [1 v] SetMaxDynamicTableSize | [2] end of block
//
//	| [2 k] end of block, the receiver calls SetEmitEnabled(false) after k emitted fields
//
// output: per block [block fields status encSize encMax decSize decMax]
package main

import (
	"bytes"

	"verif/harness/hv"

	"github.com/bfenetworks/bfe/bfe_http2/hpack"
)

func errCode(err error) int {
	if err == nil {
		return 0
	}
	if de, ok := err.(hpack.DecodingError); ok {
		if _, ok := de.Err.(hpack.InvalidIndexError); ok {
			return 1
		}
		switch de.Err.Error() {
		case "varint integer overflow":
			return 2
		case "dynamic table size update too large":
			return 3
		case "invalid encoding":
			return 5
		case "truncated headers":
			return 6
		case "dynamic table size update MUST occur at the beginning of a header block":
			return 8
		}
		return 50
	}
	switch err {
	case hpack.ErrInvalidHuffman:
		return 4
	case hpack.ErrStringLength:
		return 7
	}
	return 51
}

func fieldVal(f hpack.HeaderField) hv.Val {
	return hv.L{hv.B([]byte(f.Name)), hv.B([]byte(f.Value)), hv.Bool(f.Sensitive)}
}

func impl(in hv.Val) hv.Val {
	l := hv.AsList(in)
	L := uint32(hv.AsInt(l[0]))
	var buf bytes.Buffer
	enc := hpack.NewEncoder(&buf)
	enc.SetMaxDynamicTableSizeLimit(L)
	var got []hpack.HeaderField
	budget := -1
	var dec *hpack.Decoder
	dec = hpack.NewDecoder(4096, func(f hpack.HeaderField) error {
		got = append(got, f)
		if budget >= 0 && len(got) >= budget { // as the HTTP/2 framer does once the header list is too large
			dec.SetEmitEnabled(false)
		}
		return nil
	})
	dec.SetAllowedMaxDynamicTableSize(L)
	out := hv.L{}
	for _, opv := range hv.AsList(l[1]) {
		op := hv.AsList(opv)
		switch hv.AsInt(op[0]) {
		case 0:
			if err := enc.WriteField(hpack.HeaderField{Name: hv.AsStr(op[1]), Value: hv.AsStr(op[2]), Sensitive: hv.AsBool(op[3])}); err != nil {
				return hv.Err(1)
			}
		case 1:
			enc.SetMaxDynamicTableSize(uint32(hv.AsInt(op[1])))
		case 2:
			blk := append([]byte(nil), buf.Bytes()...)
			buf.Reset()
			got = nil
			budget = -1
			dec.SetEmitEnabled(true)
			if len(op) > 1 {
				budget = int(hv.AsInt(op[1]))
				if budget == 0 {
					dec.SetEmitEnabled(false)
				}
			}
			_, err := dec.Write(blk)
			if err == nil {
				err = dec.Close()
			}
			fs := hv.L{}
			for _, f := range got {
				fs = append(fs, fieldVal(f))
			}
			es, em, _ := hpack.VerifEncTable(enc)
			ds, dm, _ := hpack.VerifDecTable(dec)
			out = append(out, hv.L{hv.B(blk), fs, hv.I(errCode(err)), hv.U(uint64(es)), hv.U(uint64(em)), hv.U(uint64(ds)), hv.U(uint64(dm))})
		}
	}
	return out
}

var names = []string{":method", ":path", ":status", ":authority", "accept-encoding", "cookie", "set-cookie", "user-agent",
	"x-custom", "x-trace-id", "x", "", "X-Upper", "content-length", "www-authenticate", "x-very-long-header-name-that-is-not-in-the-static-table"}
var values = []string{"GET", "POST", "/", "/index.html", "200", "404", "gzip, deflate", "", "a", "abc", "https",
	"session=0123456789abcdef", "Mozilla/5.0 (X11; Linux x86_64)", "no-cache", "private"}

func genValue(r *hv.Rng) []byte {
	switch r.Intn(9) {
	case 0, 1, 2:
		return []byte(r.Pick(values))
	case 3: // printable text: Huffman is shorter
		n := r.Range(0, 300)
		b := make([]byte, n)
		for i := range b {
			b[i] = "abcdefghijklmnopqrstuvwxyz0123456789-/ ="[r.Intn(40)]
		}
		return b
	case 4: // binary: Huffman is longer, raw form
		return r.Bytes(r.Range(0, 300))
	case 5: // mix of 8-bit-code symbols and others: Huffman length close to the raw length
		n := r.Range(1, 40)
		b := make([]byte, n)
		for i := range b {
			b[i] = "&*,;XZ!\"()?AB"[r.Intn(13)]
		}
		return b
	case 6: // around the 127 / 128 length boundary of the 7-bit prefix
		n := r.Range(120, 135)
		b := make([]byte, n)
		for i := range b {
			if r.Bool() {
				b[i] = byte(r.Intn(256))
			} else {
				b[i] = 'e'
			}
		}
		return b
	case 7:
		if r.Bool() { // raw form, length exactly around the one-byte length limit 127
			b := r.Bytes(r.Range(125, 130))
			for i := range b {
				b[i] |= 0x80
			}
			return b
		}
		return r.Bytes(r.Range(0, 12))
	default:
		return r.Bytes(r.Range(0, 12))
	}
}

func gen(r *hv.Rng, i int, tier string) (string, hv.Val) {
	var L int
	class := ""
	switch r.Intn(8) {
	case 0:
		L, class = 0, "L0"
	case 1:
		L, class = r.Range(33, 200), "Lsmall"
	case 2:
		L, class = r.Range(200, 1200), "Lmid"
	case 3, 4:
		L, class = 4096, "L4096"
	case 5:
		L, class = r.Range(4097, 70000), "Lbig"
	case 6:
		L, class = r.Range(1, 64), "Ltiny"
	default:
		L, class = r.Range(300, 600), "Lmid"
	}
	// a small per-case pool so that names and whole fields repeat (indexed representations, eviction)
	pool := make([]hv.L, 0, 8)
	np := r.Range(2, 8)
	for k := 0; k < np; k++ {
		nm := []byte(r.Pick(names))
		if r.Chance(1, 8) {
			nm = r.Bytes(r.Range(1, 20))
		}
		pool = append(pool, hv.L{hv.I(0), hv.B(nm), hv.B(genValue(r)), hv.Bool(r.Chance(1, 7))})
	}
	fsz := func(k int) int { return len(hv.AsBytes(pool[k][1])) + len(hv.AsBytes(pool[k][2])) + 32 }
	// boundary streams: table limits equal to one entry size / the sum of two entry sizes, +-1
	// (shouldIndex's <=, evict's >), and many small entries (dynamic indexes >= 127: two-byte 7-bit varints)
	switch r.Intn(10) {
	case 0:
		L, class = fsz(0)+r.Range(-1, 1), "Lexact1"
	case 1:
		L, class = fsz(0)+fsz(1)+r.Range(-1, 1), "Lexact2"
	case 2:
		if r.Chance(1, 3) {
			L, class = 65536, "many"
			ops := hv.L{}
			if r.Bool() {
				ops = append(ops, hv.L{hv.I(1), hv.I(65536)})
			}
			n := r.Range(70, 140)
			for k := 0; k < n; k++ {
				ops = append(ops, hv.L{hv.I(0), hv.B([]byte{'k', byte('a' + k%26), byte('a' + k/26)}), hv.B([]byte{byte('0' + k%10)}), hv.Bool(false)})
				if k%40 == 39 {
					ops = append(ops, hv.L{hv.I(2)})
				}
			}
			ops = append(ops, hv.L{hv.I(2)})
			for k := r.Range(1, 6); k > 0; k-- { // refer back to old entries
				j := r.Intn(n)
				ops = append(ops, hv.L{hv.I(0), hv.B([]byte{'k', byte('a' + j%26), byte('a' + j/26)}), hv.B([]byte{byte('0' + j%10)}), hv.Bool(false)})
				if r.Chance(1, 3) {
					ops = append(ops, hv.L{hv.I(0), hv.B([]byte{'k', byte('a' + j%26), byte('a' + j/26)}), hv.B(genValue(r)), hv.Bool(r.Chance(1, 4))})
				}
			}
			ops = append(ops, hv.L{hv.I(2)})
			return class, hv.L{hv.I(L), ops}
		}
	}
	if L < 0 {
		L = 0
	}
	gm := func() int {
		switch r.Intn(5) {
		case 0:
			return fsz(0) + r.Range(-1, 1)
		case 1:
			return fsz(0) + fsz(1) + r.Range(-1, 1)
		}
		return genMax(r, L)
	}
	ops := hv.L{}
	nb := r.Range(1, 5)
	setmax := false
	emitoff := false
	for b := 0; b < nb; b++ {
		if r.Chance(1, 3) { // size change announced between blocks
			ops = append(ops, hv.L{hv.I(1), hv.I(gm())})
			setmax = true
			if r.Chance(1, 3) {
				ops = append(ops, hv.L{hv.I(1), hv.I(gm())})
			}
		}
		nf := r.Range(0, 12)
		for k := 0; k < nf; k++ {
			if r.Chance(2, 3) {
				ops = append(ops, pool[r.Intn(len(pool))])
			} else {
				ops = append(ops, hv.L{hv.I(0), hv.B([]byte(r.Pick(names))), hv.B(genValue(r)), hv.Bool(r.Chance(1, 7))})
			}
		}
		if r.Chance(1, 3) { // emit disabled after k fields of this block
			k := []int{0, 1, 2, nf - 1, nf, nf + 1, r.Intn(nf + 1)}[r.Intn(7)]
			if k < 0 {
				k = 0
			}
			ops = append(ops, hv.L{hv.I(2), hv.I(k)})
			emitoff = true
		} else {
			ops = append(ops, hv.L{hv.I(2)})
		}
	}
	if emitoff {
		class += "-emitoff"
	}
	if setmax {
		class += "-setmax"
	}
	return class, hv.L{hv.I(L), ops}
}

func genMax(r *hv.Rng, L int) int {
	switch r.Intn(6) {
	case 0:
		return 0
	case 1:
		return L
	case 2:
		return L + r.Range(1, 5000)
	case 3:
		return r.Range(0, 100)
	default:
		return r.Range(0, L+1)
	}
}

func main() {
	hv.Main(&hv.Spec{Prop: "C30", Gen: gen, Impl: impl, NQuick: 2000, NThorough: 120000})
}
