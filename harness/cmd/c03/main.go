// C03: BalanceGslb.Balance never returns an ineligible target — vs model Gslb.v (membership for the clock-seeded
// random cross-cluster choice).   input: [[mode rmax cross] subs ops]   (see coq/run/RunC03.v)
package main

import (
	"fmt"
	"time"
	"net"

	"verif/harness/hv"

	"github.com/bfenetworks/bfe/bfe_balance/backend"
	"github.com/bfenetworks/bfe/bfe_balance/bal_gslb"
	"github.com/bfenetworks/bfe/bfe_balance/bal_slb"
	"github.com/bfenetworks/bfe/bfe_basic"
	"github.com/bfenetworks/bfe/bfe_config/bfe_cluster_conf/cluster_conf"
	"github.com/bfenetworks/bfe/bfe_config/bfe_cluster_conf/cluster_table_conf"
	"github.com/bfenetworks/bfe/bfe_config/bfe_cluster_conf/gslb_conf"
	"github.com/bfenetworks/bfe/bfe_http"
	"github.com/spaolacci/murmur3"
)

func errCode(err error) int {
	switch err {
	case nil:
		return 0
	case bfe_basic.ErrBkNoSubCluster:
		return 1
	case bfe_basic.ErrGslbBlackhole:
		return 2
	case bfe_basic.ErrBkNoBackend:
		return 3
	case bfe_basic.ErrBkNoSubClusterCross:
		return 4
	case bfe_basic.ErrBkCrossRetryBalance:
		return 5
	case bfe_basic.ErrBkRetryTooMany:
		return 6
	}
	return 99
}

func mkConf9(v hv.Val) cluster_table_conf.SubClusterBackend {
	var conf cluster_table_conf.SubClusterBackend
	for _, e := range hv.AsList(v) {
		p := hv.AsList(e)
		id, w := int(hv.AsInt(p[0])), int(hv.AsInt(p[1]))
		name := fmt.Sprintf("b%d", id)
		addr := []string{"10.0.0.1", "fd00::1", "h.example"}[id%3]
		port := 1000 + id
		conf = append(conf, &cluster_table_conf.BackendConf{Name: &name, Addr: &addr, Port: &port, Weight: &w})
	}
	return conf
}

// kind 9: one BalanceRR with slow start
func impl9(top hv.L) hv.Val {
	algor := bal_slb.WrrSmooth
	if hv.AsInt(top[1]) != 0 {
		algor = bal_slb.WlcSmooth
	}
	brr := bal_slb.NewBalanceRR("sub")
	brr.Init(mkConf9(top[2]))
	find := func(id int) *backend.BfeBackend {
		for _, b := range bal_slb.VerifC03Backends(brr) {
			if b.Port-1000 == id {
				return b
			}
		}
		return nil
	}
	out := hv.L{}
	for _, o := range hv.AsList(top[3]) {
		op := hv.AsList(o)
		switch hv.AsInt(op[0]) {
		case 0:
			k := int(hv.AsInt(op[1]))
			ps := make(hv.L, 0, k)
			for j := 0; j < k; j++ {
				b, err := brr.Balance(algor, nil)
				if err != nil || b == nil {
					ps = append(ps, hv.I(-1))
				} else {
					ps = append(ps, hv.I(b.Port-1000))
				}
			}
			out = append(out, ps)
			continue
		case 1:
			brr.Update(mkConf9(op[1]))
		case 2:
			if b := find(int(hv.AsInt(op[1]))); b != nil {
				b.SetAvail(hv.AsBool(op[2]))
			}
		case 3:
			brr.SetSlowStart(int(hv.AsInt(op[1])))
		case 4:
			bal_slb.VerifC03SetElapsed(brr, 1000+int(hv.AsInt(op[1])), time.Duration(hv.AsInt(op[2]))*time.Millisecond)
		case 5:
			if b := find(int(hv.AsInt(op[1]))); b != nil {
				b.SetRestart(true)
			}
		default:
			panic("bad op")
		}
		out = append(out, hv.L{})
	}
	return out
}

func impl(in hv.Val) hv.Val {
	top := hv.AsList(in)
	if len(top) == 4 {
		return impl9(top)
	}
	pr := hv.AsList(top[0])
	modeI, rmax, cross := int(hv.AsInt(pr[0])), int(hv.AsInt(pr[1])), int(hv.AsInt(pr[2]))
	gc := gslb_conf.GslbClusterConf{}
	backs := cluster_table_conf.ClusterBackend{}
	for _, sv := range hv.AsList(top[1]) {
		s := hv.AsList(sv)
		name := hv.AsStr(s[0])
		gc[name] = int(hv.AsInt(s[1]))
		conf := cluster_table_conf.SubClusterBackend{}
		for _, bv := range hv.AsList(s[2]) {
			b := hv.AsList(bv)
			id, w := int(hv.AsInt(b[0])), int(hv.AsInt(b[1]))
			bn := fmt.Sprintf("%s-%d", name, id)
			addr := "10.0.0.1"
			port := 1000 + id
			conf = append(conf, &cluster_table_conf.BackendConf{Name: &bn, Addr: &addr, Port: &port, Weight: &w})
		}
		backs[name] = conf
	}
	bal := bal_gslb.NewBalanceGslb("cluster")
	bal.Init(gc)
	bal.BackendInit(backs)
	st := cluster_conf.ClientIpOnly
	hdr := ""
	sticky := modeI == 2
	spell := (rmax + cross + len(gc)) % 3
	if spell < 0 {
		spell = -spell
	}
	mode := []string{"WRR", "wrr", "Wrr"}[spell]
	if modeI == 1 {
		mode = []string{"WLC", "wlc", "Wlc"}[spell]
	}
	gb := cluster_conf.GslbBasicConf{CrossRetry: &cross, RetryMax: &rmax,
		HashConf: &cluster_conf.HashConf{HashStrategy: &st, HashHeader: &hdr, SessionSticky: &sticky}, BalanceMode: &mode}
	if err := cluster_conf.GslbBasicConfCheck(&gb); err != nil {
		return hv.Err(8)
	}
	bal.SetGslbBasic(gb)
	find := func(sub string, id int) *backend.BfeBackend {
		for _, b := range bal_gslb.VerifC03Backends(bal)[sub] {
			if b.Port-1000 == id {
				return b
			}
		}
		return nil
	}
	out := hv.L{}
	for _, ov := range hv.AsList(top[2]) {
		op := hv.AsList(ov)
		switch hv.AsInt(op[0]) {
		case 0:
			key := hv.AsBytes(op[3])
			if hv.String(op[2]) != hv.String(hv.U(murmur3.Sum64(key))) {
				return hv.Err(7)
			}
			req := &bfe_basic.Request{HttpRequest: &bfe_http.Request{Header: make(bfe_http.Header), RequestURI: "/"},
				Stat: &bfe_basic.RequestStat{}}
			req.ClientAddr = &net.TCPAddr{IP: net.IP(key), Port: 1}
			req.RetryTime = int(hv.AsInt(op[1]))
			b, err := bal.Balance(req)
			bid := -1
			if b != nil {
				bid = b.Port - 1000
				if b.SubCluster != req.Backend.SubclusterName {
					bid = -7
				}
			}
			out = append(out, hv.L{hv.I(errCode(err)), hv.S(req.Backend.SubclusterName), hv.I(bid), hv.I(req.RetryTime),
				hv.Bool(req.Stat.IsCrossCluster), hv.I(errCode(req.ErrCode))})
		case 1:
			if b := find(hv.AsStr(op[1]), int(hv.AsInt(op[2]))); b != nil {
				b.SetAvail(hv.AsBool(op[3]))
			}
			out = append(out, hv.L{})
		case 2:
			if b := find(hv.AsStr(op[1]), int(hv.AsInt(op[2]))); b != nil {
				backend.VerifC03SetConnNum(b, int(hv.AsInt(op[3])))
			}
			out = append(out, hv.L{})
		case 3: // BalanceGslb.Reload(gslb conf)
			ng := gslb_conf.GslbClusterConf{}
			for _, e := range hv.AsList(op[1]) {
				p := hv.AsList(e)
				ng[hv.AsStr(p[0])] = int(hv.AsInt(p[1]))
			}
			bal.Reload(ng)
			out = append(out, hv.L{})
		case 4: // BalanceGslb.BackendReload for one sub-cluster
			name := hv.AsStr(op[1])
			conf := cluster_table_conf.SubClusterBackend{}
			for _, bv := range hv.AsList(op[2]) {
				b := hv.AsList(bv)
				id, w := int(hv.AsInt(b[0])), int(hv.AsInt(b[1]))
				bn := fmt.Sprintf("%s-%d", name, id)
				addr := "10.0.0.1"
				port := 1000 + id
				conf = append(conf, &cluster_table_conf.BackendConf{Name: &bn, Addr: &addr, Port: &port, Weight: &w})
			}
			bal.BackendReload(cluster_table_conf.ClusterBackend{name: conf})
			out = append(out, hv.L{})
		default:
			panic("bad op")
		}
	}
	return out
}

var names = []string{"bj", "gz", "sh", "GSLB_BLACKHOLE", "nj", "a", "ab", "z"}

type gsub struct {
	name string
	ids  []int
}

type ent9 struct{ id, w int }

func conf9(c []ent9) hv.Val {
	l := hv.L{}
	for _, e := range c {
		l = append(l, hv.L{hv.I(e.id), hv.I(e.w)})
	}
	return l
}

// elapsed (ms) at ramp position num/den of slow-start time T (s), kept clear of a truncation boundary (2 s jitter)
func rampAt(T, final, num, den int) int {
	e := T * 1000 * num / den
	if final > 0 {
		for (final*e)%(1000*T)+final*2000 >= 1000*T && (final*e)/(1000*T) < final {
			e += 500
		}
	}
	return e
}

// kind 9: slow start enabled; a backend (often configured with weight <= 0) is added by Update or restarted by the
// health check while the others are frequently down, so it is the only candidate in the very first call
func gen9(r *hv.Rng) (string, hv.Val) {
	wlc := r.Intn(2)
	n := r.Range(1, 3)
	cur := make([]ent9, n)
	for j := range cur {
		cur[j] = ent9{j, r.Range(1, 3)}
		if r.Chance(1, 5) {
			cur[j].w = -r.Intn(2)
		}
	}
	init := conf9(cur)
	T := []int{3600, 7200, 86400}[r.Intn(3)]
	ops := hv.L{}
	pk := func(k int) {
		if k > 0 {
			ops = append(ops, hv.L{hv.I(0), hv.I(k)})
		}
	}
	if r.Chance(1, 3) {
		pk(r.Range(1, 3))
	}
	late := r.Chance(1, 4) // restart flag raised while slow start is off; SetSlowStart only later
	if !late {
		ops = append(ops, hv.L{hv.I(3), hv.I(T)})
	}
	class := "ss"
	othersDown := r.Chance(2, 3)
	var tid, tw int
	if r.Bool() {
		tid, tw = n, r.Range(1, 4)
		if r.Bool() {
			tw = -r.Intn(2)
			class = "ss-w0"
		}
		if othersDown {
			for _, e := range cur {
				ops = append(ops, hv.L{hv.I(2), hv.I(e.id), hv.I(0)})
			}
		}
		next := append(append([]ent9(nil), cur...), ent9{tid, tw})
		ops = append(ops, hv.L{hv.I(1), conf9(next)})
		cur = next
	} else {
		k := r.Intn(n)
		tid, tw = cur[k].id, cur[k].w
		ops = append(ops, hv.L{hv.I(2), hv.I(tid), hv.I(0)})
		pk(r.Range(0, 2))
		if r.Chance(1, 3) {
			next := append([]ent9(nil), cur...)
			next[k].w = 0
			tw = 0
			ops = append(ops, hv.L{hv.I(1), conf9(next)})
			cur = next
			class = "ss-w0"
		}
		if othersDown {
			for _, e := range cur {
				if e.id != tid {
					ops = append(ops, hv.L{hv.I(2), hv.I(e.id), hv.I(0)})
				}
			}
		}
		ops = append(ops, hv.L{hv.I(5), hv.I(tid)}, hv.L{hv.I(2), hv.I(tid), hv.I(1)})
	}
	pk(r.Range(1, 3)) // first call(s) after the restart flag was set
	if late {
		if r.Chance(3, 4) {
			ops = append(ops, hv.L{hv.I(3), hv.I(T)})
		}
		pk(r.Range(1, 3))
		class += "-late"
	}
	for _, f := range [][2]int{{1, 3}, {1, 1}, {3, 2}} {
		if r.Chance(2, 3) {
			ops = append(ops, hv.L{hv.I(4), hv.I(tid), hv.I(rampAt(T, tw*100, f[0], f[1]))})
			pk(r.Range(1, 4))
		}
	}
	if othersDown && r.Bool() {
		for _, e := range cur {
			if e.id != tid {
				ops = append(ops, hv.L{hv.I(2), hv.I(e.id), hv.I(1)})
			}
		}
		pk(r.Range(1, 6))
	}
	if wlc == 1 {
		class += "-wlc"
	}
	return class, hv.L{hv.I(9), hv.I(wlc), init, ops}
}

// reload histories: Init, Balance calls, then BalanceGslb.Reload steps (weights changed, sub-clusters removed, NEW
// sub-clusters whose names sort before / between / after the kept ones, often leaving exactly one positive weight =
// single mode), new sub-clusters populated by BackendReload one backend at a time, Balance calls after every step
func genReload(r *hv.Rng) (string, hv.Val) {
	pool := []string{"a.sub", "b.sub", "c.sub", "d.sub", "GSLB_BLACKHOLE", "0.sub", "zz"}
	mode := r.Intn(3)
	rmax := r.Range(0, 2)
	cross := r.Range(0, 1)
	type sc struct {
		name string
		w    int
		ids  []int
	}
	var cur []sc
	has := func(n string) bool {
		for _, s := range cur {
			if s.name == n {
				return true
			}
		}
		return false
	}
	subs := hv.L{}
	ns := r.Range(1, 3)
	for len(cur) < ns {
		nm := pool[r.Intn(len(pool))]
		if has(nm) {
			continue
		}
		w := 0
		if len(cur) == 0 || r.Bool() {
			w = r.Range(1, 100)
		}
		nb := r.Range(1, 3)
		bl := hv.L{}
		s := sc{name: nm, w: w}
		for k := 0; k < nb; k++ {
			bl = append(bl, hv.L{hv.I(k), hv.I(r.Range(1, 3))})
			s.ids = append(s.ids, k)
		}
		subs = append(subs, hv.L{hv.S(nm), hv.I(w), bl})
		cur = append(cur, s)
	}
	ops := hv.L{}
	bal := func(k int) {
		for j := 0; j < k; j++ {
			key := r.Bytes(16)
			retry := 0
			if r.Chance(1, 5) {
				retry = r.Range(0, rmax+cross+1)
			}
			ops = append(ops, hv.L{hv.I(0), hv.I(retry), hv.U(murmur3.Sum64(key)), hv.B(key)})
		}
	}
	bal(r.Range(1, 3))
	steps := r.Range(1, 3)
	class := "reload"
	for st := 0; st < steps; st++ {
		var next []sc
		// keep / drop / re-weight
		for _, s := range cur {
			if len(cur) > 1 && r.Chance(1, 5) {
				continue
			}
			s.w = 0
			next = append(next, s)
		}
		if len(next) == 0 {
			k := cur[0]
			k.w = 0
			next = append(next, k)
		}
		// add new sub-clusters
		var added []int
		for a := r.Range(0, 2); a > 0; a-- {
			nm := pool[r.Intn(len(pool))]
			dup := false
			for _, s := range next {
				if s.name == nm {
					dup = true
				}
			}
			if dup || has(nm) {
				continue
			}
			next = append(next, sc{name: nm})
			added = append(added, len(next)-1)
		}
		// weights: single mode (exactly one positive) half of the time
		if r.Bool() {
			k := r.Intn(len(next))
			next[k].w = r.Range(1, 100)
			class = "reload-single"
		} else {
			for k := range next {
				if r.Chance(2, 3) {
					next[k].w = r.Range(1, 100)
				} else if r.Chance(1, 4) {
					next[k].w = -1
				}
			}
			next[r.Intn(len(next))].w = r.Range(1, 100)
		}
		gl := hv.L{}
		// conf listed in random order
		perm := make([]int, len(next))
		for k := range perm {
			perm[k] = k
		}
		for a := len(perm) - 1; a > 0; a-- {
			b := r.Intn(a + 1)
			perm[a], perm[b] = perm[b], perm[a]
		}
		for _, k := range perm {
			gl = append(gl, hv.L{hv.S(next[k].name), hv.I(next[k].w)})
		}
		ops = append(ops, hv.L{hv.I(3), gl})
		if r.Chance(1, 3) {
			bal(r.Range(1, 2)) // new sub-clusters still without backends
		}
		for _, k := range added {
			nb := r.Range(0, 2)
			bl := hv.L{}
			for j := 0; j < nb; j++ {
				bl = append(append(hv.L{}, bl...), hv.L{hv.I(j), hv.I(r.Range(1, 3))})
				ops = append(ops, hv.L{hv.I(4), hv.S(next[k].name), bl})
				next[k].ids = append(next[k].ids, j)
			}
		}
		cur = next
		if r.Chance(1, 3) && len(cur) > 0 {
			s := cur[r.Intn(len(cur))]
			if len(s.ids) > 0 {
				ops = append(ops, hv.L{hv.I(1), hv.S(s.name), hv.I(s.ids[r.Intn(len(s.ids))]), hv.Bool(r.Chance(1, 3))})
			}
		}
		bal(r.Range(2, 4))
	}
	return class, hv.L{hv.L{hv.I(mode), hv.I(rmax), hv.I(cross)}, subs, ops}
}

func gen(r *hv.Rng, i int, tier string) (string, hv.Val) {
	if r.Chance(1, 5) {
		return gen9(r)
	}
	if r.Chance(1, 4) {
		return genReload(r)
	}
	mode := r.Intn(3)
	rmax := r.Range(0, 3)
	cross := r.Range(0, 2)
	if r.Chance(1, 15) {
		cross = -1
	}
	ns := r.Range(1, 4)
	seen := map[string]bool{}
	subs := hv.L{}
	var gs []gsub
	pos := 0
	for len(subs) < ns {
		nm := names[r.Intn(len(names))]
		if len(subs) == 1 && r.Chance(1, 4) {
			nm = "GSLB_BLACKHOLE"
		}
		if seen[nm] {
			continue
		}
		seen[nm] = true
		w := r.Range(1, 5)
		switch r.Intn(6) {
		case 0:
			w = 0 // not a first choice, but usable for cross retry
		case 1:
			w = -1 // never usable
		}
		if w > 0 {
			pos++
		}
		nb := r.Range(0, 5)
		bl := hv.L{}
		g := gsub{name: nm}
		used := map[int]bool{}
		for len(bl) < nb {
			id := r.Intn(12)
			if r.Chance(1, 6) {
				id = r.Range(90, 120) // 3-digit: port 1090.. keeps numeric = lexicographic order
			}
			if used[id] {
				continue
			}
			used[id] = true
			bw := r.Range(1, 4)
			if r.Chance(1, 6) {
				bw = -r.Intn(2)
			}
			bl = append(bl, hv.L{hv.I(id), hv.I(bw)})
			g.ids = append(g.ids, id)
		}
		subs = append(subs, hv.L{hv.S(nm), hv.I(w), bl})
		gs = append(gs, g)
	}
	ops := hv.L{}
	// availability pattern
	style := r.Intn(4)
	for _, g := range gs {
		allDown := style == 0 && r.Chance(1, 2)
		for _, id := range g.ids {
			if allDown || (style <= 1 && r.Chance(1, 2)) || (style == 2 && r.Chance(1, 6)) {
				ops = append(ops, hv.L{hv.I(1), hv.S(g.name), hv.I(id), hv.I(0)})
			}
			if mode == 1 && r.Chance(1, 2) {
				ops = append(ops, hv.L{hv.I(2), hv.S(g.name), hv.I(id), hv.I(r.Intn(6))})
			}
		}
	}
	calls := r.Range(1, 10)
	for c := 0; c < calls; c++ {
		retry := r.Range(0, rmax+cross+1)
		if retry < 0 {
			retry = 0
		}
		if r.Chance(1, 3) {
			retry = 0
		}
		key := r.Bytes(16)
		ops = append(ops, hv.L{hv.I(0), hv.I(retry), hv.U(murmur3.Sum64(key)), hv.B(key)})
		if r.Chance(1, 4) && len(gs) > 0 {
			g := gs[r.Intn(len(gs))]
			if len(g.ids) > 0 {
				ops = append(ops, hv.L{hv.I(1), hv.S(g.name), hv.I(g.ids[r.Intn(len(g.ids))]), hv.Bool(r.Bool())})
			}
		}
	}
	class := []string{"wrr", "wlc", "sticky"}[mode]
	if pos == 0 {
		class = "triv-nosub-" + class
	}
	if seen["GSLB_BLACKHOLE"] {
		class += "-bh"
	}
	return class, hv.L{hv.L{hv.I(mode), hv.I(rmax), hv.I(cross)}, subs, ops}
}

func main() {
	hv.Main(&hv.Spec{Prop: "C03", Gen: gen, Impl: impl, NQuick: 7000, NThorough: 400000})
}
