// C03: BalanceGslb.Balance never returns an ineligible target — vs model Gslb.v (membership for the clock-seeded
// random cross-cluster choice).   input: [[mode rmax cross] subs ops]   (see coq/run/RunC03.v)
package main

import (
	"fmt"
	"net"

	"verif/harness/hv"

	"github.com/bfenetworks/bfe/bfe_balance/backend"
	"github.com/bfenetworks/bfe/bfe_balance/bal_gslb"
	"github.com/bfenetworks/bfe/bfe_basic"
	"github.com/bfenetworks/bfe/bfe_config/bfe_cluster_conf/cluster_conf"
	"github.com/bfenetworks/bfe/bfe_config/bfe_cluster_conf/cluster_table_conf"
	"github.com/bfenetworks/bfe/bfe_config/bfe_cluster_conf/gslb_conf"
	"github.com/bfenetworks/bfe/bfe_http"
	"github.com/spaolacci/murmur3"
)

func errCode(err error) int {
	switch err {
	case nil:
		return 0
	case bfe_basic.ErrBkNoSubCluster:
		return 1
	case bfe_basic.ErrGslbBlackhole:
		return 2
	case bfe_basic.ErrBkNoBackend:
		return 3
	case bfe_basic.ErrBkNoSubClusterCross:
		return 4
	case bfe_basic.ErrBkCrossRetryBalance:
		return 5
	case bfe_basic.ErrBkRetryTooMany:
		return 6
	}
	return 99
}

func impl(in hv.Val) hv.Val {
	top := hv.AsList(in)
	pr := hv.AsList(top[0])
	modeI, rmax, cross := int(hv.AsInt(pr[0])), int(hv.AsInt(pr[1])), int(hv.AsInt(pr[2]))
	gc := gslb_conf.GslbClusterConf{}
	backs := cluster_table_conf.ClusterBackend{}
	for _, sv := range hv.AsList(top[1]) {
		s := hv.AsList(sv)
		name := hv.AsStr(s[0])
		gc[name] = int(hv.AsInt(s[1]))
		conf := cluster_table_conf.SubClusterBackend{}
		for _, bv := range hv.AsList(s[2]) {
			b := hv.AsList(bv)
			id, w := int(hv.AsInt(b[0])), int(hv.AsInt(b[1]))
			bn := fmt.Sprintf("%s-%d", name, id)
			addr := "10.0.0.1"
			port := 1000 + id
			conf = append(conf, &cluster_table_conf.BackendConf{Name: &bn, Addr: &addr, Port: &port, Weight: &w})
		}
		backs[name] = conf
	}
	bal := bal_gslb.NewBalanceGslb("cluster")
	bal.Init(gc)
	bal.BackendInit(backs)
	st := cluster_conf.ClientIpOnly
	hdr := ""
	sticky := modeI == 2
	mode := cluster_conf.BalanceModeWrr
	if modeI == 1 {
		mode = cluster_conf.BalanceModeWlc
	}
	bal.SetGslbBasic(cluster_conf.GslbBasicConf{CrossRetry: &cross, RetryMax: &rmax,
		HashConf: &cluster_conf.HashConf{HashStrategy: &st, HashHeader: &hdr, SessionSticky: &sticky}, BalanceMode: &mode})
	find := func(sub string, id int) *backend.BfeBackend {
		for _, b := range bal_gslb.VerifC03Backends(bal)[sub] {
			if b.Port-1000 == id {
				return b
			}
		}
		return nil
	}
	out := hv.L{}
	for _, ov := range hv.AsList(top[2]) {
		op := hv.AsList(ov)
		switch hv.AsInt(op[0]) {
		case 0:
			key := hv.AsBytes(op[3])
			if hv.String(op[2]) != hv.String(hv.U(murmur3.Sum64(key))) {
				return hv.Err(7)
			}
			req := &bfe_basic.Request{HttpRequest: &bfe_http.Request{Header: make(bfe_http.Header), RequestURI: "/"},
				Stat: &bfe_basic.RequestStat{}}
			req.ClientAddr = &net.TCPAddr{IP: net.IP(key), Port: 1}
			req.RetryTime = int(hv.AsInt(op[1]))
			b, err := bal.Balance(req)
			bid := -1
			if b != nil {
				bid = b.Port - 1000
				if b.SubCluster != req.Backend.SubclusterName {
					bid = -7
				}
			}
			out = append(out, hv.L{hv.I(errCode(err)), hv.S(req.Backend.SubclusterName), hv.I(bid), hv.I(req.RetryTime),
				hv.Bool(req.Stat.IsCrossCluster), hv.I(errCode(req.ErrCode))})
		case 1:
			if b := find(hv.AsStr(op[1]), int(hv.AsInt(op[2]))); b != nil {
				b.SetAvail(hv.AsBool(op[3]))
			}
			out = append(out, hv.L{})
		case 2:
			if b := find(hv.AsStr(op[1]), int(hv.AsInt(op[2]))); b != nil {
				backend.VerifC03SetConnNum(b, int(hv.AsInt(op[3])))
			}
			out = append(out, hv.L{})
		default:
			panic("bad op")
		}
	}
	return out
}

var names = []string{"bj", "gz", "sh", "GSLB_BLACKHOLE", "nj", "a", "ab", "z"}

type gsub struct {
	name string
	ids  []int
}

func gen(r *hv.Rng, i int, tier string) (string, hv.Val) {
	mode := r.Intn(3)
	rmax := r.Range(0, 3)
	cross := r.Range(0, 2)
	if r.Chance(1, 15) {
		cross = -1
	}
	ns := r.Range(1, 4)
	seen := map[string]bool{}
	subs := hv.L{}
	var gs []gsub
	pos := 0
	for len(subs) < ns {
		nm := names[r.Intn(len(names))]
		if len(subs) == 1 && r.Chance(1, 4) {
			nm = "GSLB_BLACKHOLE"
		}
		if seen[nm] {
			continue
		}
		seen[nm] = true
		w := r.Range(1, 5)
		switch r.Intn(6) {
		case 0:
			w = 0 // not a first choice, but usable for cross retry
		case 1:
			w = -1 // never usable
		}
		if w > 0 {
			pos++
		}
		nb := r.Range(0, 5)
		bl := hv.L{}
		g := gsub{name: nm}
		used := map[int]bool{}
		for len(bl) < nb {
			id := r.Intn(12)
			if r.Chance(1, 6) {
				id = r.Range(90, 120) // 3-digit: port 1090.. keeps numeric = lexicographic order
			}
			if used[id] {
				continue
			}
			used[id] = true
			bw := r.Range(1, 4)
			if r.Chance(1, 6) {
				bw = -r.Intn(2)
			}
			bl = append(bl, hv.L{hv.I(id), hv.I(bw)})
			g.ids = append(g.ids, id)
		}
		subs = append(subs, hv.L{hv.S(nm), hv.I(w), bl})
		gs = append(gs, g)
	}
	ops := hv.L{}
	// availability pattern
	style := r.Intn(4)
	for _, g := range gs {
		allDown := style == 0 && r.Chance(1, 2)
		for _, id := range g.ids {
			if allDown || (style <= 1 && r.Chance(1, 2)) || (style == 2 && r.Chance(1, 6)) {
				ops = append(ops, hv.L{hv.I(1), hv.S(g.name), hv.I(id), hv.I(0)})
			}
			if mode == 1 && r.Chance(1, 2) {
				ops = append(ops, hv.L{hv.I(2), hv.S(g.name), hv.I(id), hv.I(r.Intn(6))})
			}
		}
	}
	calls := r.Range(1, 10)
	for c := 0; c < calls; c++ {
		retry := r.Range(0, rmax+cross+1)
		if retry < 0 {
			retry = 0
		}
		if r.Chance(1, 3) {
			retry = 0
		}
		key := r.Bytes(16)
		ops = append(ops, hv.L{hv.I(0), hv.I(retry), hv.U(murmur3.Sum64(key)), hv.B(key)})
		if r.Chance(1, 4) && len(gs) > 0 {
			g := gs[r.Intn(len(gs))]
			if len(g.ids) > 0 {
				ops = append(ops, hv.L{hv.I(1), hv.S(g.name), hv.I(g.ids[r.Intn(len(g.ids))]), hv.Bool(r.Bool())})
			}
		}
	}
	class := []string{"wrr", "wlc", "sticky"}[mode]
	if pos == 0 {
		class = "triv-nosub-" + class
	}
	if seen["GSLB_BLACKHOLE"] {
		class += "-bh"
	}
	return class, hv.L{hv.L{hv.I(mode), hv.I(rmax), hv.I(cross)}, subs, ops}
}

func main() {
	hv.Main(&hv.Spec{Prop: "C03", Gen: gen, Impl: impl, NQuick: 10000, NThorough: 400000})
}
