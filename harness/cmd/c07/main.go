// C07: active-connection counts match in-flight requests.  Whole-server harness (package e2e).
// input / output: see coq/run/RunC07.v.  One server per (RetryMax, balance mode); cluster = one sub-cluster with two
// live fake backends (0, 1) and one address that refuses connections (2); RetryLevel = RetryGet so that every
// transport error of a body-less GET is retried.  Per-attempt outcomes are scripted per request id (e2e.Plan),
// HandleForward verdicts per attempt through verifmod's OnCall-independent script keyed by X-Verif-Script.
package main

import (
	"bytes"
	"crypto/tls"
	"encoding/json"
	"fmt"
	"io"
	"io/ioutil"
	"net"
	"os"
	"path/filepath"
	"time"

	"verif/harness/e2e"
	"verif/harness/hv"

	"github.com/bfenetworks/bfe/bfe_config/bfe_conf"
	"github.com/bfenetworks/bfe/bfe_module"
)

type env struct {
	srv      *e2e.Server
	plan     *e2e.Plan
	bks      []*e2e.Backend
	products []e2e.Product
	clusters []e2e.Cluster
}

var envs = map[[2]int]*env{}
var nenv = 0

func getEnv(rm, mode int) *env {
	k := [2]int{rm, mode}
	if e, ok := envs[k]; ok {
		return e
	}
	nenv++
	plan := e2e.NewPlan()
	b0, b1 := e2e.NewBackend("bk0"), e2e.NewBackend("bk1")
	b0.Plan, b1.Plan = plan, plan
	d := e2e.DeadBackend("bk2", 2+2*nenv)
	d2 := e2e.DeadBackend("bk3", 3+2*nenv)
	bm := ""
	if mode == 1 {
		bm = "WLC"
	}
	products := []e2e.Product{{Name: "p", Hosts: []string{"example.org"}, Cluster: "c"},
		{Name: "p2", Hosts: []string{"dead.example.org"}, Cluster: "c2"}}
	// CrossRetry 2 with an empty second sub-cluster: once the in-cluster budget is used up bal.Balance returns
	// ErrBkCrossRetryBalance twice (clusterInvoke: RetryTime++, continue, Trans.Backend kept) before ErrBkRetryTooMany;
	// no additional attempt can happen, the counts must not move
	clusters := []e2e.Cluster{{Name: "c", RetryMax: rm, CrossRetry: 2, RetryLevel: 1, BalanceMode: bm,
		SubClusters: []e2e.SubCluster{{Name: "s1", Weight: 100, Backends: []*e2e.Backend{b0, b1, d}}, {Name: "s2", Weight: 0}}},
		{Name: "c2", RetryMax: 0, SubClusters: []e2e.SubCluster{{Name: "s1", Weight: 100, Backends: []*e2e.Backend{d2}}}}}
	srv := e2e.Start(e2e.Options{
		Products:       products,
		DefaultProduct: "p", // a TLS stream connection has no Host: routed through the default product
		Clusters:       clusters,
		Handlers: 1, HTTPS: true,
		Tweak: func(cfg *bfe_conf.BfeConfig, root string) { // offer the "stream" protocol on the TLS listener
			p := filepath.Join(root, "tls_conf", "tls_rule_conf.data")
			var v map[string]interface{}
			b, err := ioutil.ReadFile(p)
			if err != nil || json.Unmarshal(b, &v) != nil {
				panic("c07: tls_rule_conf.data")
			}
			v["DefaultNextProtos"] = []string{"stream", "http/1.1"}
			if cfgs, ok := v["Config"].(map[string]interface{}); ok {
				for _, pc := range cfgs {
					if pm, ok := pc.(map[string]interface{}); ok {
						pm["NextProtos"] = []string{"stream", "http/1.1"}
					}
				}
			}
			nb, _ := json.MarshalIndent(v, "", " ")
			ioutil.WriteFile(p, nb, 0644)
		},
	})
	// warm-up: plain GETs until the server has selected every backend once (verifmod captures the *BfeBackend
	// pointers at HandleForward; the tunnel paths have no module callback that exposes them)
	for i := 0; i < 40; i++ {
		all := true
		for _, n := range []string{"bk0", "bk1", "bk2", "bk3"} {
			if _, known := srv.ConnNum(n); !known {
				all = false
			}
		}
		srv.Get("dead.example.org", "/warmup")
		if all {
			break
		}
		srv.Get("example.org", "/warmup")
	}
	e := &env{srv: srv, plan: plan, bks: []*e2e.Backend{b0, b1, d}, products: products, clusters: clusters}
	envs[k] = e
	return e
}

const wsHead = "HTTP/1.1 101 Switching Protocols\r\nUpgrade: websocket\r\nConnection: Upgrade\r\nSec-WebSocket-Accept: s3pPLMBiTxaQ9kYGzzhZRbK+xOo=\r\n\r\n"

// runTunnel opens a WebSocket (kind 0) or TLS stream (kind 1) tunnel carrying the id and reads until the proxy closes
// the client side; the result is sent on done (1 = ended).
func (e *env) runTunnel(kind int, id string, done chan int) {
	defer func() { done <- 1 }()
	if kind == 0 || kind == 2 {
		host := map[int]string{0: "example.org", 2: "dead.example.org"}[kind]
		c := e.srv.Dial()
		defer c.Close()
		c.Send([]byte("GET /tunnel HTTP/1.1\r\nHost: " + host + "\r\nUpgrade: websocket\r\nConnection: Upgrade\r\n" +
			"Sec-WebSocket-Key: dGhlIHNhbXBsZSBub25jZQ==\r\nSec-WebSocket-Version: 13\r\nX-Verif-Id: " + id + "\r\n\r\n"))
		c.ReadUntilClose()
		return
	}
	raw, err := net.DialTimeout("tcp", e.srv.TLSAddr, e.srv.Deadline)
	if err != nil {
		return
	}
	defer raw.Close()
	raw.SetDeadline(time.Now().Add(e.srv.Deadline))
	tc := tls.Client(raw, &tls.Config{InsecureSkipVerify: true, NextProtos: []string{"stream"}, ServerName: "example.org",
		MaxVersion: tls.VersionTLS12})
	if err := tc.Handshake(); err != nil || tc.ConnectionState().NegotiatedProtocol != "stream" {
		return
	}
	// the stream payload looks like an HTTP request head so that the fake backend can find the id
	tc.Write([]byte("GET /stream HTTP/1.1\r\nX-Verif-Id: " + id + "\r\n\r\n"))
	io.Copy(ioutil.Discard, tc)
}

type reqState struct {
	done   chan int // status (0 = no reply)
	hold   *e2e.Step
	tunnel bool
	held   bool
	id     string
	status int
}

var bkIndex = map[string]int{"bk0": 0, "bk1": 1, "bk2": 2}

func impl(in hv.Val) hv.Val {
	l := hv.AsList(in)
	if len(l) != 3 {
		return hv.Err(0)
	}
	rm, mode := int(hv.AsInt(l[0])), int(hv.AsInt(l[1]))
	ops := hv.AsList(l[2])
	if rm < 0 || rm > 4 || mode < 0 || mode > 1 || len(ops) > 24 {
		return hv.Err(0)
	}
	e := getEnv(rm, mode)
	e.plan.Reset()
	e.bks[0].Reset()
	e.bks[1].Reset()
	e.srv.Mod.ResetCalls()
	allUp := func() {
		for _, n := range []string{"bk0", "bk1", "bk2", "bk3"} {
			if b := e.srv.BfeBackend(n); b != nil {
				b.SetAvail(true)
				b.SetRestart(false)
			}
		}
	}
	allUp()
	defer allUp()
	reqs := map[int]*reqState{}
	// forward verdict per attempt of a request: decided from the number of HandleForward calls seen so far for that id
	e.srv.Mod.SetScript(e2e.Script{})
	defer func() { // never leave a request hanging in the server
		for _, r := range reqs {
			if r.held {
				e2e.Release(*r.hold)
				<-r.done
			}
		}
	}()
	attempts := func(id string) hv.L {
		out := hv.L{}
		for _, c := range e.srv.Mod.Calls() {
			if c.Point == bfe_module.HandleForward && c.ReqID == id {
				out = append(out, hv.I(bkIndex[c.Backend]))
			}
		}
		return out
	}
	tunnelAttempts := func(id string) hv.L {
		out := hv.L{}
		for k := 0; k < 2; k++ {
			for _, bc := range e.bks[k].Conns() {
				if bytes.Contains(bc.Bytes, []byte("X-Verif-Id: "+id+"\r\n")) {
					out = append(out, hv.I(k))
				}
			}
		}
		return out
	}
	counts := func() hv.L {
		out := hv.L{}
		for _, n := range []string{"bk0", "bk1", "bk2", "bk3"} {
			c, _ := e.srv.ConnNum(n)
			out = append(out, hv.I(c))
		}
		return out
	}
	var obs hv.L
	for _, opv := range ops {
		op := hv.AsList(opv)
		if len(op) < 2 {
			return hv.Err(0)
		}
		if hv.AsInt(op[0]) == 4 { // administrative action on a backend; must not touch any count
			if len(op) != 3 {
				return hv.Err(0)
			}
			b, v := int(hv.AsInt(op[1])), int(hv.AsInt(op[2]))
			if b < 0 || b > 3 || v < 0 || v > 4 {
				return hv.Err(0)
			}
			bb := e.srv.BfeBackend(fmt.Sprintf("bk%d", b))
			if bb == nil {
				return hv.Err(2)
			}
			switch v {
			case 0:
				bb.SetAvail(false) // what UpdateStatus does when the failure threshold is reached
			case 1:
				bb.SetAvail(true) // what the health check does when the backend answers again
			case 2:
				bb.SetRestart(true)
			case 3:
				bb.SetRestart(false)
			case 4:
				if err := e.srv.Reload(e.products, "p", e.clusters); err != nil {
					return hv.Err(3)
				}
			}
			obs = append(obs, hv.L{hv.L{}, hv.I(1), hv.I(0), counts()})
			continue
		}
		rid := int(hv.AsInt(op[1]))
		if rid < 0 || rid > 2 {
			return hv.Err(0)
		}
		id := fmt.Sprintf("r%d", rid)
		switch hv.AsInt(op[0]) {
		case 1:
			if len(op) != 4 && len(op) != 6 {
				return hv.Err(0)
			}
			if r := reqs[rid]; r != nil && r.held {
				return hv.Err(1)
			}
			rr, rf := 1, 1
			if len(op) == 6 {
				rr, rf = int(hv.AsInt(op[4])), int(hv.AsInt(op[5]))
				if rr < 0 || rr > 5 || rf < 0 || rf > 5 {
					return hv.Err(0)
				}
			}
			// a rid may be reused after completion: ids are per start
			id = fmt.Sprintf("r%d.%d", rid, len(obs))
			var vs []e2e.Verdict
			for _, v := range hv.AsList(op[2]) {
				vs = append(vs, e2e.Verdict{Ret: int(hv.AsInt(v))})
			}
			rs := &reqState{done: make(chan int, 1)}
			for _, sv := range hv.AsList(op[3]) {
				switch hv.AsInt(sv) {
				case 0:
					e.plan.PushFor(id, e2e.Reply(e2e.OK("ok")))
				case 1:
					e.plan.PushFor(id, e2e.ReadHeadClose())
				case 2:
					e.plan.PushFor(id, e2e.Partial([]byte("HTTP/1.1 20")))
				case 3:
					h := e2e.Hold(e2e.OK("held"))
					rs.hold = &h
					e.plan.PushFor(id, h)
				case 4:
					e.plan.PushFor(id, e2e.Reply([]byte("HTTP/1.1 500 X\r\nContent-Length: 0\r\n\r\n")))
				default:
					return hv.Err(0)
				}
			}
			// per-attempt forward verdicts: handler 0 of HandleForward answers the k-th call of this request with vs[k]
			e.srv.Mod.SetAttemptScript(id, bfe_module.HandleForward, vs)
			// verdicts of the callback points that run after a backend was chosen and used
			e.srv.Mod.SetAttemptScript(id, bfe_module.HandleReadResponse, []e2e.Verdict{{Ret: rr}})
			e.srv.Mod.SetAttemptScript(id, bfe_module.HandleRequestFinish, []e2e.Verdict{{Ret: rf}})
			reqs[rid] = rs
			rs.held = false
			idc := id
			go func() {
				r, _ := e.srv.Get("example.org", "/c07", "X-Verif-Id: "+idc)
				if r == nil {
					rs.done <- 0
				} else {
					rs.done <- r.Status
				}
			}()
			heldCh := make(chan bool, 1)
			stop := make(chan struct{})
			go func() {
				heldCh <- e.plan.WaitHeldOrStop(idc, e.srv.Deadline, stop)
			}()
			held := 0
			select {
			case rs.status = <-rs.done:
				close(stop)
			case h := <-heldCh:
				if h {
					held = 1
					rs.held = true
				} else {
					return hv.Timeout()
				}
			}
			rs.id = idc
			obs = append(obs, hv.L{attempts(idc), hv.I(rs.status), hv.I(held), counts()})
		case 3:
			if len(op) != 4 {
				return hv.Err(0)
			}
			if r := reqs[rid]; r != nil && r.held {
				return hv.Err(1)
			}
			kind, st := int(hv.AsInt(op[2])), int(hv.AsInt(op[3]))
			if kind < 0 || kind > 2 || st < 0 || st > 2 {
				return hv.Err(0)
			}
			id = fmt.Sprintf("t%d.%d", rid, len(obs))
			rs := &reqState{done: make(chan int, 1), tunnel: true, id: id}
			switch {
			case st == 0 && kind == 0:
				h := e2e.ReplyThenHold([]byte(wsHead))
				rs.hold = &h
				e.plan.PushFor(id, h)
			case st == 0:
				h := e2e.ReplyThenHold(nil)
				rs.hold = &h
				e.plan.PushFor(id, h)
			case st == 2 && kind == 0:
				e.plan.PushFor(id, e2e.Reply([]byte("HTTP/1.1 403 Forbidden\r\nContent-Length: 0\r\n\r\n")))
			default:
				e.plan.PushFor(id, e2e.ReadHeadClose())
			}
			reqs[rid] = rs
			go e.runTunnel(kind, id, rs.done)
			heldCh := make(chan bool, 1)
			stop := make(chan struct{})
			go func() { heldCh <- e.plan.WaitHeldOrStop(id, e.srv.Deadline, stop) }()
			held := 0
			select {
			case <-rs.done:
				close(stop)
				rs.status = 1
			case h := <-heldCh:
				if !h {
					return hv.Timeout()
				}
				held = 1
				rs.held = true
			}
			obs = append(obs, hv.L{tunnelAttempts(id), hv.I(rs.status), hv.I(held), counts()})
		case 2:
			r := reqs[rid]
			if r == nil {
				obs = append(obs, hv.L{hv.L{}, hv.I(0), hv.I(0), counts()})
				break
			}
			if r.held {
				e2e.Release(*r.hold)
				r.status = <-r.done
				r.held = false
			}
			if r.tunnel {
				obs = append(obs, hv.L{tunnelAttempts(r.id), hv.I(r.status), hv.I(0), counts()})
				break
			}
			obs = append(obs, hv.L{attempts(r.id), hv.I(r.status), hv.I(0), counts()})
		default:
			return hv.Err(0)
		}
	}
	if obs == nil {
		obs = hv.L{}
	}
	return obs
}

func genReq(r *hv.Rng, rm int, allowHold bool) (fwd, steps hv.L, holds bool) {
	fwd, steps = hv.L{}, hv.L{}
	n := rm + 2
	switch r.Intn(5) {
	case 0: // forward finish at some attempt
		k := r.Intn(n)
		for i := 0; i < k; i++ {
			fwd = append(fwd, hv.I([]int{1, 1, 2, 3, 4, 5}[r.Intn(6)]))
		}
		fwd = append(fwd, hv.I(0))
	case 1:
		for i := 0; i < n; i++ {
			fwd = append(fwd, hv.I(r.Intn(6)))
		}
	}
	// failures then a final outcome
	nf := r.Intn(n + 1)
	if r.Chance(1, 2) {
		nf = 0
	}
	for i := 0; i < nf; i++ {
		steps = append(steps, hv.I(1+r.Intn(2)))
	}
	switch {
	case allowHold && r.Chance(1, 2):
		steps = append(steps, hv.I(3))
		holds = true
	case r.Chance(1, 5):
		steps = append(steps, hv.I(4))
	default:
		steps = append(steps, hv.I(0))
	}
	return
}

func gen(r *hv.Rng, i int, tier string) (string, hv.Val) {
	rm := []int{0, 1, 2, 3, 3, 4}[r.Intn(6)]
	mode := r.Intn(2)
	var ops hv.L
	held := map[int]bool{}
	class := "seq"
	nops := 1 + r.Intn(6)
	conc := 0
	ff, tun, fin, adm := false, false, false, false
	for k := 0; k < nops && len(ops) <= 14; k++ { // an admin sequence adds up to 7 ops, the final releases 3: never more than 24
		// choose: start a request on a free rid, or release a held one
		var heldIds, free []int
		for rid := 0; rid < 3; rid++ {
			if held[rid] {
				heldIds = append(heldIds, rid)
			} else {
				free = append(free, rid)
			}
		}
		if len(heldIds) > 0 && (len(free) == 0 || r.Chance(1, 3)) {
			rid := heldIds[r.Intn(len(heldIds))]
			ops = append(ops, hv.L{hv.I(2), hv.I(rid)})
			held[rid] = false
			continue
		}
		if r.Chance(1, 6) { // administrative actions while requests / tunnels may be in flight
			adm = true
			switch r.Intn(4) {
			case 0: // every backend of the main cluster goes down and comes back (the holder of a held request is among them)
				for _, b := range []int{0, 1, 2} {
					ops = append(ops, hv.L{hv.I(4), hv.I(b), hv.I(0)})
				}
				if r.Bool() { // a request while nothing is available
					if len(free) > 0 {
						f, st, _ := genReq(r, rm, false)
						ops = append(ops, hv.L{hv.I(1), hv.I(free[0]), f, st})
					}
				}
				for _, b := range []int{2, 0, 1} {
					ops = append(ops, hv.L{hv.I(4), hv.I(b), hv.I(1)})
				}
			case 1:
				ops = append(ops, hv.L{hv.I(4), hv.I(r.Intn(4)), hv.I(r.Intn(4))})
			case 2:
				b := r.Intn(2)
				ops = append(ops, hv.L{hv.I(4), hv.I(b), hv.I(0)}, hv.L{hv.I(4), hv.I(b), hv.I(1)})
			default:
				ops = append(ops, hv.L{hv.I(4), hv.I(0), hv.I(4)})
			}
			continue
		}
		rid := free[r.Intn(len(free))]
		if r.Chance(1, 12) { // a WebSocket / TLS-stream tunnel (each established tunnel costs the proxy's 250 ms shutdown timer)
			kind, st := []int{0, 0, 0, 1, 1, 1, 2}[r.Intn(7)], []int{0, 0, 1, 2}[r.Intn(4)]
			ops = append(ops, hv.L{hv.I(3), hv.I(rid), hv.I(kind), hv.I(st)})
			tun = true
			if st == 0 && kind != 2 {
				held[rid] = true
				conc++
			}
			continue
		}
		fwd, steps, holds := genReq(r, rm, true)
		for _, f := range fwd {
			if hv.AsInt(f) == 0 {
				ff = true
			}
		}
		if r.Chance(1, 2) {
			rr, rf := 1, 1
			if r.Bool() {
				rr = r.Intn(6)
			}
			if r.Bool() {
				rf = r.Intn(6)
			}
			ops = append(ops, hv.L{hv.I(1), hv.I(rid), fwd, steps, hv.I(rr), hv.I(rf)})
			if rr == 0 || rf == 0 {
				fin = true
			}
		} else {
			ops = append(ops, hv.L{hv.I(1), hv.I(rid), fwd, steps})
		}
		// whether it really ends up held depends on the balancer's choices; releasing a request that is not held is a no-op
		if holds {
			held[rid] = true
			conc++
		}
	}
	for rid := 0; rid < 3; rid++ {
		if held[rid] {
			ops = append(ops, hv.L{hv.I(2), hv.I(rid)})
		}
	}
	if len(ops) > 24 { // the input format (decode_C07, impl) accepts at most 24 operations
		ops = ops[:24]
	}
	if conc > 0 {
		class = fmt.Sprintf("conc%d", conc)
	}
	if ff {
		class += "-fwdfinish"
	}
	if tun {
		class += "-tunnel"
	}
	if fin {
		class += "-finishverdict"
	}
	if adm {
		class += "-admin"
	}
	if i == 0 {
		return "triv-one-ok", hv.L{hv.I(2), hv.I(0), hv.L{hv.L{hv.I(1), hv.I(0), hv.L{}, hv.L{hv.I(0)}}}}
	}
	return class, hv.L{hv.I(rm), hv.I(mode), ops}
}

func main() {
	hv.Main(&hv.Spec{Prop: "C07", Gen: gen, Impl: impl, NQuick: 650, NThorough: 30000})
	for _, e := range envs {
		e.srv.Close()
	}
	e2e.RemoveAll()
	os.Stdout.Sync()
}
