// C39: SPDY framer (bfe_spdy/frame_read.go, frame_write.go) vs model SpdyFrame.v.
// ops: [1 hdrs] block write+parse on plain buffers; [2 sid block] raw block parse;
//
//	[3 frames] Framer write -> read through real zlib; [4 wire chunks] Framer read of a mutated wire.
package main

import (
	"bytes"
	"compress/zlib"
	"encoding/binary"
	"io"
	"runtime"
	"sort"
	"strings"

	"verif/harness/hv"

	http "github.com/bfenetworks/bfe/bfe_http"
	"github.com/bfenetworks/bfe/bfe_net/textproto"
	spdy "github.com/bfenetworks/bfe/bfe_spdy"
)

// ---------- observation helpers ----------

// recReader counts the bytes delivered and remembers the largest buffer it was asked to fill.
type recReader struct {
	r        *bytes.Reader
	consumed int
	maxReq   int
}

func (x *recReader) Read(p []byte) (int, error) {
	if len(p) > x.maxReq {
		x.maxReq = len(p)
	}
	n, err := x.r.Read(p)
	x.consumed += n
	return n, err
}

func headersVal(h http.Header) hv.Val {
	keys := make([]string, 0, len(h))
	for k := range h {
		keys = append(keys, k)
	}
	sort.Strings(keys)
	out := hv.L{}
	for _, k := range keys {
		vs := hv.L{}
		for _, v := range h[k] {
			vs = append(vs, hv.S(v))
		}
		out = append(out, hv.L{hv.S(k), vs})
	}
	return out
}

func decHdrs(v hv.Val) http.Header {
	h := http.Header{}
	for _, e := range hv.AsList(v) {
		l := hv.AsList(e)
		vals := []string{}
		for _, x := range hv.AsList(l[1]) {
			vals = append(vals, hv.AsStr(x))
		}
		h[hv.AsStr(l[0])] = vals // direct assignment: no canonicalisation, any name
	}
	return h
}

func parsePlain(block []byte, sid uint32) hv.Val {
	rr := &recReader{r: bytes.NewReader(block)}
	h, hl, err := spdy.VerifParseHeaderValueBlock(rr, sid)
	kind, code, _ := spdy.VerifErrCode(err)
	if kind != 0 {
		return hv.L{hv.I(code), hv.I(0), hv.L{}, hv.I(rr.consumed), hv.I(rr.maxReq)}
	}
	return hv.L{hv.I(0), hv.U(uint64(hl)), headersVal(h), hv.I(rr.consumed), hv.I(rr.maxReq)}
}

func errVal(err error) hv.Val {
	kind, code, sid := spdy.VerifErrCode(err)
	if kind == 1 {
		return hv.L{hv.I(-1), hv.I(code), hv.U(uint64(sid))}
	}
	return hv.L{hv.I(-4), hv.I(code)}
}

func frameVal(f spdy.Frame) hv.Val {
	cf := func(kind int, h spdy.ControlFrameHeader) hv.L {
		ver, ln := spdy.VerifCF(h)
		return hv.L{hv.I(kind), hv.I(int(ver)), hv.I(int(h.Flags)), hv.U(uint64(ln))}
	}
	switch x := f.(type) {
	case *spdy.SynStreamFrame:
		return append(cf(1, x.CFHeader), hv.U(uint64(x.StreamId)), hv.U(uint64(x.AssociatedToStreamId)),
			hv.I(int(x.Priority)), hv.I(int(x.Slot)), headersVal(x.Headers))
	case *spdy.SynReplyFrame:
		return append(cf(2, x.CFHeader), hv.U(uint64(x.StreamId)), headersVal(x.Headers))
	case *spdy.RstStreamFrame:
		return append(cf(3, x.CFHeader), hv.U(uint64(x.StreamId)), hv.U(uint64(x.Status)))
	case *spdy.SettingsFrame:
		l := hv.L{}
		for _, s := range x.FlagIdValues {
			l = append(l, hv.L{hv.I(int(s.Flag)), hv.U(uint64(s.Id)), hv.U(uint64(s.Value))})
		}
		return append(cf(4, x.CFHeader), l)
	case *spdy.PingFrame:
		return append(cf(6, x.CFHeader), hv.U(uint64(x.Id)))
	case *spdy.GoAwayFrame:
		return append(cf(7, x.CFHeader), hv.U(uint64(x.LastGoodStreamId)), hv.U(uint64(x.Status)))
	case *spdy.HeadersFrame:
		return append(cf(8, x.CFHeader), hv.U(uint64(x.StreamId)), headersVal(x.Headers))
	case *spdy.WindowUpdateFrame:
		return append(cf(9, x.CFHeader), hv.U(uint64(x.StreamId)), hv.U(uint64(x.DeltaWindowSize)))
	case *spdy.DataFrame:
		return hv.L{hv.I(0), hv.U(uint64(x.StreamId)), hv.I(int(x.Flags)), hv.B(x.Data)}
	}
	return hv.L{hv.I(-7)}
}

func decFrame(v hv.Val) spdy.Frame {
	l := hv.AsList(v)
	u := func(i int) uint32 { return uint32(hv.AsInt(l[i])) }
	switch hv.AsInt(l[0]) {
	case 1:
		f := &spdy.SynStreamFrame{StreamId: spdy.StreamId(u(2)), AssociatedToStreamId: spdy.StreamId(u(3)),
			Priority: uint8(u(4)), Slot: uint8(u(5)), Headers: decHdrs(l[6])}
		f.CFHeader.Flags = spdy.ControlFlags(u(1))
		return f
	case 2:
		f := &spdy.SynReplyFrame{StreamId: spdy.StreamId(u(2)), Headers: decHdrs(l[3])}
		f.CFHeader.Flags = spdy.ControlFlags(u(1))
		return f
	case 3:
		return &spdy.RstStreamFrame{StreamId: spdy.StreamId(u(1)), Status: spdy.RstStreamStatus(u(2))}
	case 4:
		f := &spdy.SettingsFrame{}
		f.CFHeader.Flags = spdy.ControlFlags(u(1))
		for _, s := range hv.AsList(l[2]) {
			t := hv.AsList(s)
			f.FlagIdValues = append(f.FlagIdValues, spdy.SettingsFlagIdValue{Flag: spdy.SettingsFlag(hv.AsInt(t[0])),
				Id: spdy.SettingsId(hv.AsInt(t[1])), Value: uint32(hv.AsInt(t[2]))})
		}
		return f
	case 6:
		return &spdy.PingFrame{Id: u(1)}
	case 7:
		return &spdy.GoAwayFrame{LastGoodStreamId: spdy.StreamId(u(1)), Status: spdy.GoAwayStatus(u(2))}
	case 8:
		f := &spdy.HeadersFrame{StreamId: spdy.StreamId(u(2)), Headers: decHdrs(l[3])}
		f.CFHeader.Flags = spdy.ControlFlags(u(1))
		return f
	case 9:
		return &spdy.WindowUpdateFrame{StreamId: spdy.StreamId(u(1)), DeltaWindowSize: u(2)}
	case 0:
		return &spdy.DataFrame{StreamId: spdy.StreamId(u(1)), Flags: spdy.DataFlags(u(2)), Data: hv.AsBytes(l[3])}
	}
	return nil
}

// compactVal: like frameVal but DATA as [0 sid flags len first last] and SETTINGS as [4 ver flags len count]
func compactVal(f spdy.Frame) hv.Val {
	switch x := f.(type) {
	case *spdy.DataFrame:
		fb, lb := -1, -1
		if len(x.Data) > 0 {
			fb, lb = int(x.Data[0]), int(x.Data[len(x.Data)-1])
		}
		return hv.L{hv.I(0), hv.U(uint64(x.StreamId)), hv.I(int(x.Flags)), hv.I(len(x.Data)), hv.I(fb), hv.I(lb)}
	case *spdy.SettingsFrame:
		ver, ln := spdy.VerifCF(x.CFHeader)
		return hv.L{hv.I(4), hv.I(int(ver)), hv.I(int(x.CFHeader.Flags)), hv.U(uint64(ln)), hv.I(len(x.FlagIdValues))}
	}
	return frameVal(f)
}

var compactMode bool

// readAll: ReadFrame until the first error or 64 frames.
func readAll(wire []byte, withOff bool) hv.Val {
	rr := &recReader{r: bytes.NewReader(wire)}
	fr, err := spdy.NewFramer(io.Discard, rr)
	if err != nil {
		return hv.Err(9)
	}
	defer fr.ReleaseWriter()
	out := hv.L{}
	for i := 0; i < 64; i++ {
		f, err := fr.ReadFrame()
		var v hv.Val
		stop := false
		if err != nil {
			v = errVal(err)
			stop = true // BFE closes the session on every ReadFrame error
		} else if compactMode {
			v = compactVal(f)
		} else {
			v = frameVal(f)
		}
		if withOff {
			out = append(out, hv.L{v, hv.I(rr.consumed)})
		} else {
			out = append(out, v)
		}
		if stop {
			break
		}
	}
	return out
}

// allocOver runs f and reports 1 iff the Go heap allocated more than 1 MB + 8 x supplied bytes meanwhile
// (runtime.MemStats.TotalAlloc counts every heap allocation, freed or not; the harness is single-threaded).
// Generous constants: the correct parser stays far below, a parser that sizes buffers from a peer-declared
// length is far above for the declared lengths generated (>= 16 MB with at most a few KB supplied).
func allocOver(supplied int, f func() hv.Val) (int, hv.Val) {
	var a, b runtime.MemStats
	runtime.ReadMemStats(&a)
	v := f()
	runtime.ReadMemStats(&b)
	if b.TotalAlloc-a.TotalAlloc > 1<<20+8*uint64(supplied) {
		return 1, v
	}
	return 0, v
}

func impl(in hv.Val) hv.Val {
	l := hv.AsList(in)
	switch hv.AsInt(l[0]) {
	case 1:
		var buf bytes.Buffer
		n, _ := spdy.VerifWriteHeaderValueBlock(&buf, decHdrs(l[1]))
		b := append([]byte(nil), buf.Bytes()...)
		return hv.L{hv.I(n), hv.B(b), parsePlain(b, 1)}
	case 2:
		return parsePlain(hv.AsBytes(l[2]), uint32(hv.AsInt(l[1])))
	case 3:
		var buf bytes.Buffer
		fw, err := spdy.NewFramer(&buf, nil)
		if err != nil {
			return hv.Err(9)
		}
		for _, fv := range hv.AsList(l[1]) {
			fw.WriteFrame(decFrame(fv))
		}
		fw.ReleaseWriter()
		return readAll(buf.Bytes(), false)
	case 4:
		return readAll(hv.AsBytes(l[1]), true)
	case 8:
		w := hv.AsBytes(l[1])
		over, v := allocOver(len(w), func() hv.Val { return readAll(w, true) })
		return hv.L{hv.I(over), v}
	case 9:
		b := hv.AsBytes(l[2])
		sid := uint32(hv.AsInt(l[1]))
		over, v := allocOver(len(b), func() hv.Val { return parsePlain(b, sid) })
		return hv.L{hv.I(over), v}
	case 5: // compact DATA round trip
		n := int(hv.AsInt(l[3]))
		if n < 0 || n > 1<<24+16 {
			return hv.Err(0)
		}
		buf := bytes.NewBuffer(make([]byte, 0, n+64))
		fw, err := spdy.NewFramer(buf, nil)
		if err != nil {
			return hv.Err(9)
		}
		data := bytes.Repeat([]byte{byte(hv.AsInt(l[4]))}, n)
		werr := fw.WriteFrame(&spdy.DataFrame{StreamId: spdy.StreamId(uint32(hv.AsInt(l[1]))), Flags: spdy.DataFlags(uint8(hv.AsInt(l[2]))), Data: data})
		_, code, _ := spdy.VerifErrCode(werr)
		hdr := []byte{}
		if buf.Len() >= 8 {
			hdr = append(hdr, buf.Bytes()[:8]...)
		}
		fw.WriteFrame(&spdy.PingFrame{Id: 7})
		fw.ReleaseWriter()
		compactMode = true
		rb := readAll(buf.Bytes(), true)
		compactMode = false
		return hv.L{hv.L{hv.I(code), hv.B(hdr)}, rb}
	case 6: // header-bearing frame with one incompressible header value
		vlen := int(hv.AsInt(l[4]))
		if vlen < 0 || vlen > 1<<24+4096 {
			return hv.Err(0)
		}
		val := make([]byte, vlen)
		x := uint64(0x9e3779b97f4a7c15)
		for i := range val {
			x ^= x << 13
			x ^= x >> 7
			x ^= x << 17
			val[i] = byte(x >> 32)
		}
		buf := bytes.NewBuffer(make([]byte, 0, vlen+vlen/64+4096))
		fw, err := spdy.NewFramer(buf, nil)
		if err != nil {
			return hv.Err(9)
		}
		h := http.Header{"x": []string{string(val)}}
		sid := spdy.StreamId(uint32(hv.AsInt(l[3])))
		fl := spdy.ControlFlags(uint8(hv.AsInt(l[2])))
		if hv.AsInt(l[1]) == 2 {
			f := &spdy.SynReplyFrame{StreamId: sid, Headers: h}
			f.CFHeader.Flags = fl
			fw.WriteFrame(f)
		} else {
			f := &spdy.HeadersFrame{StreamId: sid, Headers: h}
			f.CFHeader.Flags = fl
			fw.WriteFrame(f)
		}
		fw.ReleaseWriter()
		if buf.Len() < 12 {
			return hv.L{hv.B([]byte{}), hv.I(buf.Len())}
		}
		return hv.L{hv.B(append([]byte(nil), buf.Bytes()[:12]...)), hv.I(buf.Len())}
	case 7: // SETTINGS with n entries
		n := int(hv.AsInt(l[2]))
		if n < 0 || n > 1<<21+16 {
			return hv.Err(0)
		}
		buf := bytes.NewBuffer(make([]byte, 0, 8*n+64))
		fw, err := spdy.NewFramer(buf, nil)
		if err != nil {
			return hv.Err(9)
		}
		f := &spdy.SettingsFrame{FlagIdValues: make([]spdy.SettingsFlagIdValue, n)}
		f.CFHeader.Flags = spdy.ControlFlags(uint8(hv.AsInt(l[1])))
		for i := range f.FlagIdValues {
			f.FlagIdValues[i] = spdy.SettingsFlagIdValue{Flag: 0, Id: 4, Value: 100}
		}
		fw.WriteFrame(f)
		w := buf.Len()
		hdr := []byte{}
		if w >= 12 {
			hdr = append(hdr, buf.Bytes()[:12]...)
		}
		fw.WriteFrame(&spdy.PingFrame{Id: 7})
		fw.ReleaseWriter()
		var rb hv.Val = hv.L{}
		if n <= 1100 {
			compactMode = true
			rb = readAll(buf.Bytes(), true)
			compactMode = false
		}
		return hv.L{hv.B(hdr), hv.I(w), rb}
	}
	return hv.Err(0)
}

// ---------- generators ----------

var asciiNames = []string{"accept", "Accept-Encoding", "x-a", "X-Custom-Header", "user-agent", "COOKIE", ":path", ":method",
																									":host", ":scheme", ":version", "content-length", "a", "", "x_y", "b c", "etag", "Via", "x-1", "cache-control"}
var uniSame = []string{"é", "ß", "å", "中", "xé", "ⱥ", "a\u0307", "Σ", "σς", "Ж", "ж", "\u01c4", "\u01c5", "\u1e9e", "\U00010400", "\U0001e900", "\u2126", "\u13a0", "\uab70", "\ufb00", "\u0130\u0307"} // any rune: the model has the complete unicode.ToLower table
var uniShrink = []string{"\u0130x", "\u0130", "\u212a", "a\u212a", "\u212b", "\u1e9e", "x\u0130y", "\u00c9", "\u00c5", "\u023a", "x\xff", "\xc3", "a\u023ab"}                                           // É: same length, changes bytes
var uniGrow = []string{"Ⱥ", "x\xff", "\xc3"}                                                                                                                                                            // grow: the reader then sees a length >= 2^31
var invalidNames = []string{"Connection", "host", "keep-alive", "Transfer-Encoding", "proxy-connection"}

func pickInt(r *hv.Rng, xs []int) int { return xs[r.Intn(len(xs))] }
func pickI(r *hv.Rng, xs []int) int   { return pickInt(r, xs) }

func canonKey(name string) string { return textproto.CanonicalMIMEHeaderKey(strings.ToLower(name)) }

func genValue(r *hv.Rng) string {
	if r.Chance(1, 60) { // around the 4096-byte chunks of readBounded (compressible)
		return strings.Repeat("z", pickInt(r, []int{4095, 4096, 4097, 8191, 8192, 8193, 12288}))
	}
	switch r.Intn(8) {
	case 0:
		return ""
	case 1:
		return "a\x00b" // NUL inside a value: the separator of the format
	case 2:
		return string(r.Bytes(r.Range(1, 6)))
	case 3:
		return strings.Repeat("v", r.Range(1, 40))
	default:
		return r.Pick([]string{"GET", "/", "/index.html?q=1", "HTTP/1.1", "https", "example.org", "gzip, deflate", "1", "0", "text/html"})
	}
}

// mode 0: length-preserving names only; 1: may contain one shrinking name (then exactly one header)
func genHdrs(r *hv.Rng, maxN int, mode int) (hv.Val, string) {
	class := "ascii"
	if mode == 1 && r.Chance(1, 6) {
		name := r.Pick(uniShrink)
		return hv.L{hv.L{hv.S(name), hv.L{hv.S(genValue(r))}}}, "uni-len"
	}
	n := r.Intn(maxN + 1)
	seen := map[string]bool{}
	out := hv.L{}
	if r.Chance(1, 40) { // request path at the MaxHeaderUriSize limit (8192)
		seen[":path"] = true
		if n >= maxN && n > 0 {
			n--
		}
		out = append(out, hv.L{hv.S(":path"), hv.L{hv.S("/" + strings.Repeat("p", pickInt(r, []int{8190, 8191, 8192, 9000})))}})
	}
	for i := 0; i < n && len(out) < maxN; i++ {
		var name string
		switch {
		case r.Chance(1, 8):
			name = r.Pick(uniSame)
			class = "uni-same"
		case r.Chance(1, 30):
			name = r.Pick(invalidNames)
		case r.Chance(1, 6):
			name = string(bytes.Map(func(c rune) rune { return 'a' + c%26 }, r.Bytes(r.Range(1, 12))))
			if r.Bool() {
				name = strings.ToUpper(name[:1]) + name[1:]
			}
		default:
			name = r.Pick(asciiNames)
		}
		if seen[canonKey(name)] {
			continue
		}
		seen[canonKey(name)] = true
		vals := hv.L{}
		nv := 1
		if r.Chance(1, 5) {
			nv = r.Intn(4)
		}
		for j := 0; j < nv; j++ {
			vals = append(vals, hv.S(genValue(r)))
		}
		out = append(out, hv.L{hv.S(name), vals})
	}
	return out, class
}

func plainBlock(h hv.Val) []byte { // harness-side encoding used only to seed raw-block mutation
	var b bytes.Buffer
	l := hv.AsList(h)
	binary.Write(&b, binary.BigEndian, uint32(len(l)))
	for _, e := range l {
		x := hv.AsList(e)
		name := strings.ToLower(hv.AsStr(x[0]))
		vs := []string{}
		for _, v := range hv.AsList(x[1]) {
			vs = append(vs, hv.AsStr(v))
		}
		v := strings.Join(vs, "\x00")
		binary.Write(&b, binary.BigEndian, uint32(len(name)))
		b.WriteString(name)
		binary.Write(&b, binary.BigEndian, uint32(len(v)))
		b.WriteString(v)
	}
	return b.Bytes()
}

// largest length field the block parser would act on (generator filter only: keeps allocations of the
// real parser below 64 MB so that the harness never needs gigabytes)
func maxLenField(b []byte) uint32 {
	rd := func() (uint32, bool) {
		if len(b) < 4 {
			b = nil
			return 0, false
		}
		v := binary.BigEndian.Uint32(b)
		b = b[4:]
		return v, true
	}
	n, ok := rd()
	if !ok || n > 1024 {
		return 0
	}
	var mx uint32
	for i := uint32(0); i < 2*n; i++ {
		l, ok := rd()
		if !ok {
			return mx
		}
		if l > mx {
			mx = l
		}
		if uint64(l) > uint64(len(b)) {
			return mx
		}
		b = b[l:]
	}
	return mx
}

func genBlock(r *hv.Rng) (string, hv.Val) {
	for {
		h, _ := genHdrs(r, 5, 0)
		b := append([]byte(nil), plainBlock(h)...)
		class := "blk-valid"
		put := func(off int, v uint32) {
			if off+4 <= len(b) {
				binary.BigEndian.PutUint32(b[off:], v)
			}
		}
		if r.Chance(1, 8) { // one value around the 4096-byte read chunks, with less data than declared
			decl := pickInt(r, []int{4096, 4097, 8192, 8193, 12288, 12289})
			have := pickInt(r, []int{0, 1, 4095, 4096, 4097, 8191, 8192, 8193, decl - 1, decl})
			if have > decl {
				have = decl
			}
			var bb bytes.Buffer
			binary.Write(&bb, binary.BigEndian, uint32(1))
			binary.Write(&bb, binary.BigEndian, uint32(1))
			bb.WriteByte('v')
			binary.Write(&bb, binary.BigEndian, uint32(decl))
			bb.Write(bytes.Repeat([]byte{'q'}, have))
			return "blk-chunk", hv.L{hv.I(2), hv.I(1), hv.B(bb.Bytes())}
		}
		switch r.Intn(10) {
		case 0:
		case 1: // count field
			class = "blk-count"
			put(0, uint32(pickInt(r, []int{0, 1, 1023, 1024, 1025, 1026, 65536, 1 << 31, len(hv.AsList(h)) + 1, len(hv.AsList(h)) - 1})))
		case 2, 3: // some 4-byte field becomes a large length (attacker-chosen allocation)
			class = "blk-biglen"
			if len(b) >= 8 {
				put(4*r.Intn(len(b)/4), uint32(pickInt(r, []int{len(b), len(b) + 1, 4096, 65536, 1 << 20, 1 << 24, 1<<26 - 1})))
			}
		case 4: // truncation
			class = "blk-trunc"
			b = b[:r.Intn(len(b)+1)]
		case 5: // one byte changed
			class = "blk-flip"
			if len(b) > 0 {
				b[r.Intn(len(b))] = byte(pickInt(r, []int{0, 1, 2, 4, 65, 97, 0x7f, 0x80, 0xc3, 0xff}))
			}
		case 6: // upper-case / duplicate name inside the block
			class = "blk-case"
			for i := range b {
				if b[i] >= 'a' && b[i] <= 'z' && r.Chance(1, 6) {
					b[i] -= 32
				}
			}
		case 7: // duplicated entry
			class = "blk-dup"
			if len(b) > 4 {
				n := binary.BigEndian.Uint32(b)
				b = append(b, b[4:]...)
				put(0, 2*n)
			}
		case 8: // trailing garbage
			class = "blk-trail"
			b = append(b, r.Bytes(r.Range(1, 9))...)
		case 9: // full 1024 / 1025 small headers
			class = "blk-1024"
			n := 1024 + r.Intn(2)
			var bb bytes.Buffer
			binary.Write(&bb, binary.BigEndian, uint32(n))
			for i := 0; i < n; i++ {
				nm := []byte{'a' + byte(i%26), 'a' + byte(i/26%26), 'a' + byte(i/676)}
				binary.Write(&bb, binary.BigEndian, uint32(3))
				bb.Write(nm)
				binary.Write(&bb, binary.BigEndian, uint32(0))
			}
			b = bb.Bytes()
			if r.Chance(1, 50) == false && r.Chance(9, 10) { // mostly keep these rare: they are big
				continue
			}
		}
		if maxLenField(b) > 1<<26 {
			continue
		}
		return class, hv.L{hv.I(2), hv.I(r.Range(0, 3)), hv.B(b)}
	}
}

func genFrame(r *hv.Rng, mode int) (hv.Val, string) {
	sid := func() int {
		switch r.Intn(12) {
		case 0:
			return 0
		case 1:
			return 1<<31 - 1
		default:
			return r.Range(1, 40)
		}
	}
	fl := func() int {
		if r.Chance(1, 4) {
			return r.Intn(256)
		}
		return r.Intn(3)
	}
	switch r.Intn(11) {
	case 0, 1, 2:
		h, c := genHdrs(r, 4, mode)
		return hv.L{hv.I(1), hv.I(fl()), hv.I(sid()), hv.I(r.Intn(3)), hv.I(r.Intn(8)), hv.I(r.Intn(256)), h}, c
	case 3:
		h, c := genHdrs(r, 4, mode)
		return hv.L{hv.I(2), hv.I(fl()), hv.I(sid()), h}, c
	case 4:
		h, c := genHdrs(r, 3, mode)
		return hv.L{hv.I(8), hv.I(fl()), hv.I(sid()), h}, c
	case 5:
		st := r.Range(1, 12)
		return hv.L{hv.I(3), hv.I(sid()), hv.I(st)}, ""
	case 6:
		l := hv.L{}
		for i := r.Intn(4); i > 0; i-- {
			l = append(l, hv.L{hv.I(r.Intn(3)), hv.I(r.Range(1, 9)), hv.U(uint64(r.U64() >> uint(32+r.Intn(32))))})
		}
		return hv.L{hv.I(4), hv.I(r.Intn(2)), l}, ""
	case 7:
		return hv.L{hv.I(6), hv.U(uint64(uint32(r.U64()>>uint(32+r.Intn(30))) | 1))}, ""
	case 8:
		return hv.L{hv.I(7), hv.I(r.Intn(50)), hv.I(r.Intn(3))}, ""
	case 9:
		return hv.L{hv.I(9), hv.I(r.Intn(30)), hv.U(uint64(uint32(r.U64() >> uint(33+r.Intn(30)))))}, ""
	default:
		return hv.L{hv.I(0), hv.I(sid()), hv.I(r.Intn(2)), hv.B(r.Bytes(r.Intn(30)))}, ""
	}
}

func genFrames(r *hv.Rng) (string, hv.Val) {
	n := r.Range(1, 6)
	fs := hv.L{}
	class := "rt-ascii"
	for i := 0; i < n; i++ {
		f, c := genFrame(r, 1)
		if c == "uni-len" {
			class = "rt-uni-len"
		} else if c == "uni-same" && class == "rt-ascii" {
			class = "rt-uni-same"
		}
		fs = append(fs, f)
	}
	return class, hv.L{hv.I(3), fs}
}

// ---- op 4: a real wire written by the Framer, its inflate oracle, then frame-level mutations ----
type seg struct {
	b       []byte
	rel, sz int // compressed header block inside b (sz == 0: none)
	plain   []byte
	idx     int
}

func plainLen(h hv.Val) int {
	n := 4
	for _, e := range hv.AsList(h) {
		x := hv.AsList(e)
		n += 8 + len(strings.ToLower(hv.AsStr(x[0])))
		vs := hv.AsList(x[1])
		for j, v := range vs {
			n += len(hv.AsBytes(v))
			if j > 0 {
				n++
			}
		}
	}
	return n
}

func genWire(r *hv.Rng) (string, hv.Val) {
	var buf bytes.Buffer
	fw, err := spdy.NewFramer(&buf, nil)
	if err != nil {
		panic(err)
	}
	segs := []*seg{}
	n := r.Range(1, 6)
	var comp bytes.Buffer
	nidx := 0
	for i := 0; i < n; i++ {
		fv, _ := genFrame(r, 0)
		if r.Chance(1, 10) {
			fv, _ = genFrame(r, 1)
		}
		before := buf.Len()
		fw.WriteFrame(decFrame(fv))
		b := append([]byte(nil), buf.Bytes()[before:]...)
		if len(b) == 0 {
			continue
		}
		s := &seg{b: b}
		l := hv.AsList(fv)
		switch hv.AsInt(l[0]) {
		case 1:
			s.rel, s.sz = 18, len(b)-18
			s.plain = make([]byte, plainLen(l[6]))
		case 2, 8:
			s.rel, s.sz = 12, len(b)-12
			s.plain = make([]byte, plainLen(l[3]))
		}
		if s.sz > 0 {
			comp.Write(b[s.rel:])
			s.idx = nidx
			nidx++
		}
		segs = append(segs, s)
	}
	fw.ReleaseWriter()
	// inflate oracle: the real inflater over the concatenated compressed blocks
	if comp.Len() > 0 {
		zr, err := zlib.NewReaderDict(bytes.NewReader(comp.Bytes()), spdy.VerifHeaderDictionary())
		if err != nil {
			panic(err)
		}
		for _, s := range segs {
			if s.sz > 0 {
				if _, err := io.ReadFull(zr, s.plain); err != nil {
					panic("oracle inflate: " + err.Error())
				}
			}
		}
	}
	class := "wire-valid"
	setLen := func(s *seg, v int) {
		if len(s.b) >= 8 {
			s.b[5], s.b[6], s.b[7] = byte(v>>16), byte(v>>8), byte(v)
		}
	}
	raw := func(typ, flags, length int, payload []byte) *seg {
		b := []byte{0x80, 3, byte(typ >> 8), byte(typ), byte(flags), byte(length >> 16), byte(length >> 8), byte(length)}
		return &seg{b: append(b, payload...)}
	}
	insert := func(at int, s *seg) {
		segs = append(segs, nil)
		copy(segs[at+1:], segs[at:])
		segs[at] = s
	}
	if len(segs) > 0 {
		j := r.Intn(len(segs))
		s := segs[j]
		cur := 0
		if len(s.b) >= 8 {
			cur = int(s.b[5])<<16 | int(s.b[6])<<8 | int(s.b[7])
		}
		switch r.Intn(12) {
		case 0, 1:
		case 2: // declared length off by a little
			class = "wire-len"
			setLen(s, cur+pickInt(r, []int{-1, 1, -4, 4, 8, -8}))
		case 3: // short header-bearing / fixed frames
			class = "wire-short"
			setLen(s, r.Intn(10))
		case 4:
			class = "wire-type"
			s.b[3] = byte(r.Range(0, 10))
		case 5:
			class = "wire-flags"
			if len(s.b) >= 5 {
				s.b[4] = byte(r.Intn(256))
			}
		case 6: // hand-made SYN_STREAM shorter than its fixed part, followed by the rest of the wire
			class = "wire-underflow"
			ln := r.Intn(10)
			insert(j, raw(pickInt(r, []int{1, 1, 2, 8}), 0, ln, r.Bytes(ln)))
		case 7: // unknown control type / fixed-size frame with a wrong length
			class = "wire-fixedlen"
			ln := pickInt(r, []int{0, 4, 8, 12, 16})
			insert(j, raw(pickInt(r, []int{3, 4, 6, 7, 9, 5, 10, 0}), r.Intn(2), ln, r.Bytes(ln)))
		case 8: // a frame disappears (the zlib context of later blocks is lost)
			class = "wire-drop"
			segs = append(segs[:j], segs[j+1:]...)
		case 9: // byte change in the fixed part
			class = "wire-flip"
			k := r.Intn(len(s.b))
			if s.sz == 0 || k < s.rel {
				s.b[k] ^= byte(1 << uint(r.Intn(8)))
			}
		case 10: // version field is not checked
			class = "wire-version"
			if s.b[0]&0x80 != 0 {
				s.b[1] = byte(r.Intn(256))
			}
		case 11: // DATA frame announcing more than there is
			class = "wire-bigdata"
			d := &seg{b: []byte{0, 0, 0, 1, 0, byte(r.Intn(2)), byte(r.Intn(256)), byte(r.Intn(256))}}
			insert(j, d)
		}
	}
	var wire []byte
	chunks := hv.L{}
	for _, s := range segs {
		if s.sz > 0 {
			chunks = append(chunks, hv.L{hv.I(s.idx), hv.I(len(wire) + s.rel), hv.I(s.sz), hv.B(s.plain)})
		}
		wire = append(wire, s.b...)
	}
	if r.Chance(1, 8) {
		class += "-trunc"
		wire = wire[:r.Intn(len(wire)+1)]
	}
	return class, hv.L{hv.I(4), hv.B(wire), chunks}
}

// length-field boundaries (compact inputs: the 16 MB payloads exist only inside the harness)
var boundary = []struct {
	class string
	in    hv.Val
}{
	{"len-data-0", hv.L{hv.I(5), hv.I(1), hv.I(0), hv.I(0), hv.I(65)}},
	{"len-data-1", hv.L{hv.I(5), hv.I(1), hv.I(1), hv.I(1), hv.I(65)}},
	{"len-data-max-1", hv.L{hv.I(5), hv.I(3), hv.I(0), hv.I(1<<24 - 2), hv.I(66)}},
	{"len-data-max", hv.L{hv.I(5), hv.I(3), hv.I(1), hv.I(1<<24 - 1), hv.I(67)}},
	{"len-data-over", hv.L{hv.I(5), hv.I(3), hv.I(0), hv.I(1 << 24), hv.I(68)}},
	{"len-data-over+1", hv.L{hv.I(5), hv.I(3), hv.I(0), hv.I(1<<24 + 1), hv.I(69)}},
	{"len-data-sid0", hv.L{hv.I(5), hv.I(0), hv.I(0), hv.I(10), hv.I(70)}},
	{"len-data-sid31", hv.L{hv.I(5), hv.I(1 << 31), hv.I(0), hv.I(10), hv.I(70)}},
	{"len-data-sidmax", hv.L{hv.I(5), hv.I(1<<31 - 1), hv.I(255), hv.I(65535), hv.I(255)}},
	{"len-settings-0", hv.L{hv.I(7), hv.I(0), hv.I(0)}},
	{"len-settings-1024", hv.L{hv.I(7), hv.I(1), hv.I(1024)}},
	{"len-settings-1025", hv.L{hv.I(7), hv.I(0), hv.I(1025)}},
	{"len-settings-2^21-1", hv.L{hv.I(7), hv.I(0), hv.I(1<<21 - 1)}},
	{"len-settings-2^21", hv.L{hv.I(7), hv.I(0), hv.I(1 << 21)}},
	{"len-hdr-small", hv.L{hv.I(6), hv.I(2), hv.I(1), hv.I(5), hv.I(1000)}},
	{"len-hdr-1M", hv.L{hv.I(6), hv.I(8), hv.I(0), hv.I(5), hv.I(1 << 20)}},
	{"len-hdr-over", hv.L{hv.I(6), hv.I(2), hv.I(0), hv.I(5), hv.I(1 << 24)}},
}

// a peer-declared length far beyond the bytes supplied: count 1, then either the name or the value
// declares `decl` bytes and only `have` follow
var bigDecl = []int{1 << 24, 1 << 26, 1<<26 + 1, 1 << 28, 1 << 30, 1<<31 - 1, 1 << 31, 1<<32 - 1}

func hugeBlock(r *hv.Rng) []byte {
	decl := uint32(pickInt(r, bigDecl[:3]))
	if r.Chance(1, 5) { // a few up to 2^32-1: a parser that trusts them needs gigabytes
		decl = uint32(pickInt(r, bigDecl))
	}
	have := pickInt(r, []int{0, 1, 2, 100, 4095, 4096, 4097, 9000})
	var bb bytes.Buffer
	binary.Write(&bb, binary.BigEndian, uint32(1))
	if r.Bool() { // the value is the huge one
		binary.Write(&bb, binary.BigEndian, uint32(1))
		bb.WriteByte('v')
	}
	binary.Write(&bb, binary.BigEndian, decl)
	bb.Write(bytes.Repeat([]byte{'q'}, have))
	return bb.Bytes()
}

// genAlloc: operation 9 (plain block) and 8 (a 30..60-byte header frame through real zlib) with huge declared lengths,
// plus ordinary blocks / wires so that the verdict is also exercised where real data is large
func genAlloc(r *hv.Rng) (string, hv.Val) {
	switch r.Intn(5) {
	case 0:
		_, v := genBlock(r)
		l := hv.AsList(v)
		return "alloc-blk", hv.L{hv.I(9), l[1], l[2]}
	case 1:
		_, v := genWire(r)
		l := hv.AsList(v)
		return "alloc-wire", hv.L{hv.I(8), l[1], l[2]}
	case 2, 3:
		return "alloc-huge-blk", hv.L{hv.I(9), hv.I(1), hv.B(hugeBlock(r))}
	default:
		plain := hugeBlock(r)
		var comp bytes.Buffer
		zw, err := zlib.NewWriterLevelDict(&comp, zlib.BestCompression, spdy.VerifHeaderDictionary())
		if err != nil {
			panic(err)
		}
		zw.Write(plain)
		zw.Flush()
		kind := pickInt(r, []int{1, 2, 8})
		fixed := []byte{0, 0, 0, 5}
		if kind == 1 {
			fixed = []byte{0, 0, 0, 5, 0, 0, 0, 0, 0x40, 0}
		}
		ln := len(fixed) + comp.Len()
		wire := []byte{0x80, 3, 0, byte(kind), byte(r.Intn(2)), byte(ln >> 16), byte(ln >> 8), byte(ln)}
		wire = append(wire, fixed...)
		off := len(wire)
		wire = append(wire, comp.Bytes()...)
		wire = append(wire, 0x80, 3, 0, 6, 0, 0, 0, 4, 0, 0, 0, 9) // a PING after it
		return "alloc-huge-frame", hv.L{hv.I(8), hv.B(wire), hv.L{hv.L{hv.I(0), hv.I(off), hv.I(comp.Len()), hv.B(plain)}}}
	}
}

func gen(r *hv.Rng, i int, tier string) (string, hv.Val) {
	if i < len(boundary) {
		return boundary[i].class, boundary[i].in
	}
	if i%20 == 13 { // allocation verdict cases
		return genAlloc(r)
	}
	if i%50 == 7 { // random compact cases; a few per run at the 2^24 boundary
		switch r.Intn(3) {
		case 0:
			n := pickI(r, []int{0, 1, 2, 255, 256, 65535, 65536, 70000, r.Intn(200000)})
			if i%1000 == 7 && tier == "thorough" {
				n = 1<<24 + pickI(r, []int{-2, -1, 0, 1})
			}
			return "len-data", hv.L{hv.I(5), hv.I(pickI(r, []int{0, 1, 2, 77, 1<<31 - 1, 1 << 31})), hv.I(r.Intn(256)), hv.I(n), hv.I(r.Intn(256))}
		case 1:
			return "len-settings", hv.L{hv.I(7), hv.I(r.Intn(256)), hv.I(pickI(r, []int{0, 1, 2, 100, 1023, 1024, 1025, 1100, 1101, 5000}))}
		default:
			return "len-hdr", hv.L{hv.I(6), hv.I(pickI(r, []int{2, 8})), hv.I(r.Intn(256)), hv.I(r.Range(1, 1000)), hv.I(pickI(r, []int{0, 1, 100, 4096, 65536, 100000}))}
		}
	}
	switch i % 4 {
	case 0:
		h, c := genHdrs(r, 4, 1)
		if len(hv.AsList(h)) == 0 {
			return "triv-wr-empty", hv.L{hv.I(1), h}
		}
		return "wr-" + c, hv.L{hv.I(1), h}
	case 1:
		return genBlock(r)
	case 2:
		return genFrames(r)
	default:
		return genWire(r)
	}
}

func main() {
	hv.Main(&hv.Spec{Prop: "C39", Gen: gen, Impl: impl, NQuick: 4000, NThorough: 300000})
}
