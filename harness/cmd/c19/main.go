// C19: ipdict InsertPair/InsertSingle/Sort + IPTable.Search vs model IpDict.v.
// input : [ [[xS xE]...] [xSingle...] [xProbe...] maxSingle noUpdate ]
// output: [ pairErrs singleErrs s1 s2 final results length ]  (see coq/run/RunC19.v)
package main

import (
	"net"
	"sort"

	"verif/harness/hv"

	"github.com/bfenetworks/bfe/bfe_util/ipdict"
)

func encPairs(ps [][2][]byte) hv.Val {
	out := hv.L{}
	for _, p := range ps {
		out = append(out, hv.L{hv.B(p[0]), hv.B(p[1])})
	}
	return out
}

func load(in hv.Val, withSingles bool) (*ipdict.IPItems, hv.L, hv.L) {
	parts := hv.AsList(in)
	pairs := hv.AsList(parts[0])
	singles := hv.AsList(parts[1])
	items, err := ipdict.NewIPItems(int(hv.AsInt(parts[3])), len(pairs)/2)
	if err != nil {
		panic(err)
	}
	pe := hv.L{}
	for _, p := range pairs {
		se := hv.AsList(p)
		e := items.InsertPair(net.IP(hv.AsBytes(se[0])), net.IP(hv.AsBytes(se[1])))
		pe = append(pe, hv.Bool(e != nil))
	}
	sErr := hv.L{}
	if withSingles {
		for _, s := range singles {
			e := items.InsertSingle(net.IP(hv.AsBytes(s)))
			sErr = append(sErr, hv.Bool(e != nil))
		}
	}
	return items, pe, sErr
}

func impl(in hv.Val) hv.Val {
	parts := hv.AsList(in)
	if len(parts) != 5 {
		return hv.Err(0)
	}
	// (a) the real thing: load, IPItems.Sort(), IPTable.Update, IPTable.Search
	items, pe, se := load(in, true)
	items.Sort()
	final := items.VerifPairs()
	length := items.Length()
	tbl := ipdict.NewIPTable()
	if !hv.AsBool(parts[4]) {
		tbl.Update(items)
	}
	res := hv.L{}
	for _, q := range hv.AsList(parts[2]) {
		res = append(res, hv.Bool(tbl.Search(net.IP(hv.AsBytes(q)))))
	}
	// (b) what sort.Sort did inside Sort(): sort.Sort is deterministic, so repeating the call on a second
	// copy reveals the sorted array (the model does not fix the order of equal keys; the driver validates it
	// and recomputes everything else); the real mergeItems on that copy gives the array before the reslice.
	tr, _, _ := load(in, false)
	sort.Sort(tr.VerifSortable())
	s1 := tr.VerifPairs()
	tr.VerifMergeItems()
	s2 := tr.VerifPairs()
	return hv.L{pe, se, encPairs(s1), encPairs(s2), encPairs(final), res, hv.I(length)}
}

func badLen(r *hv.Rng) int { return []int{0, 1, 3, 5, 15, 17}[r.Intn(6)] }

// ---- generator ----
type addr struct {
	hi, lo uint64
	v4     bool // express as 4-byte slice when possible
}

func (a addr) bytes() []byte {
	b := make([]byte, 16)
	for i := 0; i < 8; i++ {
		b[i] = byte(a.hi >> uint(56-8*i))
		b[8+i] = byte(a.lo >> uint(56-8*i))
	}
	if a.v4 && a.hi == 0 && a.lo>>32 == 0xffff {
		return b[12:]
	}
	return b
}
func (a addr) add(d int) addr {
	r := a
	if d >= 0 {
		lo := a.lo + uint64(d)
		if lo < a.lo {
			if r.hi == ^uint64(0) {
				return addr{^uint64(0), ^uint64(0), a.v4}
			}
			r.hi++
		}
		r.lo = lo
	} else {
		lo := a.lo - uint64(-d)
		if lo > a.lo {
			if r.hi == 0 {
				return addr{0, 0, a.v4}
			}
			r.hi--
		}
		r.lo = lo
	}
	return r
}

const z4 = uint64(0xffff00000000)

// bases of the small address universes the ranges are drawn from
func base(r *hv.Rng, allowZero bool) addr {
	switch r.Intn(8) {
	case 0:
		if allowZero {
			return addr{0, 0, false} // ::
		}
		return addr{0, 1, false}
	case 1:
		if allowZero {
			return addr{0, z4, r.Bool()} // 0.0.0.0
		}
		return addr{0, z4 + 1, r.Bool()}
	case 2:
		return addr{0, z4 + 0x0a000000, r.Bool()} // 10.0.0.0
	case 3:
		return addr{0, z4 + 0xffffff80, r.Bool()} // 255.255.255.128
	case 4:
		return addr{0x20010db800000000, 0, false}
	case 5:
		return addr{^uint64(0), ^uint64(0) - 100, false} // top of the space
	case 6:
		return addr{0, z4 - 40, false} // straddles the start of the v4-mapped block
	default:
		return addr{0, 3, false}
	}
}

func gen(r *hv.Rng, i int, tier string) (string, hv.Val) {
	class := "guard"
	zero := r.Chance(1, 8)
	if zero {
		class = "zero"
	}
	n := r.Range(1, 14)
	switch r.Intn(6) {
	case 0:
		n = r.Range(13, 40) // pdqsort path
	case 1:
		n = r.Range(0, 3)
	}
	nb := r.Range(1, 3)
	bases := make([]addr, nb)
	for k := range bases {
		bases[k] = base(r, zero)
	}
	if zero {
		if r.Bool() {
			bases[0] = addr{0, 0, false}
		} else {
			bases[0] = addr{0, z4, r.Bool()}
		}
	}
	span := r.Pick([]string{"8", "30", "120"})
	sp := map[string]int{"8": 8, "30": 30, "120": 120}[span]
	pairs := hv.L{}
	probes := hv.L{}
	addProbe := func(a addr) {
		for _, d := range []int{-1, 0, 1} {
			p := a.add(d)
			p.v4 = r.Bool()
			probes = append(probes, hv.B(p.bytes()))
		}
	}
	var prev [2]addr
	for k := 0; k < n; k++ {
		b := bases[r.Intn(nb)]
		var s, e addr
		switch {
		case k > 1 && r.Chance(1, 8): // umbrella: small start, reaches over several earlier ranges
			s = b.add(r.Intn(3))
			e = b.add(sp/2 + r.Intn(sp))
		case k > 0 && r.Chance(1, 6): // nested in / adjacent to / same start as the previous one
			switch r.Intn(4) {
			case 0:
				s, e = prev[0], prev[1].add(r.Intn(5))
			case 1:
				s, e = prev[1].add(1), prev[1].add(1+r.Intn(4)) // adjacent, must not be needed for membership
			case 2:
				s, e = prev[1], prev[1].add(r.Intn(4)) // touching at one address
			default:
				s, e = prev[0].add(1), prev[1].add(-1)
			}
		default:
			s = b.add(r.Intn(sp))
			if zero && r.Chance(1, 4) {
				s = bases[0]
			}
			ln := 0
			switch r.Intn(4) {
			case 0:
				ln = 0
			case 1:
				ln = r.Intn(3)
			default:
				ln = r.Intn(sp/2 + 1)
			}
			e = s.add(ln)
		}
		if !zero { // keep the guard class free of the two sentinel shapes
			if s.hi == 0 && s.lo == 0 {
				s = s.add(1)
			}
			if e.hi == 0 && e.lo == z4 {
				s, e = s.add(1), e.add(1)
			}
			if s.hi == 0 && s.lo == 0 {
				s = s.add(1)
			}
		}
		s.v4, e.v4 = r.Bool(), r.Bool()
		if r.Chance(1, 30) { // rejected by checkIPPair: every error branch
			switch r.Intn(5) {
			case 0:
				s, e = e, s // start > end (unless equal)
			case 1:
				pairs = append(pairs, hv.L{hv.B(r.Bytes(badLen(r))), hv.B(e.bytes())})
				continue
			case 2:
				pairs = append(pairs, hv.L{hv.B(s.bytes()), hv.B(r.Bytes(badLen(r)))})
				continue
			case 3: // IPv4 start, non-IPv4 end
				pairs = append(pairs, hv.L{hv.B(addr{0, z4 + uint64(r.Intn(50)), r.Bool()}.bytes()), hv.B(addr{1, uint64(r.Intn(50)), false}.bytes())})
				continue
			default: // non-IPv4 start, IPv4 end
				pairs = append(pairs, hv.L{hv.B(addr{0, uint64(r.Intn(50)), false}.bytes()), hv.B(addr{0, z4 + uint64(r.Intn(50)), r.Bool()}.bytes())})
				continue
			}
		}
		prev = [2]addr{s, e}
		pairs = append(pairs, hv.L{hv.B(s.bytes()), hv.B(e.bytes())})
		if len(probes) < 60 {
			addProbe(s)
			addProbe(e)
		}
	}
	singles := hv.L{}
	nsing := r.Intn(5)
	if r.Chance(1, 10) {
		nsing = r.Range(5, 9)
	}
	var lastSingle addr
	for k := nsing; k > 0; k-- {
		a := bases[r.Intn(nb)].add(r.Intn(sp))
		if k < nsing && r.Chance(1, 4) {
			a = lastSingle // duplicate single (4-/16-byte form may differ)
		}
		a.v4 = r.Bool()
		lastSingle = a
		if r.Chance(1, 20) {
			singles = append(singles, hv.B(r.Bytes(badLen(r))))
			continue
		}
		singles = append(singles, hv.B(a.bytes()))
		addProbe(a)
	}
	// NewIPItems(maxSingle, ..): the set takes maxSingle+1 distinct addresses; below that InsertSingle fails
	maxSingle := len(singles)
	if len(singles) > 0 && r.Chance(1, 4) {
		maxSingle = r.Intn(len(singles))
		class += "-full"
	}
	noUpdate := r.Chance(1, 50)
	for k := r.Range(2, 10); k > 0; k-- {
		a := bases[r.Intn(nb)].add(r.Intn(sp*2) - sp/2)
		a.v4 = r.Bool()
		probes = append(probes, hv.B(a.bytes()))
	}
	if r.Chance(1, 10) {
		probes = append(probes, hv.B(r.Bytes(badLen(r))))
	}
	if n == 0 {
		class = "triv-empty"
	} else if n > 12 {
		class += "-pdq"
	}
	if noUpdate {
		class = "triv-noupdate"
	}
	return class, hv.L{pairs, singles, probes, hv.I(maxSingle), hv.Bool(noUpdate)}
}

func main() {
	hv.Main(&hv.Spec{Prop: "C19", Gen: gen, Impl: impl, NQuick: 4000, NThorough: 300000})
}
