// C19: ipdict InsertPair/InsertSingle/Sort + IPTable.Search vs model IpDict.v.
// input : [ [[xS xE]...] [xSingle...] [xProbe...] maxSingle mode ] (+ [pairs2 singles2] in mode 2 = reload)
// output: [ pairErrs singleErrs s1 s2 final results length ]  (see coq/run/RunC19.v)
package main

import (
	"net"
	"sort"

	"verif/harness/hv"

	"github.com/bfenetworks/bfe/bfe_util/ipdict"
)

func encPairs(ps [][2][]byte) hv.Val {
	out := hv.L{}
	for _, p := range ps {
		out = append(out, hv.L{hv.B(p[0]), hv.B(p[1])})
	}
	return out
}

func load(pairs, singles hv.L, maxSingle int, withSingles bool, hash func([]byte) uint64) (*ipdict.IPItems, hv.L, hv.L) {
	var items *ipdict.IPItems
	var err error
	if hash == nil {
		items, err = ipdict.NewIPItems(maxSingle, len(pairs)/2)
	} else {
		items, err = ipdict.VerifNewIPItemsHash(maxSingle, len(pairs)/2, hash)
	}
	if err != nil {
		panic(err)
	}
	pe := hv.L{}
	for _, p := range pairs {
		se := hv.AsList(p)
		e := items.InsertPair(net.IP(hv.AsBytes(se[0])), net.IP(hv.AsBytes(se[1])))
		pe = append(pe, hv.Bool(e != nil))
	}
	sErr := hv.L{}
	if withSingles {
		for _, s := range singles {
			e := items.InsertSingle(net.IP(hv.AsBytes(s)))
			sErr = append(sErr, hv.Bool(e != nil))
		}
	}
	return items, pe, sErr
}

// one dictionary version: load, IPItems.Sort(); plus, on a second copy, the sorted array and the array after
// the real mergeItems (sort.Sort is deterministic, so repeating the call reveals what it did inside Sort();
// the model does not fix the order of equal keys: the driver validates the sorted array and recomputes the rest)
func version(pairs, singles hv.L, maxSingle int, hash func([]byte) uint64) (*ipdict.IPItems, hv.L) {
	items, pe, se := load(pairs, singles, maxSingle, true, hash)
	items.Sort()
	final := items.VerifPairs()
	tr, _, _ := load(pairs, singles, maxSingle, false, nil)
	sort.Sort(tr.VerifSortable())
	s1 := tr.VerifPairs()
	tr.VerifMergeItems()
	s2 := tr.VerifPairs()
	return items, hv.L{pe, se, encPairs(s1), encPairs(s2), encPairs(final)}
}

func searchAll(tbl *ipdict.IPTable, probes hv.L) hv.L {
	res := hv.L{}
	for _, q := range probes {
		res = append(res, hv.Bool(tbl.Search(net.IP(hv.AsBytes(q)))))
	}
	return res
}

func impl(in hv.Val) hv.Val {
	parts := hv.AsList(in)
	if len(parts) != 5 && len(parts) != 7 {
		return hv.Err(0)
	}
	probes := hv.AsList(parts[2])
	maxSingle := int(hv.AsInt(parts[3]))
	mode := hv.AsInt(parts[4])
	tbl := ipdict.NewIPTable()
	if mode != 2 {
		items, o := version(hv.AsList(parts[0]), hv.AsList(parts[1]), maxSingle, nil)
		length := items.Length()
		if mode == 0 {
			tbl.Update(items)
		}
		return append(o, searchAll(tbl, probes), hv.I(length))
	}
	// reload mode: version 1's single-address set gets a hash function that, when armed, performs
	// IPTable.Update(version 2) -- i.e. between the snapshot taken by Search and its two lookup steps
	var v2 *ipdict.IPItems
	armed, fired := false, false
	hash := func(k []byte) uint64 {
		if armed {
			armed, fired = false, true
			tbl.Update(v2)
		}
		return ipdict.Hash(k)
	}
	v1, o1 := version(hv.AsList(parts[0]), hv.AsList(parts[1]), maxSingle, hash)
	var o2 hv.L
	v2, o2 = version(hv.AsList(parts[5]), hv.AsList(parts[6]), maxSingle, nil)
	length := v1.Length()
	tbl.Update(v1)
	res1 := searchAll(tbl, probes)
	mid, after := hv.L{}, hv.L{}
	for _, q := range probes {
		tbl.Update(v1)
		armed, fired = true, false
		r := tbl.Search(net.IP(hv.AsBytes(q)))
		if !fired { // the probe is no IP address: Search returned before the set lookup
			armed = false
			tbl.Update(v2)
		}
		mid = append(mid, hv.Bool(r))
		after = append(after, hv.Bool(tbl.Search(net.IP(hv.AsBytes(q)))))
	}
	// and a real race: a goroutine keeps swapping the two versions while every probe is searched again; each
	// answer must be the version-1 or the version-2 answer (only such answers are reported as the mid column
	// would be, so the observation stays deterministic on correct code)
	stop, done := make(chan struct{}), make(chan struct{})
	go func() {
		defer close(done)
		for i := 0; ; i++ {
			select {
			case <-stop:
				return
			default:
			}
			if i%2 == 0 {
				tbl.Update(v1)
			} else {
				tbl.Update(v2)
			}
		}
	}()
	bad := 0
	for rep := 0; rep < 20; rep++ {
		for k, q := range probes {
			r := hv.Bool(tbl.Search(net.IP(hv.AsBytes(q))))
			if hv.String(r) != hv.String(res1[k]) && hv.String(r) != hv.String(after[k]) {
				bad++
			}
		}
	}
	close(stop)
	<-done
	if bad > 0 { // impossible on linearizable code: make the mid column disagree
		mid = append(mid, hv.I(bad))
	}
	out := append(o1, res1, hv.I(length))
	out = append(out, o2...)
	return append(out, mid, after)
}

func badLen(r *hv.Rng) int { return []int{0, 1, 3, 5, 15, 17}[r.Intn(6)] }

// ---- generator ----
type addr struct {
	hi, lo uint64
	v4     bool // express as 4-byte slice when possible
}

func (a addr) bytes() []byte {
	b := make([]byte, 16)
	for i := 0; i < 8; i++ {
		b[i] = byte(a.hi >> uint(56-8*i))
		b[8+i] = byte(a.lo >> uint(56-8*i))
	}
	if a.v4 && a.hi == 0 && a.lo>>32 == 0xffff {
		return b[12:]
	}
	return b
}
func (a addr) add(d int) addr {
	r := a
	if d >= 0 {
		lo := a.lo + uint64(d)
		if lo < a.lo {
			if r.hi == ^uint64(0) {
				return addr{^uint64(0), ^uint64(0), a.v4}
			}
			r.hi++
		}
		r.lo = lo
	} else {
		lo := a.lo - uint64(-d)
		if lo > a.lo {
			if r.hi == 0 {
				return addr{0, 0, a.v4}
			}
			r.hi--
		}
		r.lo = lo
	}
	return r
}

const z4 = uint64(0xffff00000000)

// bases of the small address universes the ranges are drawn from
func base(r *hv.Rng, allowZero bool) addr {
	switch r.Intn(8) {
	case 0:
		if allowZero {
			return addr{0, 0, false} // ::
		}
		return addr{0, 1, false}
	case 1:
		if allowZero {
			return addr{0, z4, r.Bool()} // 0.0.0.0
		}
		return addr{0, z4 + 1, r.Bool()}
	case 2:
		return addr{0, z4 + 0x0a000000, r.Bool()} // 10.0.0.0
	case 3:
		return addr{0, z4 + 0xffffff80, r.Bool()} // 255.255.255.128
	case 4:
		return addr{0x20010db800000000, 0, false}
	case 5:
		return addr{^uint64(0), ^uint64(0) - 100, false} // top of the space
	case 6:
		return addr{0, z4 - 40, false} // straddles the start of the v4-mapped block
	default:
		return addr{0, 3, false}
	}
}

func gen(r *hv.Rng, i int, tier string) (string, hv.Val) {
	class := "guard"
	zero := r.Chance(1, 8)
	if zero {
		class = "zero"
	}
	n := r.Range(1, 14)
	switch r.Intn(6) {
	case 0:
		n = r.Range(13, 40) // pdqsort path
	case 1:
		n = r.Range(0, 3)
	}
	nb := r.Range(1, 3)
	bases := make([]addr, nb)
	for k := range bases {
		bases[k] = base(r, zero)
	}
	if zero {
		if r.Bool() {
			bases[0] = addr{0, 0, false}
		} else {
			bases[0] = addr{0, z4, r.Bool()}
		}
	}
	span := r.Pick([]string{"8", "30", "120"})
	sp := map[string]int{"8": 8, "30": 30, "120": 120}[span]
	pairs := hv.L{}
	probes := hv.L{}
	addProbe := func(a addr) {
		for _, d := range []int{-1, 0, 1} {
			p := a.add(d)
			p.v4 = r.Bool()
			probes = append(probes, hv.B(p.bytes()))
		}
	}
	var prev [2]addr
	var pairAddrs [][2]addr
	var singleAddrs []addr
	for k := 0; k < n; k++ {
		b := bases[r.Intn(nb)]
		var s, e addr
		switch {
		case k > 1 && r.Chance(1, 8): // umbrella: small start, reaches over several earlier ranges
			s = b.add(r.Intn(3))
			e = b.add(sp/2 + r.Intn(sp))
		case k > 0 && r.Chance(1, 6): // nested in / adjacent to / same start as the previous one
			switch r.Intn(4) {
			case 0:
				s, e = prev[0], prev[1].add(r.Intn(5))
			case 1:
				s, e = prev[1].add(1), prev[1].add(1+r.Intn(4)) // adjacent, must not be needed for membership
			case 2:
				s, e = prev[1], prev[1].add(r.Intn(4)) // touching at one address
			default:
				s, e = prev[0].add(1), prev[1].add(-1)
			}
		default:
			s = b.add(r.Intn(sp))
			if zero && r.Chance(1, 4) {
				s = bases[0]
			}
			ln := 0
			switch r.Intn(4) {
			case 0:
				ln = 0
			case 1:
				ln = r.Intn(3)
			default:
				ln = r.Intn(sp/2 + 1)
			}
			e = s.add(ln)
		}
		if !zero { // keep the guard class free of the two sentinel shapes
			if s.hi == 0 && s.lo == 0 {
				s = s.add(1)
			}
			if e.hi == 0 && e.lo == z4 {
				s, e = s.add(1), e.add(1)
			}
			if s.hi == 0 && s.lo == 0 {
				s = s.add(1)
			}
		}
		s.v4, e.v4 = r.Bool(), r.Bool()
		if r.Chance(1, 30) { // rejected by checkIPPair: every error branch
			switch r.Intn(5) {
			case 0:
				s, e = e, s // start > end (unless equal)
			case 1:
				pairs = append(pairs, hv.L{hv.B(r.Bytes(badLen(r))), hv.B(e.bytes())})
				continue
			case 2:
				pairs = append(pairs, hv.L{hv.B(s.bytes()), hv.B(r.Bytes(badLen(r)))})
				continue
			case 3: // IPv4 start, non-IPv4 end
				pairs = append(pairs, hv.L{hv.B(addr{0, z4 + uint64(r.Intn(50)), r.Bool()}.bytes()), hv.B(addr{1, uint64(r.Intn(50)), false}.bytes())})
				continue
			default: // non-IPv4 start, IPv4 end
				pairs = append(pairs, hv.L{hv.B(addr{0, uint64(r.Intn(50)), false}.bytes()), hv.B(addr{0, z4 + uint64(r.Intn(50)), r.Bool()}.bytes())})
				continue
			}
		}
		prev = [2]addr{s, e}
		pairAddrs = append(pairAddrs, prev)
		pairs = append(pairs, hv.L{hv.B(s.bytes()), hv.B(e.bytes())})
		if len(probes) < 60 {
			addProbe(s)
			addProbe(e)
		}
	}
	singles := hv.L{}
	nsing := r.Intn(5)
	if r.Chance(1, 10) {
		nsing = r.Range(5, 9)
	}
	var lastSingle addr
	for k := nsing; k > 0; k-- {
		a := bases[r.Intn(nb)].add(r.Intn(sp))
		if k < nsing && r.Chance(1, 4) {
			a = lastSingle // duplicate single (4-/16-byte form may differ)
		}
		a.v4 = r.Bool()
		lastSingle = a
		if r.Chance(1, 20) {
			singles = append(singles, hv.B(r.Bytes(badLen(r))))
			continue
		}
		singleAddrs = append(singleAddrs, a)
		singles = append(singles, hv.B(a.bytes()))
		addProbe(a)
	}
	// NewIPItems(maxSingle, ..): the set takes maxSingle+1 distinct addresses; below that InsertSingle fails
	maxSingle := len(singles)
	if len(singles) > 0 && r.Chance(1, 4) {
		maxSingle = r.Intn(len(singles))
		class += "-full"
	}
	noUpdate := r.Chance(1, 50)
	for k := r.Range(2, 10); k > 0; k-- {
		a := bases[r.Intn(nb)].add(r.Intn(sp*2) - sp/2)
		a.v4 = r.Bool()
		probes = append(probes, hv.B(a.bytes()))
	}
	if r.Chance(1, 10) {
		probes = append(probes, hv.B(r.Bytes(badLen(r))))
	}
	if n == 0 {
		class = "triv-empty"
	} else if n > 12 {
		class += "-pdq"
	}
	if noUpdate {
		return "triv-noupdate", hv.L{pairs, singles, probes, hv.I(maxSingle), hv.I(1)}
	}
	if n > 0 && r.Chance(1, 5) {
		// reload: a second version derived from the first so that many addresses are members of both, but
		// represented differently (range member in one, single address in the other), or of only one
		pairs2, singles2 := hv.L{}, hv.L{}
		rb := func(a addr) hv.Val { a.v4 = r.Bool(); return hv.B(a.bytes()) }
		for _, p := range pairAddrs {
			switch r.Intn(5) {
			case 0: // unchanged
				pairs2 = append(pairs2, hv.L{rb(p[0]), rb(p[1])})
			case 1: // dropped
			case 2: // its bounds become single addresses
				singles2 = append(singles2, rb(p[0]), rb(p[1]))
			case 3: // an inner address becomes a single address, the range is dropped
				singles2 = append(singles2, rb(p[0].add(1)))
			default: // shifted
				pairs2 = append(pairs2, hv.L{rb(p[0].add(1)), rb(p[1].add(2))})
			}
		}
		for _, a := range singleAddrs {
			switch r.Intn(3) {
			case 0:
				singles2 = append(singles2, rb(a))
			case 1: // covered by a range instead
				pairs2 = append(pairs2, hv.L{rb(a.add(-1)), rb(a.add(2))})
			}
		}
		if len(singles2) > maxSingle+1 {
			singles2 = singles2[:maxSingle+1]
		}
		if len(probes) > 40 {
			probes = probes[:40]
		}
		return "reload-" + class, hv.L{pairs, singles, probes, hv.I(maxSingle), hv.I(2), pairs2, singles2}
	}
	return class, hv.L{pairs, singles, probes, hv.I(maxSingle), hv.I(0)}
}

func main() {
	hv.Main(&hv.Spec{Prop: "C19", Gen: gen, Impl: impl, NQuick: 4000, NThorough: 300000})
}
