// C02: hash based selection — bal_slb.BalanceRR.Balance(WrrSticky) on permuted configurations and
// bal_gslb.BalanceGslb.Balance (sub-cluster by hash + sticky backend) built through different histories,
// vs model Sticky.v.  The murmur3 hash of the key is computed here and passed to the model as an input column.
// input : [1 backends hash key perms] | [2 subs hash strategy key nvar]     (see coq/run/RunC02.v)
package main

import (
	"fmt"
	"net"
	"sort"
	"strconv"
	"strings"

	"verif/harness/hv"

	"github.com/bfenetworks/bfe/bfe_balance/bal_gslb"
	"github.com/bfenetworks/bfe/bfe_balance/bal_slb"
	"github.com/bfenetworks/bfe/bfe_basic"
	"github.com/bfenetworks/bfe/bfe_config/bfe_cluster_conf/cluster_conf"
	"github.com/bfenetworks/bfe/bfe_config/bfe_cluster_conf/cluster_table_conf"
	"github.com/bfenetworks/bfe/bfe_config/bfe_cluster_conf/gslb_conf"
	"github.com/bfenetworks/bfe/bfe_http"
	"github.com/spaolacci/murmur3"
)

type bk struct {
	addrinfo string
	w        int
	avail    bool
}

func decBackends(v hv.Val) []bk {
	var out []bk
	for _, e := range hv.AsList(v) {
		p := hv.AsList(e)
		out = append(out, bk{hv.AsStr(p[0]), int(hv.AsInt(p[1])), hv.AsBool(p[2])})
	}
	return out
}

func mkConf(bs []bk) cluster_table_conf.SubClusterBackend {
	conf := cluster_table_conf.SubClusterBackend{}
	for i := range bs {
		b := bs[i]
		k := strings.LastIndexByte(b.addrinfo, ':')
		addr := b.addrinfo[:k]
		port, err := strconv.Atoi(b.addrinfo[k+1:])
		if err != nil {
			panic(err)
		}
		name := "n-" + b.addrinfo
		w := b.w
		conf = append(conf, &cluster_table_conf.BackendConf{Name: &name, Addr: &addr, Port: &port, Weight: &w})
	}
	return conf
}

func implSticky(top hv.L) hv.Val {
	bs := decBackends(top[1])
	key := hv.AsBytes(top[3])
	out := hv.L{}
	for _, pv := range hv.AsList(top[4]) {
		var pb []bk
		for _, iv := range hv.AsList(pv) {
			pb = append(pb, bs[hv.AsInt(iv)])
		}
		brr := bal_slb.NewBalanceRR("sub")
		brr.Init(mkConf(pb))
		for _, b := range bal_slb.VerifC02Backends(brr) {
			for _, x := range pb {
				if x.addrinfo == b.AddrInfo {
					b.SetAvail(x.avail)
				}
			}
		}
		// twice: the second call runs on the already sorted list
		r1, e1 := brr.Balance(bal_slb.WrrSticky, key)
		r2, e2 := brr.Balance(bal_slb.WrrSticky, key)
		switch {
		case e1 != nil && e2 != nil:
			out = append(out, hv.I(-1))
		case e1 != nil || e2 != nil || r1 != r2:
			out = append(out, hv.I(-5))
		default:
			out = append(out, hv.S(r1.AddrInfo))
		}
	}
	return out
}

func kconf(v hv.Val) cluster_table_conf.SubClusterBackend {
	var bs []bk
	for _, e := range hv.AsList(v) {
		p := hv.AsList(e)
		bs = append(bs, bk{hv.AsStr(p[0]), int(hv.AsInt(p[1])), true})
	}
	return mkConf(bs)
}

// reload history on one BalanceRR
func implHist(top hv.L) hv.Val {
	brr := bal_slb.NewBalanceRR("sub")
	brr.Init(kconf(top[1]))
	// slow start is enabled, but sticky selection must not run checkSlowStart ("slow start is not supported when
	// session sticky is enabled"): backends added by Update keep their configured weight
	brr.SetSlowStart(3600)
	out := hv.L{}
	for _, ov := range hv.AsList(top[2]) {
		op := hv.AsList(ov)
		switch hv.AsInt(op[0]) {
		case 0:
			key := hv.AsBytes(op[2])
			if hv.String(op[1]) != hv.String(hv.U(murmur3.Sum64(key))) {
				return hv.Err(7)
			}
			b, err := brr.Balance(bal_slb.WrrSticky, key)
			if err != nil || b == nil {
				out = append(out, hv.I(-1))
			} else {
				out = append(out, hv.S(b.AddrInfo))
			}
		case 1:
			brr.Update(kconf(op[1]))
			out = append(out, hv.I(0))
		case 2:
			for _, b := range bal_slb.VerifC02Backends(brr) {
				if b.AddrInfo == hv.AsStr(op[1]) {
					b.SetAvail(hv.AsBool(op[2]))
				}
			}
			out = append(out, hv.I(0))
		default:
			panic("bad op")
		}
	}
	return out
}

type sub struct {
	name string
	w    int
	bs   []bk
}

func decSubs(v hv.Val) []sub {
	var out []sub
	for _, e := range hv.AsList(v) {
		p := hv.AsList(e)
		out = append(out, sub{hv.AsStr(p[0]), int(hv.AsInt(p[1])), decBackends(p[2])})
	}
	return out
}

func reorder(bs []bk, variant int) []bk {
	n := len(bs)
	out := make([]bk, n)
	for i := range bs {
		switch variant % 3 {
		case 0:
			out[i] = bs[i]
		case 1:
			out[i] = bs[n-1-i]
		default:
			out[i] = bs[(i+1)%n]
		}
	}
	return out
}

func buildGslb(subs []sub, variant int, warm func(*bal_gslb.BalanceGslb)) *bal_gslb.BalanceGslb {
	full := gslb_conf.GslbClusterConf{}
	backs := cluster_table_conf.ClusterBackend{}
	for _, s := range subs {
		full[s.name] = s.w
		backs[s.name] = mkConf(reorder(s.bs, variant))
	}
	bal := bal_gslb.NewBalanceGslb("cluster")
	firstPos := -1
	for i, s := range subs {
		if s.w > 0 {
			firstPos = i
			break
		}
	}
	switch {
	case variant == 0 || firstPos < 0:
		bal.Init(full)
		bal.BackendInit(backs)
	case variant == 1: // start from a sub-set, then Reload to the full conf
		part := gslb_conf.GslbClusterConf{}
		pb := cluster_table_conf.ClusterBackend{}
		for i, s := range subs {
			if i == firstPos || i%2 == 1 {
				part[s.name] = s.w + 3
				// only every second backend at first: BackendReload (BalanceRR.Update) adds the others,
				// some of which sort before the ones already there
				var half []bk
				for j, b := range s.bs {
					if j%2 == 1 {
						half = append(half, b)
					}
				}
				pb[s.name] = mkConf(half)
			}
		}
		bal.Init(part)
		bal.BackendInit(pb)
		warm(bal) // sticky picks sort the backend lists before the reload
		bal.Reload(full)
		bal.BackendReload(backs)
	case variant == 2: // other weights first
		other := gslb_conf.GslbClusterConf{}
		for i, s := range subs {
			other[s.name] = (i*7)%5 + 1
		}
		bal.Init(other)
		bal.Reload(full)
		bal.BackendInit(backs)
	default: // a super-set first: one sub-cluster is removed by Reload
		sup := gslb_conf.GslbClusterConf{}
		for _, s := range subs {
			sup[s.name] = s.w
		}
		sup["0-extra"] = 5
		sup["zz-extra"] = 5
		bal.Init(sup)
		bal.BackendInit(backs)
		warm(bal)
		bal.Reload(full)
		bal.BackendReload(backs)
	}
	// availability
	for name, bl := range bal_gslb.VerifC02Backends(bal) {
		for _, s := range subs {
			if s.name != name {
				continue
			}
			for _, b := range bl {
				for _, x := range s.bs {
					if x.addrinfo == b.AddrInfo {
						b.SetAvail(x.avail)
					}
				}
			}
		}
	}
	return bal
}

var decoyIP = net.IP{203, 0, 113, 77}

func mkReq(strategy int, key []byte) (*bfe_basic.Request, cluster_conf.HashConf) {
	hr := &bfe_http.Request{Header: make(bfe_http.Header), RequestURI: "/decoy/uri?x=1"}
	req := &bfe_basic.Request{HttpRequest: hr, Stat: &bfe_basic.RequestStat{}}
	req.ClientAddr = &net.TCPAddr{IP: decoyIP, Port: 4711}
	hr.Header.Set("X-Other", "decoy-header")
	st := cluster_conf.ClientIpOnly
	header := "X-Hash-Id"
	sticky := true
	switch strategy {
	case 0:
		st = cluster_conf.ClientIpOnly
		req.ClientAddr = &net.TCPAddr{IP: net.IP(key), Port: 1}
		hr.Header.Set(header, "decoy-id")
	case 1:
		st = cluster_conf.ClientIdOnly
		hr.Header.Set(header, string(key))
	case 2:
		st = cluster_conf.ClientIdOnly
		header = "Cookie:SID"
		hr.Header.Set("Cookie", "a=decoy1; SID="+string(key)+"; b=decoy2")
	case 3:
		st = cluster_conf.ClientIdPreferred
		hr.Header.Set(header, string(key))
	case 4:
		st = cluster_conf.ClientIdPreferred
		req.ClientAddr = &net.TCPAddr{IP: net.IP(key), Port: 1}
	default:
		st = cluster_conf.RequestURI
		hr.RequestURI = string(key)
		hr.Header.Set(header, "decoy-id")
	}
	return req, cluster_conf.HashConf{HashStrategy: &st, HashHeader: &header, SessionSticky: &sticky}
}

func implGslb(top hv.L) hv.Val {
	subs := decSubs(top[1])
	strategy := int(hv.AsInt(top[3]))
	key := hv.AsBytes(top[4])
	nvar := int(hv.AsInt(top[5]))
	out := hv.L{}
	for v := 0; v < nvar; v++ {
		cross, retry, mode := 0, 2, cluster_conf.BalanceModeWrr
		warm := func(bal *bal_gslb.BalanceGslb) {
			// a few sticky selections with other keys before the configuration is reloaded
			for _, k := range []string{"warm-1", "warm-22", "warm-333", "w4", "w55"} {
				wreq, whc := mkReq(5, []byte("/"+k))
				bal.SetGslbBasic(cluster_conf.GslbBasicConf{CrossRetry: &cross, RetryMax: &retry, HashConf: &whc, BalanceMode: &mode})
				bal.Balance(wreq)
			}
		}
		bal := buildGslb(subs, v, warm)
		req, hc := mkReq(strategy, key)
		bal.SetGslbBasic(cluster_conf.GslbBasicConf{CrossRetry: &cross, RetryMax: &retry, HashConf: &hc, BalanceMode: &mode})
		b, err := bal.Balance(req)
		name := req.Backend.SubclusterName
		switch {
		case err == nil && b != nil:
			out = append(out, hv.L{hv.S(name), hv.S(b.AddrInfo)})
		case err == bfe_basic.ErrBkNoBackend:
			out = append(out, hv.L{hv.S(name), hv.I(-1)})
		case err == bfe_basic.ErrGslbBlackhole:
			out = append(out, hv.L{hv.S(name), hv.I(-2)})
		case err == bfe_basic.ErrBkNoSubCluster:
			out = append(out, hv.L{hv.S(name), hv.I(-3)})
		default:
			out = append(out, hv.L{hv.S(name), hv.I(-9)})
		}
	}
	return out
}

func impl(in hv.Val) hv.Val {
	top := hv.AsList(in)
	if hv.AsInt(top[0]) == 3 {
		return implHist(top)
	}
	// the hash column must be murmur3 of the key (a replayed / shrunk input with another value is rejected)
	key := hv.AsBytes(top[len(top)-2])
	if hv.AsInt(top[0]) == 1 {
		key = hv.AsBytes(top[3])
	}
	if hv.String(top[2]) != hv.String(hv.U(murmur3.Sum64(key))) {
		return hv.Err(7)
	}
	if hv.AsInt(top[0]) == 1 {
		return implSticky(top)
	}
	return implGslb(top)
}

// ---------------------------------------------------------------- generators
var hosts = []string{"10.0.0.1", "10.0.0.10", "10.0.0.2", "10.0.0.100", "10.0.1.1", "a", "ab", "a.b", "b", "B", "host-1", "host-10", "host-2", "192.168.1.1", "9.9.9.9", "::1", "fd00::2", "fd00::10"}

func genBackends(r *hv.Rng, n int) []bk {
	seen := map[string]bool{}
	var out []bk
	for len(out) < n {
		h := hosts[r.Intn(len(hosts))]
		port := []int{80, 8080, 8, 81, 800, 9}[r.Intn(6)]
		ai := fmt.Sprintf("%s:%d", h, port)
		if seen[ai] {
			continue
		}
		seen[ai] = true
		w := r.Range(1, 5)
		if r.Chance(1, 8) {
			w = -r.Intn(2)
		}
		out = append(out, bk{ai, w, !r.Chance(1, 6)})
	}
	return out
}

func bkVal(bs []bk) hv.Val {
	l := hv.L{}
	for _, b := range bs {
		l = append(l, hv.L{hv.S(b.addrinfo), hv.I(b.w), hv.Bool(b.avail)})
	}
	return l
}

func perm(r *hv.Rng, n int) hv.Val {
	p := make([]int, n)
	for i := range p {
		p[i] = i
	}
	for i := n - 1; i > 0; i-- {
		j := r.Intn(i + 1)
		p[i], p[j] = p[j], p[i]
	}
	return hv.LI(p)
}

func genKey(r *hv.Rng, strategy int) []byte {
	const alnum = "abcdefghijklmnopqrstuvwxyzABCDEFGHIJKLMNOPQRSTUVWXYZ0123456789"
	switch strategy {
	case 0, 4:
		if r.Bool() {
			return r.Bytes(4)
		}
		return r.Bytes(16)
	case -1:
		return r.Bytes(r.Range(1, 12))
	case 5:
		n := r.Range(1, 14)
		b := []byte("/")
		for i := 0; i < n; i++ {
			b = append(b, alnum[r.Intn(len(alnum))])
		}
		return b
	default:
		n := r.Range(1, 14)
		b := make([]byte, n)
		for i := range b {
			b[i] = alnum[r.Intn(len(alnum))]
		}
		return b
	}
}

// boundaries of the residue partition of the eligible backends sorted by addrinfo (for key search only)
func boundaries(bs []bk) (map[uint64]bool, uint64) {
	el := []bk{}
	for _, b := range bs {
		if b.avail && b.w > 0 {
			el = append(el, b)
		}
	}
	sort.Slice(el, func(i, j int) bool { return el[i].addrinfo < el[j].addrinfo })
	set := map[uint64]bool{}
	var tot uint64
	for _, b := range el {
		set[tot] = true
		tot += uint64(b.w * 100)
		set[tot-1] = true
	}
	return set, tot
}

func kwVal(bs []bk) hv.Val {
	l := hv.L{}
	for _, b := range bs {
		l = append(l, hv.L{hv.S(b.addrinfo), hv.I(b.w)})
	}
	return l
}

// a random sub-list of the pool in random order with fresh weights
func subConf(r *hv.Rng, pool []bk, atLeast int) []bk {
	var out []bk
	for _, b := range pool {
		if r.Chance(2, 3) {
			w := r.Range(1, 5)
			if r.Chance(1, 10) {
				w = -r.Intn(2)
			}
			out = append(out, bk{b.addrinfo, w, true})
		}
	}
	for len(out) < atLeast {
		b := pool[r.Intn(len(pool))]
		dup := false
		for _, x := range out {
			if x.addrinfo == b.addrinfo {
				dup = true
			}
		}
		if !dup {
			out = append(out, bk{b.addrinfo, r.Range(1, 5), true})
		}
	}
	for a := len(out) - 1; a > 0; a-- {
		b := r.Intn(a + 1)
		out[a], out[b] = out[b], out[a]
	}
	return out
}

func genHist(r *hv.Rng) (string, hv.Val) {
	pool := genBackends(r, r.Range(2, 8))
	conf0 := subConf(r, pool, 1)
	ops := hv.L{}
	pick := func() {
		key := genKey(r, -1)
		ops = append(ops, hv.L{hv.I(0), hv.U(murmur3.Sum64(key)), hv.B(key)})
	}
	pick() // the first sticky call sorts the list and sets the `sorted` flag
	steps := r.Range(2, 8)
	for s := 0; s < steps; s++ {
		switch r.Intn(5) {
		case 0, 1, 2:
			ops = append(ops, hv.L{hv.I(1), kwVal(subConf(r, pool, 0))})
		case 3:
			ops = append(ops, hv.L{hv.I(2), hv.S(pool[r.Intn(len(pool))].addrinfo), hv.Bool(r.Chance(1, 3))})
		}
		n := r.Range(1, 3)
		for j := 0; j < n; j++ {
			pick()
		}
	}
	return "history", hv.L{hv.I(3), kwVal(conf0), ops}
}

func gen(r *hv.Rng, i int, tier string) (string, hv.Val) {
	if r.Chance(1, 3) {
		return genHist(r)
	}
	if r.Chance(1, 2) {
		// direct sticky on permutations
		n := r.Range(1, 6)
		if r.Chance(1, 10) {
			n = r.Range(7, 10)
		}
		bs := genBackends(r, n)
		key := genKey(r, -1)
		class := "sticky"
		set, tot := boundaries(bs)
		if tot == 0 {
			class = "triv-sticky-none"
		} else if r.Chance(1, 2) {
			// search a key whose hash lands on a boundary residue of the partition
			for t := 0; t < 4000; t++ {
				k := r.Bytes(8)
				if set[murmur3.Sum64(k)%tot] {
					key = k
					class = "sticky-boundary"
					break
				}
			}
		}
		perms := hv.L{}
		id := make([]int, n)
		rev := make([]int, n)
		for j := range id {
			id[j] = j
			rev[j] = n - 1 - j
		}
		perms = append(perms, hv.LI(id), hv.LI(rev))
		for j := 0; j < 3; j++ {
			perms = append(perms, perm(r, n))
		}
		return class, hv.L{hv.I(1), bkVal(bs), hv.U(murmur3.Sum64(key)), hv.B(key), perms}
	}
	// through BalanceGslb
	ns := r.Range(1, 5)
	names := []string{"bj", "gz", "sh", "nj", "hz", "a", "ab", "GSLB_BLACKHOLE", "Z", "b.c", "sub-1", "sub-10", "sub-2"}
	seen := map[string]bool{}
	subs := hv.L{}
	pos := 0
	class := "gslb"
	for len(subs) < ns {
		nm := names[r.Intn(len(names))]
		if seen[nm] {
			continue
		}
		seen[nm] = true
		w := r.Range(1, 6)
		if r.Chance(1, 5) {
			w = -r.Intn(2)
		}
		if w > 0 {
			pos++
		}
		bs := genBackends(r, r.Range(0, 4))
		subs = append(subs, hv.L{hv.S(nm), hv.I(w), bkVal(bs)})
	}
	switch {
	case pos == 0:
		class = "triv-gslb-nosub"
	case pos == 1:
		class = "gslb-single"
	}
	if seen["GSLB_BLACKHOLE"] {
		class += "-bh"
	}
	strategy := r.Intn(6)
	key := genKey(r, strategy)
	return fmt.Sprintf("%s-s%d", class, strategy), hv.L{hv.I(2), subs, hv.U(murmur3.Sum64(key)), hv.I(strategy), hv.B(key), hv.I(4)}
}

func main() {
	hv.Main(&hv.Spec{Prop: "C02", Gen: gen, Impl: impl, NQuick: 4500, NThorough: 250000})
}
