// C55: bfe_fcgi.FCGIClient.Do (request encoding) and the response stream reader vs model Fcgi.v.
// input : [[ [k v] ... ] body bodychunk resp]
//   pairs      parameter map (distinct names)
//   body       request body, handed to Do as an io.Reader that returns at most bodychunk bytes per Read
//   resp       the bytes the responder sends back (a sequence of FastCGI records, possibly malformed)
// output: [written stream err]
//   written    every byte the client wrote to the connection
//   stream     every byte delivered by the reader returned from Do, read until an error
//   err        0 = io.EOF (end of request), 1 = other error
// A panic inside the client is reported by the framework as [-2].
//
// op 2 (input starts with the tag 2): Transport.RoundTrip end to end over a loopback TCP connection:
// input : [2 method scheme host remote path query proto clen [[hname [hval ...]] ...] root [[ename eval] ...] body resp]
// output: [written rterr status body bodyerr statustext]
//   written  every byte the fake responder received (complete request), rterr 0 = RoundTrip ok, 1 connect, 2 write,
//   3 read-response-header error; status/body of the *bfe_http.Response; bodyerr 0 = EOF, 1 = other
package main

import (
	"fmt"
	"io"
	"os"
	"io/ioutil"
	"net"
	"net/url"
	"strings"
	"time"

	"verif/harness/hv"

	"github.com/bfenetworks/bfe/bfe_fcgi"
	"github.com/bfenetworks/bfe/bfe_http"
)

type mconn struct {
	written []byte
	resp    []byte
	rchunk  int
}

func (c *mconn) Write(p []byte) (int, error) { c.written = append(c.written, p...); return len(p), nil }
func (c *mconn) Read(p []byte) (int, error) {
	if len(c.resp) == 0 {
		return 0, io.EOF
	}
	n := len(p)
	if n > c.rchunk {
		n = c.rchunk
	}
	n = copy(p[:n], c.resp)
	c.resp = c.resp[n:]
	return n, nil
}
func (c *mconn) Close() error { return nil }

type chunkReader struct {
	b []byte
	k int
}

func (r *chunkReader) Read(p []byte) (int, error) {
	if len(r.b) == 0 {
		return 0, io.EOF
	}
	n := len(p)
	if n > r.k {
		n = r.k
	}
	n = copy(p[:n], r.b)
	r.b = r.b[n:]
	return n, nil
}

var ln net.Listener

func setup(tier string) {
	var err error
	ln, err = net.Listen("tcp", "127.0.0.1:0")
	if err != nil {
		panic(err)
	}
}

// complete reports whether b holds a whole request: records up to and including the empty STDIN record
func complete(b []byte) bool {
	for len(b) >= 8 {
		n := 8 + int(b[4])<<8 + int(b[5]) + int(b[6])
		if len(b) < n {
			return false
		}
		if b[1] == 5 && b[4] == 0 && b[5] == 0 {
			return true
		}
		b = b[n:]
	}
	return false
}

func isToken(s string) bool {
	if s == "" {
		return false
	}
	for i := 0; i < len(s); i++ {
		c := s[i]
		ok := c >= '0' && c <= '9' || c >= 'a' && c <= 'z' || c >= 'A' && c <= 'Z' || strings.IndexByte("!#$%&'*+-.^_`|~", c) >= 0
		if !ok {
			return false
		}
	}
	return true
}

func implRT(l hv.L) hv.Val {
	req := new(bfe_http.Request)
	req.Method = hv.AsStr(l[1])
	req.URL = &url.URL{Scheme: hv.AsStr(l[2]), Host: ln.Addr().String(), Path: hv.AsStr(l[5]), RawQuery: hv.AsStr(l[6])}
	req.Host = hv.AsStr(l[3])
	req.RemoteAddr = hv.AsStr(l[4])
	req.Proto = hv.AsStr(l[7])
	req.ContentLength = hv.AsInt(l[8])
	req.Header = bfe_http.Header{}
	seen := map[string]bool{}
	for _, h := range hv.AsList(l[9]) {
		hl := hv.AsList(h)
		k := hv.AsStr(hl[0])
		m := strings.Replace(strings.ToUpper(k), "-", "_", -1)
		if !isToken(k) || seen[m] {
			return hv.Err(8)
		}
		seen[m] = true
		for _, v := range hv.AsList(hl[1]) {
			req.Header.Add(k, hv.AsStr(v))
		}
		if len(hv.AsList(hl[1])) == 0 {
			return hv.Err(8)
		}
	}
	env := map[string]string{}
	seenE := map[string]bool{}
	for _, e := range hv.AsList(l[11]) {
		el := hv.AsList(e)
		k := hv.AsStr(el[0])
		if !isToken(k) || seenE[strings.ToUpper(k)] {
			return hv.Err(8)
		}
		seenE[strings.ToUpper(k)] = true
		env[k] = hv.AsStr(el[1])
	}
	for _, c := range req.URL.Path + req.URL.RawQuery { // only characters EscapedPath leaves alone
		if !(c >= '0' && c <= '9' || c >= 'a' && c <= 'z' || c >= 'A' && c <= 'Z' || strings.ContainsRune("/-._~=&", c)) {
			return hv.Err(8)
		}
	}
	body := append([]byte(nil), hv.AsBytes(l[12])...)
	req.Body = ioutil.NopCloser(&chunkReader{b: body, k: 4096})
	resp := append([]byte(nil), hv.AsBytes(l[13])...)

	got := make(chan []byte, 1)
	go func() {
		c, err := ln.Accept()
		if err != nil {
			got <- nil
			return
		}
		defer c.Close()
		c.SetDeadline(time.Now().Add(5 * time.Second))
		var rb []byte
		buf := make([]byte, 65536)
		for !complete(rb) {
			n, err := c.Read(buf)
			rb = append(rb, buf[:n]...)
			if err != nil {
				break
			}
		}
		c.Write(resp)
		got <- rb
	}()
	tr := &bfe_fcgi.Transport{Root: hv.AsStr(l[10]), EnvVars: env}
	rsp, err := tr.RoundTrip(req)
	rterr, status, bodyerr := 0, 0, 0
	stext := ""
	var rbody []byte
	if err != nil {
		if os.Getenv("VERIF_DEBUG") != "" {
			fmt.Fprintln(os.Stderr, "roundtrip error:", err)
		}
		switch err.(type) {
		case bfe_fcgi.ConnectError:
			rterr = 1
		case bfe_fcgi.WriteRequestError:
			rterr = 2
		default:
			rterr = 3
		}
	} else {
		status = rsp.StatusCode
		stext = rsp.Status
		b, e := ioutil.ReadAll(rsp.Body)
		rbody = b
		if e != nil {
			bodyerr = 1
		}
	}
	written := <-got
	return hv.L{hv.B(written), hv.I(rterr), hv.I(status), hv.B(rbody), hv.I(bodyerr), hv.S(stext)}
}

// wtReader hands the body over like bytes.Reader / bytes.Buffer do: through io.WriterTo, k bytes per Write
// (k <= 0: everything in one Write)
type wtReader struct {
	b []byte
	k int
}

func (r *wtReader) Read(p []byte) (int, error) { panic("wtReader: Read must not be used, WriteTo is") }
func (r *wtReader) WriteTo(w io.Writer) (int64, error) {
	var nn int64
	for len(r.b) > 0 {
		n := len(r.b)
		if r.k > 0 && n > r.k {
			n = r.k
		}
		m, err := w.Write(r.b[:n])
		nn += int64(m)
		r.b = r.b[m:]
		if err != nil {
			return nn, err
		}
	}
	return nn, nil
}

func impl(in hv.Val) hv.Val {
	l := hv.AsList(in)
	if _, isList := l[0].(hv.L); !isList {
		if hv.AsInt(l[0]) == 2 {
			return implRT(l)
		}
		return hv.Err(8)
	}
	pairs := map[string]string{}
	for _, kv := range hv.AsList(l[0]) {
		p := hv.AsList(kv)
		if _, dup := pairs[hv.AsStr(p[0])]; dup {
			return hv.Err(8) // not a map
		}
		pairs[hv.AsStr(p[0])] = hv.AsStr(p[1])
	}
	body := append([]byte(nil), hv.AsBytes(l[1])...)
	bc := int(hv.AsInt(l[2]))
	var bodyReader io.Reader = &chunkReader{b: body, k: bc}
	if bc <= 0 {
		bodyReader = &wtReader{b: body, k: -bc}
	}
	resp := append([]byte(nil), hv.AsBytes(l[3])...)
	mc := &mconn{resp: resp, rchunk: 1 + len(resp)/3}
	cl := bfe_fcgi.VerifNewClient(mc)
	r, err := cl.Do(pairs, bodyReader)
	if err != nil {
		return hv.Err(1)
	}
	var stream []byte
	buf := make([]byte, 61)
	code := 2
	for it := 0; it < 1000000; it++ {
		n, e := r.Read(buf)
		stream = append(stream, buf[:n]...)
		if e != nil {
			if e == io.EOF {
				code = 0
			} else {
				code = 1
			}
			break
		}
	}
	return hv.L{hv.B(mc.written), hv.B(stream), hv.I(code)}
}

// ---------------- generators ----------------

func rec(typ byte, id int, content []byte, pad int) []byte {
	b := []byte{1, typ, byte(id >> 8), byte(id), byte(len(content) >> 8), byte(len(content)), byte(pad), 0}
	b = append(b, content...)
	return append(b, make([]byte, pad)...)
}

func sizeNear(r *hv.Rng) int {
	switch r.Intn(8) {
	case 0:
		return 0
	case 1:
		return 127
	case 2:
		return 128
	case 3:
		return r.Range(120, 135)
	case 4:
		return r.Range(250, 260)
	}
	return r.Intn(40)
}

func genResp(r *hv.Rng) (string, []byte) {
	class := "resp"
	var out []byte
	n := r.Intn(6)
	hasErr := false
	if r.Chance(1, 120) { // content + padding beyond 65535 (16-bit sum would wrap)
		c := r.Bytes(65535 - r.Intn(300))
		out = append(out, rec(6, 1, c, []int{255, 254, 1, 0, 200}[r.Intn(5)])...)
		class += "-hugerec"
	}
	for i := 0; i < n; i++ {
		typ := byte(6)
		switch r.Intn(12) {
		case 0:
			typ = 7
			hasErr = true
		case 1:
			if r.Chance(1, 3) {
				typ = byte(r.Intn(12))
			}
		}
		c := r.Bytes(sizeNear(r))
		if r.Chance(1, 3) {
			c = []byte("Status: 200 OK\r\nContent-Type: text/plain\r\n\r\nhello")
		}
		pad := 0
		if r.Bool() {
			pad = (8 - len(c)%8) % 8
		} else if r.Chance(1, 4) {
			pad = r.Intn(256)
		}
		id := 1
		if r.Chance(1, 10) {
			id = r.Intn(3)
		}
		out = append(out, rec(typ, id, c, pad)...)
	}
	if hasErr {
		class += "-stderr"
	}
	switch r.Intn(8) {
	case 0: // no END_REQUEST: connection ends
		class += "-noend"
	case 1: // truncated
		if len(out) > 0 {
			out = out[:r.Intn(len(out))]
		}
		class += "-trunc"
	case 2: // bad version
		out = append(out, 2, 6, 0, 1, 0, 0, 0, 0)
		class += "-badver"
	default:
		out = append(out, rec(6, 1, nil, 0)...)
		out = append(out, rec(3, 1, []byte{0, 0, 0, 0, 0, 0, 0, 0}, 0)...)
		if r.Chance(1, 4) {
			out = append(out, rec(6, 1, []byte("after end"), 0)...)
		}
	}
	return class, out
}

func pick(r *hv.Rng, xs ...string) string { return xs[r.Intn(len(xs))] }

func tokenName(r *hv.Rng) string {
	n := 1 + r.Intn(8)
	b := make([]byte, n)
	for i := range b {
		b[i] = "abcxyzABCXYZ019-_.!~"[r.Intn(20)]
	}
	return string(b)
}

func textVal(r *hv.Rng) string {
	n := r.Intn(12)
	b := make([]byte, n)
	for i := range b {
		b[i] = "abcdefXYZ 0123,;=/:.-_"[r.Intn(22)]
	}
	return string(b)
}

// a reply of the modelled sub-language: header block on STDOUT, then body; STDERR only after the header block
func genReply(r *hv.Rng) (string, []byte) {
	class := "reply"
	hdr := ""
	switch r.Intn(8) {
	case 0:
	case 1:
		hdr += "Status: 404 Not Found\r\n"
	case 2:
		hdr += "status: " + pick(r, "200", "302 Found", "500", "99", "1000", "007 x") + "\r\n"
	case 3:
		hdr += "Status: " + pick(r, "abc", "2x0 OK", "OK 200") + "\r\n"
		class += "-badstatus"
	case 4:
		hdr += "X-Pre: 1\r\nStatus:" + pick(r, "201 Created", "  204  ", "") + "\r\n"
	default:
		hdr += "Status: " + itoa(r.Range(100, 599)) + " " + textVal(r) + "\r\n"
	}
	for k := r.Intn(3); k > 0; k-- {
		hdr += pick(r, "Content-Type", "X-Powered-By", "Set-Cookie", "Content-Length", tokenName(r)+"h") + ": " + strings.TrimSpace(textVal(r)) + "\r\n"
	}
	body := r.Bytes(r.Intn(40))
	if r.Chance(1, 3) {
		body = []byte("hello\r\n\r\nworld")
	}
	var out []byte
	emit := func(typ byte, c []byte) {
		pad := 0
		if r.Bool() {
			pad = (8 - len(c)%8) % 8
		} else if r.Chance(1, 6) {
			pad = r.Intn(256)
		}
		out = append(out, rec(typ, 1, c, pad)...)
	}
	pieces := func(b []byte) [][]byte {
		var ps [][]byte
		for len(b) > 0 {
			n := 1 + r.Intn(len(b))
			ps = append(ps, b[:n])
			b = b[n:]
		}
		return ps
	}
	empty := false
	if r.Chance(1, 12) { // nothing at all on STDOUT
		class += "-empty"
		hdr, body = "", nil
		empty = true
	} else {
		hdr += "\r\n"
	}
	for _, p := range pieces([]byte(hdr)) {
		emit(6, p)
	}
	for _, p := range pieces(body) {
		if r.Chance(1, 8) {
			emit(7, []byte("PHP Warning: x"))
			class += "-stderr"
		}
		emit(6, p)
	}
	e := r.Intn(8)
	if empty && (e == 1 || e == 2) {
		e = 0
	}
	switch e {
	case 0:
		class += "-noend"
	case 1:
		out = append(out, 2, 6, 0, 1, 0, 0, 0, 0)
		class += "-badver"
	case 2:
		out = append(out, 1, 6, 0, 1, 0, 9, 0, 0, 'x') // truncated record
		class += "-trunc"
	default:
		emit(6, nil)
		if r.Chance(1, 6) {
			emit(7, nil)
		}
		out = append(out, rec(3, 1, []byte{0, 0, 0, 0, 0, 0, 0, 0}, 0)...)
	}
	return class, out
}

func itoa(n int) string {
	if n == 0 {
		return "0"
	}
	neg := n < 0
	if neg {
		n = -n
	}
	s := ""
	for n > 0 {
		s = string(rune('0'+n%10)) + s
		n /= 10
	}
	if neg {
		s = "-" + s
	}
	return s
}

func genRT(r *hv.Rng) (string, hv.Val) {
	method := pick(r, "GET", "POST", "HEAD", "PUT", "OPTIONS", "")
	scheme := pick(r, "http", "https", "")
	host := pick(r, "example.org", "example.org:8080", "[::1]:8080", "[2001:db8::1]", "a:b:c", ":80", "host:", "", "10.1.2.3:443", "[::1]x:1", "a]b:1")
	remote := pick(r, "10.0.0.1:5555", "[2001:db8::2]:443", "192.168.1.9:1", "nohostport", "[::1]:80", "1.2.3.4:", ":9", "[a]:b]:7")
	path := pick(r, "/", "/index.php", "/a/b.php", "/a/../b.php", "/a//b/./c.php", "", "/x/", "/../../etc/passwd", "/a/b/../../..", "/./.")
	query := pick(r, "", "a=1&b=2", "x=1", "q")
	proto := pick(r, "HTTP/1.1", "HTTP/1.0", "HTTP/2.0", "")
	root := pick(r, "/var/www", "/var/www/", "", "www/../htdocs", "/", "../up", ".", "a/./b//")
	body := r.Bytes(r.Intn(50))
	clen := len(body)
	switch r.Intn(6) {
	case 0:
		clen = -1
	case 1:
		clen = 0
	case 2:
		clen = r.Intn(100000)
	}
	seen := map[string]bool{}
	var hs hv.L
	nh := r.Intn(5)
	for j := 0; j < nh; j++ {
		k := pick(r, "User-Agent", "Accept", "X-Forwarded-For", "Content-Type", "Content-Length", "Cookie", "x-lower", "X_Under", "Host", "X-A", tokenName(r), tokenName(r))
		m := strings.Replace(strings.ToUpper(k), "-", "_", -1)
		if seen[m] {
			continue
		}
		seen[m] = true
		var vs hv.L
		for c := 1 + r.Intn(3); c > 0; c-- {
			vs = append(vs, hv.S(textVal(r)))
			if r.Chance(2, 3) {
				break
			}
		}
		hs = append(hs, hv.L{hv.S(k), vs})
	}
	if hs == nil {
		hs = hv.L{}
	}
	seenE := map[string]bool{}
	var es hv.L
	for j := r.Intn(4); j > 0; j-- {
		k := pick(r, "MY_ENV", "Script_Name", "REQUEST_METHOD", "HTTP_X_A", "content_type", "PATH_INFO", "my-var", "HTTP_HOST", tokenName(r))
		if seenE[strings.ToUpper(k)] {
			continue
		}
		seenE[strings.ToUpper(k)] = true
		es = append(es, hv.L{hv.S(k), hv.S(textVal(r))})
	}
	if es == nil {
		es = hv.L{}
	}
	rc, resp := genReply(r)
	return "rt/" + rc, hv.L{hv.I(2), hv.S(method), hv.S(scheme), hv.S(host), hv.S(remote), hv.S(path), hv.S(query), hv.S(proto),
		hv.I(clen), hs, hv.S(root), es, hv.B(body), hv.B(resp)}
}

func gen(r *hv.Rng, i int, tier string) (string, hv.Val) {
	if i%3 == 2 {
		return genRT(r)
	}
	class := "req"
	np := r.Intn(5)
	huge := r.Chance(1, 100)
	var ps hv.L
	seen := map[string]bool{}
	for j := 0; j < np; j++ {
		kl, vl := sizeNear(r), sizeNear(r)
		if kl == 0 && r.Chance(3, 4) {
			kl = 1 + r.Intn(20)
		}
		k := r.Bytes(kl)
		if r.Bool() {
			for x := range k {
				k[x] = "ABCDEFGHIJKLMNOPQRSTUVWXYZ_"[int(k[x])%27]
			}
		}
		if seen[string(k)] {
			continue
		}
		seen[string(k)] = true
		ps = append(ps, hv.L{hv.B(k), hv.B(r.Bytes(vl))})
	}
	if huge {
		class += "-huge"
		switch r.Intn(9) {
		case 4: // one pair whose encoding is exactly maxWrite-1 / maxWrite / maxWrite+1 bytes
			ps = hv.L{hv.L{hv.S("A"), hv.B(r.Bytes(65500 - 6 + r.Range(-1, 1)))}}
		case 5, 6, 7, 8: // two pairs whose encodings sum to maxWrite-1 / maxWrite / maxWrite+1 (flush decision)
			a := r.Range(30000, 33000)
			b := 65500 + []int{0, 0, -1, 1}[r.Intn(4)] - (6 + a) - 6
			ps = hv.L{hv.L{hv.S("A"), hv.B(r.Bytes(a))}, hv.L{hv.S("B"), hv.B(r.Bytes(b))}}
		case 0: // value that does not fit one record
			ps = append(ps, hv.L{hv.S("HTTP_COOKIE"), hv.B(r.Bytes(r.Range(65400, 70500)))})
		case 1: // very long name
			ps = append(ps, hv.L{hv.B(append([]byte("K"), r.Bytes(r.Range(65480, 65540))...)), hv.B(r.Bytes(r.Intn(30)))})
		case 2: // record boundary
			ps = append(ps, hv.L{hv.S("A"), hv.B(r.Bytes(65500 - 8 - 1 + r.Range(-6, 6)))})
		case 3:
			ps = append(ps, hv.L{hv.S("A"), hv.B(r.Bytes(r.Range(32000, 33000)))}, hv.L{hv.S("B"), hv.B(r.Bytes(r.Range(32000, 33500)))})
		}
	}
	if ps == nil {
		ps = hv.L{}
		class += "-nopairs"
	}
	var body []byte
	switch r.Intn(6) {
	case 0:
		body = nil
	case 1:
		if r.Chance(1, 60) {
			body = r.Bytes(65500*r.Range(1, 2) + r.Range(-2, 2))
			class += "-hugebody"
		} else {
			body = r.Bytes(r.Range(250, 300))
		}
	default:
		body = r.Bytes(r.Intn(64))
	}
	bc := []int{1 << 20, 7, 1000, 65500, 4096}[r.Intn(5)]
	if len(body) > 1000 && bc < 1000 {
		bc = 1000
	}
	if r.Chance(1, 3) { // body through io.WriterTo: one Write, or pieces
		bc = -[]int{0, 0, 0, 1, 13, 40000, 65499, 65500, 65501, 65535, 65536, 65537}[r.Intn(12)]
		if len(body) > 2000 && bc > -1000 && bc != 0 {
			bc = -40000
		}
		class += "-wt"
	}
	if r.Chance(1, 60) { // body sizes around every 16-bit / maxWrite constant, single Write or odd pieces
		base := []int{65500, 65535, 65536, 65536, 131000, 131036, 131071, 131072}[r.Intn(8)]
		body = r.Bytes(base + r.Range(-2, 2))
		bc = -[]int{0, 0, 0, 0, 65536, 65535, 65501, 65500, 40000, 70000, 131072}[r.Intn(11)]
		if r.Chance(1, 5) {
			bc = []int{4096, 65500, 65536, 1 << 20}[r.Intn(4)]
		}
		class += "-bodyedge"
	}
	rc, resp := genResp(r)
	return class + "/" + rc, hv.L{ps, hv.B(body), hv.I(bc), hv.B(resp)}
}

func main() {
	hv.Main(&hv.Spec{Prop: "C55", Gen: gen, Impl: impl, Setup: setup, NQuick: 3300, NThorough: 150000})
}
