// C29: the client address cannot be spoofed by untrusted peers.
//
// input : [op table peer hdrs oracle]
//   op     1 = whole server (package e2e, stock modules mod_trust_clientip + mod_header; the raw client binds its source
//              address to peer's ip, which must be in 127.0.0.0/8; the trust table is reloaded through the module's
//              reload handler before the client connects)
//          2 = callback level: mod_trust_clientip and mod_header are initialised into a private BfeCallbacks; the
//              HandleAccept list runs on a session with RemoteAddr = peer, then bfe_server.setClientAddr (hook), then the
//              HandleAfterLocation list, on a request parsed by bfe_http.ReadRequest from the same bytes
//   table  [[beginText endText begin16 end16] ...]   trust table (mod_trust_clientip data file is written from the texts)
//   peer   [ip16 ipText port]                         TCP peer (op 1: port is a placeholder, see below)
//   hdrs   [[name value] ...]                         header lines sent after "Host: example.org"
//   oracle [[text ip16 canonText] ...]                net.ParseIP / IP.String() of the candidate address texts in hdrs
//                                                     (texts not listed do not parse); checked by impl against Go's net
// output: [trusted caddr xff xrip xrport xfport xfhost xbfeip]
//   trusted 0/1  session.TrustSource() ; caddr [] (nil) or [ip16 port] = req.ClientAddr seen by later callbacks
//   xff, xrip, xrport, xfport, xfhost, xbfeip : lists of the values of X-Forwarded-For, X-Real-Ip, X-Real-Port,
//                               X-Forwarded-Port, X-Forwarded-Host, X-Bfe-Ip
//                               received by the backend (op 1) / in the request after the callbacks (op 2)
// op 1: the client's source port is ephemeral; every occurrence of the actual port (ClientAddr.Port, an X-Real-Port value,
// the last element of X-Forwarded-Port) is reported as the placeholder port given in the input.
package main

import (
	"bufio"
	"bytes"
	"encoding/json"
	"fmt"
	"io"
	"io/ioutil"
	"net"
	"net/http"
	"net/url"
	"os"
	"path/filepath"
	"strconv"
	"strings"
	"sync"
	"time"

	"github.com/baidu/go-lib/web-monitor/web_monitor"

	"verif/harness/e2e"
	"verif/harness/hv"

	"github.com/bfenetworks/bfe/bfe_basic"
	"github.com/bfenetworks/bfe/bfe_bufio"
	"github.com/bfenetworks/bfe/bfe_http"
	"github.com/bfenetworks/bfe/bfe_module"
	"github.com/bfenetworks/bfe/bfe_modules/mod_header"
	"github.com/bfenetworks/bfe/bfe_modules/mod_trust_clientip"
	"github.com/bfenetworks/bfe/bfe_server"
)

// ---------------------------------------------------------------------------------------------------------------
// environments

var (
	srv *e2e.Server
	bk  *e2e.Backend

	obsMu      sync.Mutex
	obsTrusted int
	obsAddr    *net.TCPAddr
	obsSeen    bool

	cbs    *bfe_module.BfeCallbacks
	whs    *web_monitor.WebHandlers
	cbRoot string
)

func setupE2E() {
	if srv != nil {
		return
	}
	bk = e2e.NewBackend("bk")
	srv = e2e.Start(e2e.Options{
		Products: []e2e.Product{{Name: "p", Hosts: []string{"example.org"}, Cluster: "c"}},
		Clusters: []e2e.Cluster{{Name: "c", RetryMax: 0,
			SubClusters: []e2e.SubCluster{{Name: "s1", Weight: 100, Backends: []*e2e.Backend{bk}}}}},
		Handlers: 1,
		Modules:  []string{"mod_trust_clientip", "mod_header"},
	})
	srv.Mod.OnCall = func(c e2e.Call, req *bfe_basic.Request) {
		if c.Point != bfe_module.HandleAfterLocation || c.Idx != 0 || req == nil {
			return
		}
		obsMu.Lock()
		defer obsMu.Unlock()
		obsSeen = true
		obsTrusted = 0
		if req.Session.TrustSource() {
			obsTrusted = 1
		}
		obsAddr = nil
		if req.ClientAddr != nil {
			a := *req.ClientAddr
			a.IP = append(net.IP(nil), a.IP...)
			obsAddr = &a
		}
	}
}

func setupCB() {
	if cbs != nil {
		return
	}
	setupE2E() // log.Init
	cbRoot = filepath.Join(os.TempDir(), fmt.Sprintf("w-x1-c29-%d", os.Getpid()))
	os.RemoveAll(cbRoot)
	for _, d := range []string{"mod_trust_clientip", "mod_header"} {
		must(os.MkdirAll(filepath.Join(cbRoot, d), 0755))
	}
	must(ioutil.WriteFile(filepath.Join(cbRoot, "mod_trust_clientip", "mod_trust_clientip.conf"),
		[]byte("[basic]\nDataPath = mod_trust_clientip/trust_client_ip.data\n"), 0644))
	must(ioutil.WriteFile(filepath.Join(cbRoot, "mod_trust_clientip", "trust_client_ip.data"),
		[]byte(`{"Version": "0", "Config": {}}`), 0644))
	must(ioutil.WriteFile(filepath.Join(cbRoot, "mod_header", "mod_header.conf"),
		[]byte("[basic]\nDataPath = mod_header/header_rule.data\n"), 0644))
	must(ioutil.WriteFile(filepath.Join(cbRoot, "mod_header", "header_rule.data"),
		[]byte(`{"Version": "0", "Config": {}}`), 0644))
	cbs = bfe_module.NewBfeCallbacks()
	whs = web_monitor.NewWebHandlers()
	must(mod_trust_clientip.NewModuleTrustClientIP().Init(cbs, whs, cbRoot))
	must(mod_header.NewModuleHeader().Init(cbs, whs, cbRoot))
}

func must(err error) {
	if err != nil {
		panic(err)
	}
}

type rng struct{ b, e string }

func reload(w *web_monitor.WebHandlers, dir string, table []rng) error {
	type scope struct{ Begin, End string }
	sc, sc2 := []scope{}, []scope{} // two trust sources, ranges dealt alternately
	for i, r := range table {
		if i%2 == 0 {
			sc = append(sc, scope{r.b, r.e})
		} else {
			sc2 = append(sc2, scope{r.b, r.e})
		}
	}
	b, _ := json.Marshal(map[string]interface{}{"Version": "v", "Config": map[string]interface{}{"src": sc, "src2": sc2}})
	p := filepath.Join(dir, "mod_trust_clientip", "verif_table.data")
	if err := ioutil.WriteFile(p, b, 0644); err != nil {
		return err
	}
	h, err := w.GetHandler(web_monitor.WebHandleReload, "mod_trust_clientip")
	if err != nil {
		return err
	}
	switch f := h.(type) {
	case func(url.Values) error:
		return f(url.Values{"path": {p}})
	case func(map[string][]string) error:
		return f(map[string][]string{"path": {p}})
	}
	return fmt.Errorf("unexpected reload handler type %T", h)
}

// ---------------------------------------------------------------------------------------------------------------
// input decoding and validation

type input struct {
	op     int
	table  []rng
	ip     net.IP
	ipText string
	port   int
	hdrs   [][2]string
}

func ip16(v hv.Val) net.IP {
	b := hv.AsBytes(v)
	if len(b) != 16 {
		return nil
	}
	return net.IP(b)
}

// candidates: the texts setClientAddr may hand to net.ParseIP
func candidates(hdrs [][2]string) []string {
	var out []string
	for _, h := range hdrs {
		switch strings.ToLower(h[0]) {
		case "x-real-ip":
			out = append(out, strings.TrimSpace(h[1]))
		case "x-forwarded-for":
			out = append(out, strings.TrimSpace(strings.SplitN(strings.TrimSpace(h[1]), ",", 2)[0]))
		}
	}
	return out
}

func decode(in hv.Val) (*input, bool) {
	l := hv.AsList(in)
	if len(l) != 5 {
		return nil, false
	}
	x := &input{op: int(hv.AsInt(l[0]))}
	if x.op != 1 && x.op != 2 {
		return nil, false
	}
	for _, e := range hv.AsList(l[1]) {
		r := hv.AsList(e)
		if len(r) != 4 {
			return nil, false
		}
		b, en := net.ParseIP(hv.AsStr(r[0])), net.ParseIP(hv.AsStr(r[1]))
		b16, e16 := ip16(r[2]), ip16(r[3])
		if b == nil || en == nil || b16 == nil || e16 == nil || !bytes.Equal(b.To16(), b16) || !bytes.Equal(en.To16(), e16) {
			return nil, false
		}
		if (b.To4() == nil) != (en.To4() == nil) || bytes.Compare(b16, e16) > 0 {
			return nil, false
		}
		x.table = append(x.table, rng{hv.AsStr(r[0]), hv.AsStr(r[1])})
	}
	p := hv.AsList(l[2])
	if len(p) != 3 {
		return nil, false
	}
	x.ip, x.ipText, x.port = ip16(p[0]), hv.AsStr(p[1]), int(hv.AsInt(p[2]))
	if x.ip == nil || x.ip.String() != x.ipText || x.port < 1 || x.port > 65535 {
		return nil, false
	}
	for _, e := range hv.AsList(l[3]) {
		kv := hv.AsList(e)
		if len(kv) != 2 {
			return nil, false
		}
		x.hdrs = append(x.hdrs, [2]string{hv.AsStr(kv[0]), hv.AsStr(kv[1])})
	}
	oracle := map[string][2]string{}
	for _, e := range hv.AsList(l[4]) {
		o := hv.AsList(e)
		if len(o) != 3 {
			return nil, false
		}
		t := hv.AsStr(o[0])
		ip := net.ParseIP(t)
		i16 := ip16(o[1])
		if ip == nil || i16 == nil || !bytes.Equal(ip.To16(), i16) || ip.String() != hv.AsStr(o[2]) {
			return nil, false
		}
		oracle[t] = [2]string{string(i16), hv.AsStr(o[2])}
	}
	for _, c := range candidates(x.hdrs) {
		_, listed := oracle[c]
		if listed != (net.ParseIP(c) != nil) {
			return nil, false
		}
	}
	if x.op == 1 && (x.ip.To4() == nil || x.ip.To4()[0] != 127) {
		return nil, false
	}
	return x, true
}

func rawRequest(x *input, closeHdr bool) []byte {
	var sb bytes.Buffer
	sb.WriteString("GET /p HTTP/1.1\r\nHost: example.org\r\n")
	for _, h := range x.hdrs {
		sb.WriteString(h[0] + ": " + h[1] + "\r\n")
	}
	if closeHdr {
		sb.WriteString("Connection: close\r\n")
	}
	sb.WriteString("\r\n")
	return sb.Bytes()
}

func vals(xs []string) hv.Val {
	out := hv.L{}
	for _, s := range xs {
		out = append(out, hv.S(s))
	}
	return out
}

func addrVal(a *net.TCPAddr, actualPort, placeholder int) hv.Val {
	if a == nil {
		return hv.L{}
	}
	p := a.Port
	if actualPort != 0 && p == actualPort {
		p = placeholder
	}
	ip := a.IP.To16()
	if ip == nil {
		return hv.Err(7)
	}
	return hv.L{hv.B([]byte(ip)), hv.I(p)}
}

// ---------------------------------------------------------------------------------------------------------------
// op 1: whole server

func implE2E(x *input) hv.Val {
	setupE2E()
	if err := reload(srv.Bfe.Monitor.WebHandlers, srv.ConfRoot, x.table); err != nil {
		return hv.Err(2)
	}
	bk.Reset()
	obsMu.Lock()
	obsSeen, obsAddr, obsTrusted = false, nil, 0
	obsMu.Unlock()
	d := net.Dialer{LocalAddr: &net.TCPAddr{IP: x.ip.To4()}, Timeout: srv.Deadline}
	c, err := d.Dial("tcp", srv.Addr)
	if err != nil {
		return hv.Err(3)
	}
	defer c.Close()
	actual := c.LocalAddr().(*net.TCPAddr).Port
	c.SetDeadline(time.Now().Add(srv.Deadline))
	if _, err := c.Write(rawRequest(x, true)); err != nil {
		return hv.Err(4)
	}
	// one framed response (the generated Connection lines may keep the connection open), then we hang up
	if resp, err := http.ReadResponse(bufio.NewReader(c), &http.Request{Method: "GET"}); err != nil {
		if ne, ok := err.(net.Error); ok && ne.Timeout() {
			return hv.Timeout()
		}
		return hv.Err(8)
	} else {
		io.Copy(ioutil.Discard, io.LimitReader(resp.Body, 1<<16))
		resp.Body.Close()
	}
	c.Close()
	conns := bk.Conns()
	obsMu.Lock()
	seen, tr, addr := obsSeen, obsTrusted, obsAddr
	obsMu.Unlock()
	if len(conns) == 0 || !seen {
		return hv.Err(5)
	}
	raw := conns[0].Bytes
	end := bytes.Index(raw, []byte("\r\n\r\n"))
	if end < 0 {
		return hv.Err(6)
	}
	got := map[string][]string{}
	for _, ln := range strings.Split(string(raw[:end]), "\r\n")[1:] {
		if k := strings.Index(ln, ": "); k > 0 {
			n := strings.ToLower(ln[:k])
			got[n] = append(got[n], ln[k+2:])
		}
	}
	as, ps := strconv.Itoa(actual), strconv.Itoa(x.port)
	subst := func(xs []string) []string {
		out := []string{}
		for _, s := range xs {
			if s == as {
				s = ps
			} else if strings.HasSuffix(s, ", "+as) {
				s = strings.TrimSuffix(s, as) + ps
			}
			out = append(out, s)
		}
		return out
	}
	return hv.L{hv.I(tr), addrVal(addr, actual, x.port), vals(got["x-forwarded-for"]), vals(got["x-real-ip"]),
		vals(subst(got["x-real-port"])), vals(subst(got["x-forwarded-port"])), vals(got["x-forwarded-host"]), vals(got["x-bfe-ip"])}
}

// ---------------------------------------------------------------------------------------------------------------
// op 2: callback level

type fakeConn struct {
	net.Conn
	remote, local *net.TCPAddr
}

func (f *fakeConn) RemoteAddr() net.Addr { return f.remote }
func (f *fakeConn) LocalAddr() net.Addr  { return f.local }

func implCB(x *input) hv.Val {
	setupCB()
	if err := reload(whs, cbRoot, x.table); err != nil {
		return hv.Err(2)
	}
	ip := x.ip
	if v4 := ip.To4(); v4 != nil {
		ip = v4 // accepted IPv4 connections carry the 4-byte form
	}
	conn := &fakeConn{remote: &net.TCPAddr{IP: ip, Port: x.port}, local: &net.TCPAddr{IP: net.IPv4(10, 9, 8, 7), Port: 8080}}
	sess := bfe_basic.NewSession(conn)
	if hl := cbs.GetHandlerList(bfe_module.HandleAccept); hl != nil {
		hl.FilterAccept(sess)
	}
	hr, err := bfe_http.ReadRequest(bfe_bufio.NewReader(bytes.NewReader(rawRequest(x, false))), 65536)
	if err != nil {
		return hv.Err(3)
	}
	hr.RemoteAddr = conn.remote.String()
	req := bfe_basic.NewRequest(hr, conn, nil, sess, nil)
	bfe_server.VerifSetClientAddr(req)
	if hl := cbs.GetHandlerList(bfe_module.HandleAfterLocation); hl != nil {
		hl.FilterRequest(req)
	}
	tr := 0
	if sess.TrustSource() {
		tr = 1
	}
	h := req.HttpRequest.Header
	return hv.L{hv.I(tr), addrVal(req.ClientAddr, 0, 0), vals(h["X-Forwarded-For"]), vals(h["X-Real-Ip"]),
		vals(h["X-Real-Port"]), vals(h["X-Forwarded-Port"]), vals(h["X-Forwarded-Host"]), vals(h["X-Bfe-Ip"])}
}

func impl(in hv.Val) hv.Val {
	x, ok := decode(in)
	if !ok {
		return hv.Err(0)
	}
	if x.op == 1 {
		return implE2E(x)
	}
	return implCB(x)
}

// ---------------------------------------------------------------------------------------------------------------
// generator

func ipAdd(ip net.IP, d int) net.IP {
	out := append(net.IP(nil), ip.To16()...)
	carry := d
	for i := 15; i >= 0 && carry != 0; i-- {
		v := int(out[i]) + carry
		carry = 0
		for v < 0 {
			v += 256
			carry--
		}
		for v > 255 {
			v -= 256
			carry++
		}
		out[i] = byte(v)
	}
	return out
}

var v4Bases = []string{"10.0.0.0", "10.1.2.3", "192.168.0.0", "172.16.5.250", "8.8.8.8", "100.64.0.0", "223.255.255.0", "1.0.0.1"}
var v6Bases = []string{"2001:db8::", "2001:db8::ff00", "fe80::1", "2400:da00::6666", "::1:0", "fd00:1234::"}
var loBases = []string{"127.0.0.1", "127.0.0.2", "127.0.1.0", "127.1.2.3", "127.200.0.0", "127.0.0.255"}

func genRange(r *hv.Rng, bases []string) (net.IP, net.IP) {
	b := net.ParseIP(r.Pick(bases))
	switch r.Intn(4) {
	case 0:
		return b, b // single address (hash-set path of ipdict)
	case 1:
		return b, ipAdd(b, 1+r.Intn(3))
	case 2:
		return b, ipAdd(b, 255)
	}
	return b, ipAdd(b, 256*(1+r.Intn(300))+r.Intn(256))
}

var ipTexts = []string{"1.2.3.4", "8.8.8.8, 9.9.9.9", " 1.2.3.4 ,5.6.7.8", "9.8.7.6 , 5.6.7.8", "2001:db8::2 ,1.2.3.4", "7.7.7.7\t, 1.1.1.1", "2001:db8::1", "2001:DB8:0:0::1", "::ffff:1.2.3.4",
	"bogus", "", "1.2.3.4.5", "01.2.3.4", "203.0.113.7", "10.0.0.1", "127.0.0.1", "bogus, 1.2.3.4", ", 1.2.3.4", "1.2.3.4,",
	"::1", "fe80::1%eth0", "1.2.3.4:80", "[::1]", "256.1.1.1", "6.6.6.6 , 7.7.7.7 , 8.8.8.8"}
var portTexts = []string{"80", "8080", "0", "443", "29999", "70000", "-1", "+80", "abc", "", "80, 443", "080", "8 0", "1e3", "81 , 443", "82 ,1", "1", "-0", "0", "-1", "0, 80"}
var connToks = []string{"X-Real-Ip", "x-real-ip", "X-REAL-IP", "X-Real-Port", "x-real-port", "X-Forwarded-For", "x-forwarded-for",
	"X-FORWARDED-FOR", "X-Forwarded-Port", "x-forwarded-port", "close", "keep-alive", "x-other", "X-Bfe-Ip", "X-Forwarded-Host", ""}
var hdrNames = [][]string{{"X-Forwarded-For", "x-forwarded-for", "X-FORWARDED-FOR"}, {"X-Real-Ip", "X-Real-IP", "x-real-ip"},
	{"X-Real-Port", "x-real-port"}, {"X-Forwarded-Port", "X-forwarded-port"}}

func gen(r *hv.Rng, i int, tier string) (string, hv.Val) {
	op := 1
	if r.Chance(1, 2) {
		op = 2
	}
	// table
	var table [][2]net.IP
	nr := r.Intn(4)
	for k := 0; k < nr; k++ {
		var b, e net.IP
		switch {
		case op == 1 && r.Chance(3, 4):
			b, e = genRange(r, loBases)
		case r.Chance(1, 3):
			b, e = genRange(r, v6Bases)
		default:
			b, e = genRange(r, v4Bases)
		}
		table = append(table, [2]net.IP{b, e})
	}
	// peer: near a boundary of a range, or unrelated
	var peer net.IP
	pick := func(bases []string) net.IP { return ipAdd(net.ParseIP(r.Pick(bases)), r.Intn(3)-1) }
	if len(table) > 0 && r.Chance(3, 4) {
		t := table[r.Intn(len(table))]
		switch r.Intn(5) {
		case 0:
			peer = ipAdd(t[0], -1)
		case 1:
			peer = t[0]
		case 2:
			peer = t[1]
		case 3:
			peer = ipAdd(t[1], 1)
		default:
			peer = ipAdd(t[0], 1)
		}
	} else if op == 1 {
		peer = pick(loBases)
	} else if r.Chance(1, 3) {
		peer = pick(v6Bases)
	} else {
		peer = pick(v4Bases)
	}
	if op == 1 && (peer.To4() == nil || peer.To4()[0] != 127 || peer.To4()[3] == 0 && peer.To4()[2] == 0 && peer.To4()[1] == 0) {
		peer = net.ParseIP(r.Pick(loBases))
	}
	peer = peer.To16()
	port := 30000 + r.Intn(30000)
	// headers
	var hs [][2]string
	mode := r.Intn(7)
	for k, names := range hdrNames {
		p := 1
		switch mode {
		case 0: // none
			p = 0
		case 1: // everything
			p = 4
		case 2: // only the X-Forwarded-* pair (the fallback path of setClientAddr)
			p = 4
			if k == 1 || k == 2 {
				p = 0
			}
		default:
			p = r.Intn(5)
		}
		if p == 0 {
			continue
		}
		n := 1
		if r.Chance(1, 5) {
			n = 2
		}
		for j := 0; j < n; j++ {
			v := ""
			if k < 2 {
				v = r.Pick(ipTexts)
			} else {
				v = r.Pick(portTexts)
			}
			hs = append(hs, [2]string{r.Pick(names), v})
		}
	}
	if r.Chance(1, 3) {
		hs = append(hs, [2]string{"X-Other", "1"})
	}
	if r.Chance(1, 4) { // forged X-Forwarded-Host / X-Bfe-Ip (mod_header appends resp. overwrites)
		for k := r.Intn(2); k >= 0; k-- {
			hs = append(hs, [2]string{r.Pick([]string{"X-Forwarded-Host", "x-forwarded-host"}), r.Pick([]string{"evil.example", "a.example, b.example", ""})})
		}
		if r.Bool() {
			hs = append(hs, [2]string{r.Pick([]string{"X-Bfe-Ip", "x-bfe-ip"}), r.Pick([]string{"6.6.6.6", ""})})
		}
	}
	// Connection lines nominating the address fields (a hop-by-hop stage that acted on them after mod_header has
	// written the fields would strip the peer's address from the upstream request)
	nominating := false
	if r.Chance(2, 5) {
		nominating = true
		nl := 1 + r.Intn(3)
		if r.Chance(2, 3) {
			nl = 1
		}
		for j := 0; j < nl; j++ {
			var ts []string
			switch r.Intn(4) {
			case 0: // everything
				ts = []string{"X-Real-Ip", "X-Real-Port", "X-Forwarded-For", "X-Forwarded-Port"}
			case 1:
				ts = []string{r.Pick(connToks)}
			default:
				for k := r.Intn(4); k >= 0; k-- {
					ts = append(ts, r.Pick(connToks))
				}
			}
			hs = append(hs, [2]string{r.Pick([]string{"Connection", "connection", "CONNECTION"}), strings.Join(ts, r.Pick([]string{", ", ",", " , "}))})
		}
	}
	for k := len(hs) - 1; k > 0; k-- { // shuffle
		j := r.Intn(k + 1)
		hs[k], hs[j] = hs[j], hs[k]
	}
	// oracle
	orc := hv.L{}
	seen := map[string]bool{}
	for _, c := range candidates(hs) {
		if ip := net.ParseIP(c); ip != nil && !seen[c] {
			seen[c] = true
			orc = append(orc, hv.L{hv.S(c), hv.B([]byte(ip.To16())), hv.S(ip.String())})
		}
	}
	tv := hv.L{}
	for _, t := range table {
		tv = append(tv, hv.L{hv.S(t[0].String()), hv.S(t[1].String()), hv.B([]byte(t[0].To16())), hv.B([]byte(t[1].To16()))})
	}
	pairs := hv.L{}
	for _, h := range hs {
		pairs = append(pairs, hv.L{hv.S(h[0]), hv.S(h[1])})
	}
	class := fmt.Sprintf("op%d-untrusted", op)
	for _, t := range table {
		if bytes.Compare(t[0].To16(), peer) <= 0 && bytes.Compare(peer, t[1].To16()) <= 0 {
			class = fmt.Sprintf("op%d-trusted", op)
		}
	}
	if len(hs) == 0 {
		class += "-nohdr"
	}
	if nominating {
		class += "-conn"
	}
	if i == 0 {
		return "triv-empty", hv.L{hv.I(2), hv.L{}, hv.L{hv.B([]byte(net.ParseIP("1.2.3.4").To16())), hv.S("1.2.3.4"), hv.I(40000)}, hv.L{}, hv.L{}}
	}
	return class, hv.L{hv.I(op), tv, hv.L{hv.B([]byte(peer)), hv.S(net.IP(peer).String()), hv.I(port)}, pairs, orc}
}

func main() {
	hv.Main(&hv.Spec{Prop: "C29", Gen: gen, Impl: impl, NQuick: 2400, NThorough: 100000})
	if srv != nil {
		srv.Close()
	}
	if cbRoot != "" {
		os.RemoveAll(cbRoot)
	}
	e2e.RemoveAll()
	os.Stdout.Sync()
}
