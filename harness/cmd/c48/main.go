// C48: module callbacks run in order and verdicts are honoured.  Whole-server harness (package e2e).
//
// input : [h bst tls [chain0] [chain1] [chain2] [chain3] [chain4] [chain5] [chain6] [chain7] [chain8]]
//   h      number of handlers verifmod registered per callback point (one server per h, 1..5)
//   bst    status code the fake backend replies with (body "bk")
//   tls    1 = the client connects to the HTTPS listener (HandleHandshake runs), 0 = plain HTTP
//   chainP verdict codes of handlers 0.. at callback point P (HandleAccept=0, HandleHandshake=1, BeforeLocation=2, FoundProduct=3,
//          AfterLocation=4, Forward=5, ReadResponse=6, RequestFinish=7, Finish=8); shorter than h => rest GoOn.
//          verdict code = ret + 10*variant; ret: 0 Finish 1 GoOn 2 Redirect 3 Response 4 Close 5.. (unknown value);
//          variant 0..2 selects the scripted response (status 403/404/200, body "v<k>") resp. redirect (301/302/307, URL "http://r<k>.example/x")
// scenario: one client connection; request r1 (keep-alive) runs the scripted chains, then request r2
//   ("Connection: close", all handlers GoOn) probes whether the connection is still open.
// output: [[calls] status body location xfake xmod contacted open [hdrs]]
//   hdrs      the reply's Set-Cookie and X-Verif-A fields as "Key: value", keys in that order, values in wire order
//   calls     every verifmod invocation in order: point*100 + idx*10 + tag (tag 0 session-level, 1 = r1, 2 = r2)
//   status    status code of the reply to r1 (0 = no byte received), body, Location header, X-Fake (reply came from the
//             backend), X-Verif-Mod (reply is verifmod's scripted response)
//   contacted number of backend connections that carried r1
//   open      1 iff r2 was answered (the connection survived r1)
package main

import (
	"bytes"
	"fmt"
	"os"

	"verif/harness/e2e"
	"verif/harness/hv"

	"github.com/bfenetworks/bfe/bfe_module"
)

type env struct {
	srv *e2e.Server
	bk  *e2e.Backend
}

var envs = map[int]*env{}

func getEnv(h int) *env {
	if e, ok := envs[h]; ok {
		return e
	}
	bk := e2e.NewBackend(fmt.Sprintf("bk%d", h))
	srv := e2e.Start(e2e.Options{
		Products: []e2e.Product{{Name: "p", Hosts: []string{"example.org"}, Cluster: "c"}},
		Clusters: []e2e.Cluster{{Name: "c", RetryMax: 0,
			SubClusters: []e2e.SubCluster{{Name: "s1", Weight: 100, Backends: []*e2e.Backend{bk}}}}},
		Handlers: h, HTTPS: true,
	})
	e := &env{srv, bk}
	envs[h] = e
	return e
}

var points = []int{bfe_module.HandleAccept, bfe_module.HandleHandshake, bfe_module.HandleBeforeLocation, bfe_module.HandleFoundProduct,
	bfe_module.HandleAfterLocation, bfe_module.HandleForward, bfe_module.HandleReadResponse,
	bfe_module.HandleRequestFinish, bfe_module.HandleFinish}

var respStatus = []int{403, 404, 200}
var redirCode = []int{301, 302, 307}

// extra header fields the scripted module attaches to its Redirect / Response verdicts, per variant (repeated keys!)
var extraHdr = [][][2]string{
	nil,
	{{"Set-Cookie", "a=1"}, {"Set-Cookie", "b=2"}},
	{{"X-Verif-A", "x"}, {"Set-Cookie", "c=3"}, {"X-Verif-A", "y"}},
}

func verdict(code int) e2e.Verdict {
	ret, k := code%10, (code/10)%3
	return e2e.Verdict{Ret: ret, Status: map[bool]int{true: redirCode[k], false: respStatus[k]}[ret == bfe_module.BfeHandlerRedirect],
		Body: fmt.Sprintf("v%d", k), URL: fmt.Sprintf("http://r%d.example/x", k), Header: extraHdr[k]}
}

func impl(in hv.Val) hv.Val {
	l := hv.AsList(in)
	if len(l) != 12 {
		return hv.Err(0)
	}
	h, bst, useTLS := int(hv.AsInt(l[0])), int(hv.AsInt(l[1])), int(hv.AsInt(l[2]))
	if h < 1 || h > 5 || bst < 200 || bst > 599 || useTLS < 0 || useTLS > 1 {
		return hv.Err(0)
	}
	session, reqs := e2e.Script{}, e2e.Script{}
	for i, p := range points {
		var vs []e2e.Verdict
		for _, c := range hv.AsList(l[3+i]) {
			code := int(hv.AsInt(c))
			if code < 0 || code > 29 {
				return hv.Err(0)
			}
			vs = append(vs, verdict(code))
		}
		if len(vs) > h {
			return hv.Err(0)
		}
		if p == bfe_module.HandleAccept || p == bfe_module.HandleHandshake || p == bfe_module.HandleFinish {
			session[p] = vs
		} else {
			reqs[p] = vs
		}
	}
	e := getEnv(h)
	e.bk.Reset()
	e.bk.Default = e2e.Reply([]byte(fmt.Sprintf("HTTP/1.1 %d X\r\nContent-Length: 2\r\nX-Fake: 1\r\n\r\nbk", bst)))
	e.srv.Mod.ResetCalls()
	e.srv.Mod.SetScript(session)
	e.srv.Mod.SetScriptFor("s1", reqs)

	var c *e2e.Client
	if useTLS == 1 {
		c = e.srv.DialTLS("example.org")
	} else {
		c = e.srv.Dial()
	}
	defer c.Close()
	c.Send([]byte("GET /a HTTP/1.1\r\nHost: example.org\r\nX-Verif-Id: r1\r\nX-Verif-Script: s1\r\n\r\n"))
	status, body, loc, xfake, xmod, open := 0, []byte{}, "", 0, 0, 0
	hdrs := hv.L{}
	r, err := c.ReadResponse()
	if err == nil {
		status, body, loc = r.Status, r.Body, r.Header.Get("Location")
		if r.Header.Get("X-Fake") != "" {
			xfake = 1
		}
		if r.Header.Get("X-Verif-Mod") != "" {
			xmod = 1
		}
		for _, k := range []string{"Set-Cookie", "X-Verif-A"} {
			for _, v := range r.Header[k] {
				hdrs = append(hdrs, hv.S(k+": "+v))
			}
		}
		c.Send([]byte("GET /b HTTP/1.1\r\nHost: example.org\r\nX-Verif-Id: r2\r\nConnection: close\r\n\r\n"))
		r2, err2 := c.ReadResponse()
		if err2 == nil && r2.Status == bst {
			open = 1
		}
	}
	if _, closed := c.ReadUntilClose(); !closed {
		return hv.Timeout()
	}
	var calls hv.L
	for _, cl := range e.srv.Mod.Calls() {
		tag := 0
		switch cl.ReqID {
		case "r1":
			tag = 1
		case "r2":
			tag = 2
		}
		calls = append(calls, hv.I(cl.Point*100+cl.Idx*10+tag))
	}
	contacted := 0
	for _, bc := range e.bk.Conns() {
		if bytes.Contains(bc.Bytes, []byte("X-Verif-Id: r1")) {
			contacted++
		}
	}
	if calls == nil {
		calls = hv.L{}
	}
	return hv.L{calls, hv.I(status), hv.B(body), hv.S(loc), hv.I(xfake), hv.I(xmod), hv.I(contacted), hv.I(open), hdrs}
}

func chain(r *hv.Rng, h int, mode int) hv.Val {
	// mode 0: all GoOn (empty); 1: one non-continue somewhere; 2: random mix
	var out hv.L
	switch mode {
	case 0:
		return hv.L{}
	case 1:
		pos := r.Intn(h)
		for i := 0; i < pos; i++ {
			out = append(out, hv.I(1+10*r.Intn(3)))
		}
		rets := []int{0, 2, 3, 4, 5}
		out = append(out, hv.I(rets[r.Intn(5)]+10*r.Intn(3)))
		// later handlers would return something else if (wrongly) consulted
		for i := pos + 1; i < h && r.Bool(); i++ {
			out = append(out, hv.I(r.Intn(6)+10*r.Intn(3)))
		}
	default:
		n := r.Intn(h + 1)
		for i := 0; i < n; i++ {
			if r.Chance(2, 3) {
				out = append(out, hv.I(1))
			} else {
				out = append(out, hv.I(r.Intn(6)+10*r.Intn(3)))
			}
		}
	}
	if out == nil {
		out = hv.L{}
	}
	return out
}

func gen(r *hv.Rng, i int, tier string) (string, hv.Val) {
	h := 1 + r.Intn(5)
	if r.Chance(1, 3) {
		h = 3
	}
	bst := []int{200, 200, 404, 500, 302}[r.Intn(5)]
	useTLS := 0
	if r.Chance(1, 4) {
		useTLS = 1
	}
	in := hv.L{hv.I(h), hv.I(bst), hv.I(useTLS)}
	chains := make([]hv.Val, 9)
	for k := range chains {
		chains[k] = hv.L{}
	}
	class := "mix"
	switch r.Intn(4) {
	case 0: // exactly one point has a non-continue verdict
		p := r.Intn(9)
		if p == 1 {
			useTLS = 1
			in[2] = hv.I(1)
		}
		chains[p] = chain(r, h, 1)
		class = fmt.Sprintf("single-p%d", points[p])
	case 1: // two points
		p, q := r.Intn(9), r.Intn(9)
		chains[p] = chain(r, h, 1)
		chains[q] = chain(r, h, 1)
		class = "double"
	case 2:
		for k := range chains {
			chains[k] = chain(r, h, 2)
		}
	default:
		for k := range chains {
			if r.Chance(1, 4) {
				chains[k] = chain(r, h, 1+r.Intn(2))
			}
		}
		class = "sparse"
	}
	if i == 0 {
		class = "triv-all-continue"
		for k := range chains {
			chains[k] = hv.L{}
		}
	}
	if useTLS == 1 {
		class += "-tls"
	}
	in = append(in, chains...)
	return class, in
}

func main() {
	hv.Main(&hv.Spec{Prop: "C48", Gen: gen, Impl: impl, NQuick: 1500, NThorough: 50000})
	for _, e := range envs {
		e.srv.Close()
	}
	e2e.RemoveAll()
	os.Stdout.Sync()
}
