// Package condh: shared helpers of the condition harnesses (C17, C18): call rendering, request <-> value
// conversion, and the oracle tables (results of external library calls) that the Coq model receives as input.
package condh

import (
	"net"
	"net/url"
	"regexp"
	"sort"
	"strings"

	"verif/harness/hv"

	"github.com/bfenetworks/bfe/bfe_basic"
	"github.com/bfenetworks/bfe/bfe_basic/condition"
	"github.com/bfenetworks/bfe/bfe_http"
	"github.com/bfenetworks/bfe/bfe_tls"
	"github.com/bfenetworks/bfe/bfe_util"
)

// Arg of a primitive call: Kind 1 = STRING, 2 = BOOL, 3 = INT; Val = literal text (string content unquoted).
type Arg struct {
	Kind int
	Val  string
}

func ArgsVal(args []Arg) hv.Val {
	l := hv.L{}
	for _, a := range args {
		l = append(l, hv.L{hv.I(a.Kind), hv.S(a.Val)})
	}
	return l
}

func ArgsOf(v hv.Val) []Arg {
	var res []Arg
	for _, e := range hv.AsList(v) {
		p := hv.AsList(e)
		res = append(res, Arg{int(hv.AsInt(p[0])), hv.AsStr(p[1])})
	}
	return res
}

// quote renders a STRING literal.  The scanner does not unescape, so the content must not need escapes:
// raw `...` when it has no backquote / CR, "..." when it has no quote, backslash or newline.
func quote(s string, preferRaw bool) string {
	rawOK := !strings.ContainsAny(s, "`\r")
	dqOK := !strings.ContainsAny(s, "\"\\\n")
	if rawOK && (preferRaw || !dqOK) {
		return "`" + s + "`"
	}
	if dqOK {
		return "\"" + s + "\""
	}
	return "`" + strings.NewReplacer("`", "", "\r", "").Replace(s) + "`" // not generated
}

func RenderCall(name string, args []Arg, style uint64) string {
	var sb strings.Builder
	sb.WriteString(name)
	sb.WriteString("(")
	for i, a := range args {
		if i > 0 {
			if style&2 != 0 {
				sb.WriteString(" , ")
			} else {
				sb.WriteString(", ")
			}
		}
		if a.Kind == 1 {
			sb.WriteString(quote(a.Val, style&1 != 0))
		} else {
			sb.WriteString(a.Val)
		}
	}
	sb.WriteString(")")
	return sb.String()
}

// ---------------------------------------------------------------- request
// Req mirrors coq/model/CondPrim.v request.
type KVs struct {
	K string
	V []string
}
type KV struct{ K, V string }
type Ctx struct {
	K     string
	IsStr bool
	V     string
}
type TLS struct {
	Sni, CA    string
	ClientAuth bool
}
type Req struct {
	Host, HostTag  string
	Secure         bool
	SProto, HProto string
	Method         string
	Tags           []KVs // nil = nil table
	HasTags        bool
	URI, Path      string
	Query          []KVs
	Cookies        []KV
	Headers        []KVs
	HasResp        bool
	Status         int
	RHeaders       []KVs
	CIP, SIP, VIP  []byte // nil = absent
	Trusted        bool
	TLS            *TLS
	HasCtx         bool
	Ctx            []Ctx
}

func kvsVal(l []KVs) hv.Val {
	out := hv.L{}
	for _, e := range l {
		out = append(out, hv.L{hv.S(e.K), hv.LS(e.V)})
	}
	return out
}
func optB(b []byte) hv.Val {
	if b == nil {
		return hv.L{}
	}
	return hv.L{hv.B(b)}
}

func (r *Req) Val() hv.Val {
	tags := hv.Val(hv.L{})
	if r.HasTags {
		tags = hv.L{kvsVal(r.Tags)}
	}
	ck := hv.L{}
	for _, c := range r.Cookies {
		ck = append(ck, hv.L{hv.S(c.K), hv.S(c.V)})
	}
	resp := hv.Val(hv.L{})
	if r.HasResp {
		resp = hv.L{hv.I(r.Status), kvsVal(r.RHeaders)}
	}
	tls := hv.Val(hv.L{})
	if r.TLS != nil {
		tls = hv.L{hv.S(r.TLS.Sni), hv.Bool(r.TLS.ClientAuth), hv.S(r.TLS.CA)}
	}
	ctx := hv.Val(hv.L{})
	if r.HasCtx {
		l := hv.L{}
		for _, c := range r.Ctx {
			if c.IsStr {
				l = append(l, hv.L{hv.S(c.K), hv.L{hv.S(c.V)}})
			} else {
				l = append(l, hv.L{hv.S(c.K), hv.L{}})
			}
		}
		ctx = hv.L{l}
	}
	return hv.L{hv.S(r.Host), hv.S(r.HostTag), hv.Bool(r.Secure), hv.S(r.SProto), hv.S(r.HProto), hv.S(r.Method),
		tags, hv.S(r.URI), hv.S(r.Path), kvsVal(r.Query), ck, kvsVal(r.Headers), resp,
		optB(r.CIP), optB(r.SIP), optB(r.VIP), hv.Bool(r.Trusted), tls, ctx}
}

func kvsOf(v hv.Val) []KVs {
	var out []KVs
	for _, e := range hv.AsList(v) {
		p := hv.AsList(e)
		var vs []string
		for _, x := range hv.AsList(p[1]) {
			vs = append(vs, hv.AsStr(x))
		}
		out = append(out, KVs{hv.AsStr(p[0]), vs})
	}
	return out
}
func optBOf(v hv.Val) []byte {
	l := hv.AsList(v)
	if len(l) == 0 {
		return nil
	}
	return append([]byte{}, hv.AsBytes(l[0])...)
}

// Build constructs the real bfe request described by the value (first binding of a duplicated key wins, as
// in the model's association lists).
func BuildRequest(v hv.Val) *bfe_basic.Request {
	f := hv.AsList(v)
	hr := &bfe_http.Request{Host: hv.AsStr(f[0]), Proto: hv.AsStr(f[4]), Method: hv.AsStr(f[5]),
		RequestURI: hv.AsStr(f[7]), Header: bfe_http.Header{}}
	hr.URL = &url.URL{Path: hv.AsStr(f[8])}
	ses := &bfe_basic.Session{IsSecure: hv.AsBool(f[2]), Proto: hv.AsStr(f[3])}
	req := bfe_basic.NewRequest(hr, nil, nil, ses, nil)
	req.Route.HostTag = hv.AsStr(f[1])
	req.Tags.TagTable = nil
	if tl := hv.AsList(f[6]); len(tl) == 1 {
		req.Tags.TagTable = map[string][]string{}
		for _, e := range kvsOf(tl[0]) {
			if _, dup := req.Tags.TagTable[e.K]; !dup {
				req.Tags.TagTable[e.K] = e.V
			}
		}
	}
	req.Query = url.Values{}
	for _, e := range kvsOf(f[9]) {
		if _, dup := req.Query[e.K]; !dup {
			req.Query[e.K] = e.V
		}
	}
	req.CookieMap = bfe_http.CookieMap{}
	for _, e := range hv.AsList(f[10]) {
		p := hv.AsList(e)
		k := hv.AsStr(p[0])
		if _, dup := req.CookieMap[k]; !dup {
			req.CookieMap[k] = &bfe_http.Cookie{Name: k, Value: hv.AsStr(p[1])}
		}
	}
	for _, e := range kvsOf(f[11]) {
		if _, dup := hr.Header[e.K]; !dup {
			hr.Header[e.K] = e.V
		}
	}
	if rl := hv.AsList(f[12]); len(rl) == 2 {
		resp := &bfe_http.Response{StatusCode: int(hv.AsInt(rl[0])), Header: bfe_http.Header{}}
		for _, e := range kvsOf(rl[1]) {
			if _, dup := resp.Header[e.K]; !dup {
				resp.Header[e.K] = e.V
			}
		}
		req.HttpResponse = resp
	}
	if ip := optBOf(f[13]); ip != nil {
		req.ClientAddr = &net.TCPAddr{IP: net.IP(ip), Port: 1234}
	}
	if ip := optBOf(f[14]); ip != nil {
		ses.RemoteAddr = &net.TCPAddr{IP: net.IP(ip), Port: 4321}
		req.RemoteAddr = ses.RemoteAddr
	}
	if ip := optBOf(f[15]); ip != nil {
		ses.Vip = net.IP(ip)
	}
	ses.SetTrustSource(hv.AsBool(f[16]))
	if tl := hv.AsList(f[17]); len(tl) == 3 {
		ses.TlsState = &bfe_tls.ConnectionState{ServerName: hv.AsStr(tl[0]), ClientAuth: hv.AsBool(tl[1]), ClientCAName: hv.AsStr(tl[2])}
	}
	req.Context = nil
	if cl := hv.AsList(f[18]); len(cl) == 1 {
		req.Context = map[interface{}]interface{}{}
		for _, e := range hv.AsList(cl[0]) {
			p := hv.AsList(e)
			k := hv.AsStr(p[0])
			if _, dup := req.Context[k]; dup {
				continue
			}
			if o := hv.AsList(p[1]); len(o) == 1 {
				req.Context[k] = hv.AsStr(o[0])
			} else {
				req.Context[k] = 42
			}
		}
	}
	return req
}

// ---------------------------------------------------------------- oracle tables
// Strings of the request a matcher may be applied to.
func (r *Req) Subjects() []string {
	set := map[string]bool{"": true}
	add := func(s string) { set[s] = true }
	add(strings.SplitN(r.Host, ":", 2)[0])
	add(r.HostTag)
	add(r.Path)
	add(r.URI)
	for _, l := range [][]KVs{r.Headers, r.Query, r.RHeaders} {
		for _, e := range l {
			if len(e.V) > 0 {
				add(e.V[0])
			}
		}
	}
	for _, c := range r.Cookies {
		add(c.V)
	}
	for _, ip := range [][]byte{r.CIP, r.SIP, r.VIP} {
		if ip != nil {
			add(net.IP(ip).String())
		}
	}
	var out []string
	for s := range set {
		out = append(out, s)
	}
	sort.Strings(out)
	return out
}

func safeTime(s string) (ok bool, unix int64) {
	defer func() {
		if recover() != nil {
			ok, unix = false, -1
		}
	}()
	t, err := bfe_util.ParseTime(s)
	if err != nil {
		return false, 0
	}
	return true, t.Unix()
}
func safeTod(s string) (ok bool, secs, off int) {
	defer func() {
		if recover() != nil {
			ok, secs, off = false, -1, -1
		}
	}()
	t, o, err := bfe_util.ParseTimeOfDay(s)
	if err != nil {
		return false, 0, 0
	}
	return true, t.Hour()*3600 + t.Minute()*60 + t.Second(), o
}

// NominalNow is the value the model uses for time.Now() (requests without X-Bfe-Debug-Time); the generators only
// produce windows whose verdict is the same for every clock value between 2020 and 2090.
const NominalNow = 1900000000

// Oracle evaluates the external library functions on every string the model may ask about:
// texts (string arguments and their |-parts, the debug time header), regex (pattern, subject) pairs,
// hash subjects, raw IPs.
func Oracle(name string, args []Arg, r *Req) hv.Val {
	textSet := map[string]bool{}
	for _, a := range args {
		if a.Kind == 1 {
			textSet[a.Val] = true
			for _, p := range strings.Split(a.Val, "|") {
				textSet[p] = true
			}
		}
	}
	var subjects []string
	if r != nil {
		subjects = r.Subjects()
		for _, h := range r.Headers {
			if h.K == "X-Bfe-Debug-Time" && len(h.V) > 0 {
				textSet[h.V[0]] = true
			}
		}
	}
	textSet[""] = true
	var texts []string
	for s := range textSet {
		texts = append(texts, s)
	}
	sort.Strings(texts)
	ipt, ret, rmt, tit, tot, hat, ist := hv.L{}, hv.L{}, hv.L{}, hv.L{}, hv.L{}, hv.L{}, hv.L{}
	isIP := strings.Contains(name, "ip_") || strings.Contains(name, "vip")
	isRe := strings.Contains(name, "_regmatch")
	isTime := strings.Contains(name, "time")
	isHash := strings.Contains(name, "_hash_in")
	for _, s := range texts {
		if isIP {
			ip := net.ParseIP(s)
			if ip == nil {
				ipt = append(ipt, hv.L{hv.S(s), hv.B{}, hv.I(0)})
			} else {
				ipt = append(ipt, hv.L{hv.S(s), hv.B(ip.To16()), hv.Bool(ip.To4() != nil)})
			}
		}
		if isRe {
			re, err := regexp.Compile(s)
			ret = append(ret, hv.L{hv.S(s), hv.Bool(err == nil)})
			if err == nil {
				for _, sub := range subjects {
					rmt = append(rmt, hv.L{hv.S(s), hv.S(sub), hv.Bool(re.MatchString(sub))})
				}
			}
		}
		if isTime {
			ok, u := safeTime(s)
			tit = append(tit, hv.L{hv.S(s), hv.Bool(ok), hv.Z(u)})
			ok2, sc, off := safeTod(s)
			tot = append(tot, hv.L{hv.S(s), hv.Bool(ok2), hv.I(sc), hv.I(off)})
		}
	}
	if isHash {
		seen := map[string]bool{}
		for _, s := range subjects {
			for _, v := range []string{s, strings.ToLower(s)} {
				if !seen[v] {
					seen[v] = true
					hat = append(hat, hv.L{hv.S(v), hv.I(condition.GetHash([]byte(v), 10000))})
				}
			}
		}
	}
	if r != nil {
		seen := map[string]bool{}
		for _, ip := range [][]byte{r.CIP, r.SIP, r.VIP} {
			if ip != nil && !seen[string(ip)] {
				seen[string(ip)] = true
				ist = append(ist, hv.L{hv.B(ip), hv.S(net.IP(ip).String())})
			}
		}
	}
	return hv.L{ipt, ret, rmt, tit, tot, hat, ist, hv.Z(NominalNow)}
}

// Primitives: the documented primitive names with their argument kinds (harness-side copy used only to
// generate mostly-valid calls; the model's prototypes come from the translator).
var Primitives = []struct {
	Name  string
	Kinds []int
}{
	{"default_t", nil}, {"req_cip_trusted", nil}, {"req_vip_in", []int{1}}, {"req_proto_match", []int{1}},
	{"req_proto_secure", nil}, {"req_host_in", []int{1}}, {"req_host_regmatch", []int{1}}, {"req_host_tag_in", []int{1}},
	{"req_host_suffix_in", []int{1}}, {"req_path_in", []int{1, 2}}, {"req_path_prefix_in", []int{1, 2}},
	{"req_path_suffix_in", []int{1, 2}}, {"req_path_contain", []int{1, 2}}, {"req_path_regmatch", []int{1}},
	{"req_path_element_prefix_in", []int{1, 2}}, {"req_query_key_prefix_in", []int{1}}, {"req_query_key_in", []int{1}},
	{"req_query_exist", nil}, {"req_query_value_in", []int{1, 1, 2}}, {"req_query_value_prefix_in", []int{1, 1, 2}},
	{"req_query_value_suffix_in", []int{1, 1, 2}}, {"req_query_value_regmatch", []int{1, 1}},
	{"req_query_value_contain", []int{1, 1, 2}}, {"req_query_value_hash_in", []int{1, 1, 2}}, {"req_url_regmatch", []int{1}},
	{"req_cookie_key_in", []int{1}}, {"req_cookie_value_in", []int{1, 1, 2}}, {"req_cookie_value_prefix_in", []int{1, 1, 2}},
	{"req_cookie_value_suffix_in", []int{1, 1, 2}}, {"req_cookie_value_contain", []int{1, 1, 2}},
	{"req_cookie_value_hash_in", []int{1, 1, 2}}, {"req_port_in", []int{1}}, {"req_tag_match", []int{1, 1}},
	{"req_ua_regmatch", []int{1}}, {"req_header_key_in", []int{1}}, {"req_header_value_in", []int{1, 1, 2}},
	{"req_header_value_prefix_in", []int{1, 1, 2}}, {"req_header_value_suffix_in", []int{1, 1, 2}},
	{"req_header_value_regmatch", []int{1, 1}}, {"req_header_value_contain", []int{1, 1, 2}},
	{"req_header_value_hash_in", []int{1, 1, 2}}, {"req_method_in", []int{1}}, {"req_cip_range", []int{1, 1}},
	{"req_vip_range", []int{1, 1}}, {"req_cip_hash_in", []int{1}}, {"res_code_in", []int{1}}, {"res_header_key_in", []int{1}},
	{"res_header_value_in", []int{1, 1, 2}}, {"ses_vip_range", []int{1, 1}}, {"ses_sip_range", []int{1, 1}},
	{"ses_tls_sni_in", []int{1}}, {"ses_tls_client_auth", nil}, {"ses_tls_client_ca_in", []int{1}},
	{"req_context_value_in", []int{1, 1, 2}}, {"bfe_time_range", []int{1, 1}}, {"bfe_periodic_time_range", []int{1, 1, 1}},
}
