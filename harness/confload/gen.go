package confload

import (
	"net"
	"strings"

	"verif/harness/hv"
)

// ---- structured form of the four server_data_conf files (what the generators mutate)
type KL struct {
	K string
	L *[]string
}
type HostF struct {
	Ver, Def    *string
	Hosts, Tags *[]KL
}
type VipP struct {
	P string
	L []string
}
type VipF struct {
	Ver  string
	Vips []VipP
}
type BRule struct {
	H, P []string
	C    *string
}
type ARule struct {
	Cond *int
	C    *string
}
type BasicP struct {
	P string
	R []BRule
}
type AdvP struct {
	P string
	R []ARule
}
type RouteF struct {
	Ver   *string
	Basic *[]BasicP
	Adv   *[]AdvP
}
type CC struct {
	Proto, Schem, Uri    *string
	Status, Succ, HStrat *int
	HHeader, Mode        *string
}
type ClusterP struct {
	N string
	C CC
}
type ClusterF struct {
	Ver *string
	Cfg *[]ClusterP
}
type SDC struct {
	Host    HostF
	Vip     VipF
	Route   RouteF
	Cluster ClusterF
}

func S(s string) *string { return &s }
func I(i int) *int       { return &i }

func ostr(s *string) hv.Val {
	if s == nil {
		return hv.L{}
	}
	return hv.L{hv.S(*s)}
}
func oint(i *int) hv.Val {
	if i == nil {
		return hv.L{}
	}
	return hv.L{hv.I(*i)}
}
func klVal(m *[]KL) hv.Val {
	if m == nil {
		return hv.L{}
	}
	l := hv.L{}
	for _, e := range *m {
		var lv hv.Val = hv.L{}
		if e.L != nil {
			lv = hv.L{hv.LS(*e.L)}
		}
		l = append(l, hv.L{hv.S(e.K), lv})
	}
	return hv.L{l}
}

// CanonIP is the harness-side evaluation of the external net.ParseIP(vip).String() (input column of the model).
func CanonIP(raw string) hv.Val {
	ip := net.ParseIP(raw)
	if ip == nil {
		return hv.L{}
	}
	return hv.L{hv.S(ip.String())}
}

func (f *HostF) Val() hv.Val { return hv.L{ostr(f.Ver), ostr(f.Def), klVal(f.Hosts), klVal(f.Tags)} }
func (f *VipF) Val() hv.Val {
	l := hv.L{}
	for _, p := range f.Vips {
		vl := hv.L{}
		for _, raw := range p.L {
			vl = append(vl, hv.L{hv.S(raw), CanonIP(raw)})
		}
		l = append(l, hv.L{hv.S(p.P), vl})
	}
	return hv.L{hv.S(f.Ver), l}
}
func (f *RouteF) Val() hv.Val {
	var b, a hv.Val = hv.L{}, hv.L{}
	if f.Basic != nil {
		l := hv.L{}
		for _, p := range *f.Basic {
			rl := hv.L{}
			for _, r := range p.R {
				rl = append(rl, hv.L{hv.LS(r.H), hv.LS(r.P), ostr(r.C)})
			}
			l = append(l, hv.L{hv.S(p.P), rl})
		}
		b = hv.L{l}
	}
	if f.Adv != nil {
		l := hv.L{}
		for _, p := range *f.Adv {
			rl := hv.L{}
			for _, r := range p.R {
				rl = append(rl, hv.L{oint(r.Cond), ostr(r.C)})
			}
			l = append(l, hv.L{hv.S(p.P), rl})
		}
		a = hv.L{l}
	}
	return hv.L{ostr(f.Ver), b, a}
}
func (f *ClusterF) Val() hv.Val {
	var c hv.Val = hv.L{}
	if f.Cfg != nil {
		l := hv.L{}
		for _, p := range *f.Cfg {
			x := p.C
			l = append(l, hv.L{hv.S(p.N), hv.L{ostr(x.Proto), ostr(x.Schem), ostr(x.Uri), oint(x.Status), oint(x.Succ),
				oint(x.HStrat), ostr(x.HHeader), ostr(x.Mode)}})
		}
		c = hv.L{l}
	}
	return hv.L{ostr(f.Ver), c}
}

// HostKey mirrors the key under which buildHostRoute stores a host (lower case, one trailing dot dropped).
func HostKey(h string) string {
	h = strings.ToLower(h)
	return strings.TrimSuffix(h, ".")
}

var hostPool = []string{"a.com", "www.a.com", "b.org", "x.b.org", "c.net", "img.c.net", "d.io", "e.dev", "api.e.dev", "f.cn", "g.tv", "h.us"}
var vipPool = []string{"1.2.3.4", "10.0.0.1", "192.168.1.1", "::1", "2001:db8::1", "8.8.8.8", "172.16.0.9", "fe80::2"}
var pathPool = []string{"/a", "/a/*", "/a/b", "/b*", "*", "/", "/c/d/*", "/e"}

func caseMix(r *hv.Rng, s string) string {
	switch r.Intn(5) {
	case 0:
		return strings.ToUpper(s)
	case 1:
		return strings.ToUpper(s[:1]) + s[1:]
	case 2:
		if r.Bool() {
			return s + "."
		}
	}
	return s
}

func genCC(r *hv.Rng) CC {
	var c CC
	if r.Chance(1, 2) {
		c.Proto = S(r.Pick([]string{"http", "tcp", "ws", "fcgi", "h2c", "HTTP", "Fcgi"}))
	}
	if r.Chance(1, 2) {
		c.Schem = S(r.Pick([]string{"http", "tcp"}))
	}
	if r.Chance(1, 2) {
		c.Uri = S(r.Pick([]string{"/", "/health", "/health_check", "/s?x=1"}))
	}
	if r.Chance(1, 2) {
		c.Status = I([]int{0, 200, 100, 599, 31, 1, 2, 404}[r.Intn(8)])
	}
	if r.Chance(1, 3) {
		c.Succ = I(r.Range(1, 3))
	}
	switch r.Intn(4) {
	case 0:
		c.HStrat = I([]int{1, 3}[r.Intn(2)])
	case 1:
		c.HStrat = I([]int{0, 2}[r.Intn(2)])
		c.HHeader = S(r.Pick([]string{"X-Id", "Cookie:UID", "Cookie: UID ", "a:b:c"}))
	case 2:
		if r.Bool() {
			c.HHeader = S("Cookie:") // ignored for strategies 1 and 3
		}
	}
	if r.Chance(1, 2) {
		c.Mode = S(r.Pick([]string{"WRR", "WLC", "wrr", "Wlc"}))
	}
	return c
}

// GenSDC builds a configuration that follows the documented format: unique lower-cased hosts, every tag under one
// product, unique vips, every reference defined.  advMode: allow basic rules that target ADVANCED_MODE.
func GenSDC(r *hv.Rng, advMode bool) (*SDC, bool) {
	c := &SDC{}
	usedAdv := false
	nP := r.Range(1, 3)
	prods := []string{"p1", "prodB", "p3"}[:nP]
	hosts := append([]string(nil), hostPool...)
	for i := len(hosts) - 1; i > 0; i-- {
		j := r.Intn(i + 1)
		hosts[i], hosts[j] = hosts[j], hosts[i]
	}
	vips := append([]string(nil), vipPool...)
	for i := len(vips) - 1; i > 0; i-- {
		j := r.Intn(i + 1)
		vips[i], vips[j] = vips[j], vips[i]
	}
	var hl, tl []KL
	prodHosts := map[string][]string{}
	tagN := 0
	for _, p := range prods {
		var tags []string
		for k := r.Range(1, 2); k > 0; k-- {
			tagN++
			tag := "t" + string(rune('0'+tagN))
			tags = append(tags, tag)
			var hs []string
			for n := r.Range(1, 2); n > 0 && len(hosts) > 0; n-- {
				h := caseMix(r, hosts[0])
				hosts = hosts[1:]
				hs = append(hs, h)
				prodHosts[p] = append(prodHosts[p], h)
			}
			hl = append(hl, KL{tag, &hs})
		}
		tl = append(tl, KL{p, &tags})
	}
	c.Host = HostF{Ver: S("v1"), Hosts: &hl, Tags: &tl}
	if r.Chance(1, 2) {
		c.Host.Def = S(prods[r.Intn(nP)])
	}
	c.Vip.Ver = "v1"
	for _, p := range prods {
		if r.Bool() {
			var l []string
			for n := r.Range(1, 2); n > 0 && len(vips) > 0; n-- {
				l = append(l, vips[0])
				vips = vips[1:]
			}
			c.Vip.Vips = append(c.Vip.Vips, VipP{p, l})
		}
	}
	nC := r.Range(1, 3)
	clusters := []string{"c1", "cluster_b", "c3"}[:nC]
	var cl []ClusterP
	for _, n := range clusters {
		cl = append(cl, ClusterP{n, genCC(r)})
	}
	c.Cluster = ClusterF{Ver: S("v1"), Cfg: &cl}
	var bl []BasicP
	var al []AdvP
	for _, p := range prods {
		if r.Chance(2, 3) {
			var rules []BRule
			used := map[string]bool{}
			for n := r.Range(1, 3); n > 0; n-- {
				var br BRule
				var h, pa string
				ph := prodHosts[p]
				switch r.Intn(5) {
				case 0:
					h = "*"
				case 1:
					b := HostKey(ph[r.Intn(len(ph))])
					if i := strings.IndexByte(b, '.'); i >= 0 {
						h = "*" + b[i:]
					} else {
						h = b
					}
				case 2:
					h = ""
				default:
					h = HostKey(ph[r.Intn(len(ph))])
				}
				pa = pathPool[r.Intn(len(pathPool))]
				if r.Chance(1, 5) {
					pa = ""
				}
				if h == "" && pa == "" {
					pa = "/z"
				}
				hk, pk := h, pa
				if hk == "" {
					hk = "*"
				}
				if pk == "" {
					pk = "*"
				}
				pk = strings.TrimSuffix(pk, "*")
				if strings.HasSuffix(pa, "*") || pa == "" {
					if pk != "" && !strings.HasSuffix(pk, "/") {
						pk += "/"
					}
					pk += "\x00w"
				}
				if used[strings.ToUpper(hk)+"|"+pk] {
					continue
				}
				used[strings.ToUpper(hk)+"|"+pk] = true
				if h != "" {
					br.H = []string{h}
				}
				if pa != "" {
					br.P = []string{pa}
				}
				if advMode && r.Chance(1, 6) {
					br.C = S("ADVANCED_MODE")
					usedAdv = true
				} else {
					br.C = S(clusters[r.Intn(nC)])
				}
				rules = append(rules, br)
			}
			bl = append(bl, BasicP{p, rules})
		}
		if r.Chance(2, 3) {
			var rules []ARule
			for n := r.Range(0, 3); n > 0; n-- {
				rules = append(rules, ARule{I(r.Intn(2)), S(clusters[r.Intn(nC)])})
			}
			al = append(al, AdvP{p, rules})
		}
	}
	c.Route.Ver = S("v1")
	switch {
	case len(bl) == 0 && len(al) == 0:
		al = []AdvP{{prods[0], []ARule{{I(0), S(clusters[0])}}}}
		c.Route.Adv = &al
	default:
		if len(bl) > 0 || r.Bool() {
			c.Route.Basic = &bl
		}
		if len(al) > 0 || c.Route.Basic == nil || r.Bool() {
			c.Route.Adv = &al
		}
	}
	return c, usedAdv
}
