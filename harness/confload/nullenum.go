package confload

// Systematic null / missing / empty enumeration (C13).  The positions are derived by reflection from the Go types the
// loaders decode into, so new or renamed fields are picked up automatically: every struct field, map entry (plus one new
// key), and slice element (plus one appended element) of the decoded type is a slot; each slot is combined with a variant
// (JSON null, key/element removed, empty value of its kind, container holding one null) and a sibling mode (other
// top-level sections kept, emptied, or cut down to a single entry).

import (
	"bytes"
	"encoding/json"
	"reflect"
	"sort"

	"github.com/bfenetworks/bfe/bfe_config/bfe_cluster_conf/cluster_conf"
	"github.com/bfenetworks/bfe/bfe_config/bfe_cluster_conf/cluster_table_conf"
	"github.com/bfenetworks/bfe/bfe_config/bfe_cluster_conf/gslb_conf"
	"github.com/bfenetworks/bfe/bfe_config/bfe_route_conf/host_rule_conf"
	"github.com/bfenetworks/bfe/bfe_config/bfe_route_conf/route_rule_conf"
	"github.com/bfenetworks/bfe/bfe_config/bfe_route_conf/vip_rule_conf"
)

// LoaderType returns the type loader k (1..6, numbering of harness/cmd/c13) decodes its file into.
func LoaderType(k int) reflect.Type {
	switch k {
	case 1:
		return reflect.TypeOf(host_rule_conf.HostTableConf{})
	case 2:
		return reflect.TypeOf(vip_rule_conf.VipTableConf{})
	case 3:
		return reflect.TypeOf(route_rule_conf.RouteTableFile{})
	case 4:
		return reflect.TypeOf(cluster_conf.BfeClusterConf{})
	case 5:
		return reflect.TypeOf(gslb_conf.GslbConf{})
	default:
		return reflect.TypeOf(cluster_table_conf.ClusterTableConf{})
	}
}

type slot struct {
	path   string
	t      reflect.Type
	exists bool
	put    func(v interface{})
	del    func()
}

func baseOf(t reflect.Type) reflect.Type {
	for t.Kind() == reflect.Ptr {
		t = t.Elem()
	}
	return t
}

func emptyOf(t reflect.Type) interface{} {
	switch baseOf(t).Kind() {
	case reflect.Struct, reflect.Map:
		return map[string]interface{}{}
	case reflect.Slice, reflect.Array:
		return []interface{}{}
	case reflect.String:
		return ""
	case reflect.Bool:
		return false
	default:
		return json.Number("0")
	}
}

func holdingNull(t reflect.Type) interface{} {
	switch baseOf(t).Kind() {
	case reflect.Map:
		return map[string]interface{}{"zz_null": nil}
	case reflect.Slice, reflect.Array:
		return []interface{}{nil}
	case reflect.Struct: // every field null
		m := map[string]interface{}{}
		b := baseOf(t)
		for i := 0; i < b.NumField(); i++ {
			if b.Field(i).PkgPath == "" {
				m[b.Field(i).Name] = nil
			}
		}
		return m
	}
	return nil
}

func collect(t reflect.Type, node interface{}, path string, out *[]slot) {
	b := baseOf(t)
	switch b.Kind() {
	case reflect.Struct:
		obj, ok := node.(map[string]interface{})
		if !ok {
			return
		}
		for i := 0; i < b.NumField(); i++ {
			f := b.Field(i)
			if f.PkgPath != "" {
				continue
			}
			name := f.Name
			child, present := obj[name]
			*out = append(*out, slot{path + "/" + name, f.Type, present,
				func(v interface{}) { obj[name] = v }, func() { delete(obj, name) }})
			if present && child != nil {
				collect(f.Type, child, path+"/"+name, out)
			}
		}
	case reflect.Map:
		obj, ok := node.(map[string]interface{})
		if !ok {
			return
		}
		keys := make([]string, 0, len(obj))
		for k := range obj {
			keys = append(keys, k)
		}
		sort.Strings(keys)
		for _, k := range keys {
			key := k
			*out = append(*out, slot{path + "/{" + key + "}", b.Elem(), true,
				func(v interface{}) { obj[key] = v }, func() { delete(obj, key) }})
			if obj[key] != nil {
				collect(b.Elem(), obj[key], path+"/{}", out)
			}
		}
		*out = append(*out, slot{path + "/{new}", b.Elem(), false, func(v interface{}) { obj["zz_new"] = v }, nil})
	case reflect.Slice, reflect.Array:
		// elements are replaced in place; removal and append need the parent, which owns the slice header: handled by
		// the parent's slot (variants "empty" and "holding null")
		arr, ok := node.([]interface{})
		if !ok {
			return
		}
		for i := range arr {
			idx := i
			*out = append(*out, slot{path + "/[]", b.Elem(), true, func(v interface{}) { arr[idx] = v }, nil})
			if arr[idx] != nil {
				collect(b.Elem(), arr[idx], path+"/[]", out)
			}
		}
	}
}

var NullVariants = []string{"null", "missing", "empty", "holdsnull"}
var SiblingModes = []string{"keep", "emptied", "single"}

// NullCase applies combination number n to the well-formed JSON text of loader k and returns the mutated text and a label.
func NullCase(k int, valid string, n int) (string, string) {
	t := LoaderType(k)
	dec := json.NewDecoder(bytes.NewReader([]byte(valid)))
	dec.UseNumber()
	var root interface{}
	if err := dec.Decode(&root); err != nil {
		return valid, "unparsed"
	}
	var slots []slot
	collect(t, root, "", &slots)
	if len(slots) == 0 {
		return valid, "noslot"
	}
	// spread the case numbers over the whole (slot x variant x mode) space instead of walking it slot-major
	total := len(slots) * len(NullVariants) * len(SiblingModes)
	n = int((uint64(n)*2654435761 + uint64(n/total)) % uint64(total))
	s := slots[n%len(slots)]
	n /= len(slots)
	variant := NullVariants[n%len(NullVariants)]
	n /= len(NullVariants)
	mode := SiblingModes[n%len(SiblingModes)]
	top := ""
	if len(s.path) > 1 {
		top = s.path[1:]
		for i := 0; i < len(top); i++ {
			if top[i] == '/' {
				top = top[:i]
				break
			}
		}
	}
	// sibling mode first (on the other top-level sections), then the slot itself
	if obj, ok := root.(map[string]interface{}); ok && mode != "keep" {
		for name, v := range obj {
			if name == top {
				continue
			}
			switch c := v.(type) {
			case map[string]interface{}:
				if mode == "emptied" {
					obj[name] = map[string]interface{}{}
				} else {
					keys := make([]string, 0, len(c))
					for kk := range c {
						keys = append(keys, kk)
					}
					sort.Strings(keys)
					for _, kk := range keys[min(1, len(keys)):] {
						delete(c, kk)
					}
				}
			case []interface{}:
				if mode == "emptied" {
					obj[name] = []interface{}{}
				} else if len(c) > 1 {
					obj[name] = c[:1]
				}
			}
		}
	}
	switch variant {
	case "null":
		s.put(nil)
	case "missing":
		if s.del != nil && s.exists {
			s.del()
		} else {
			s.put(nil)
		}
	case "empty":
		s.put(emptyOf(s.t))
	default:
		if v := holdingNull(s.t); v != nil {
			s.put(v)
		} else {
			s.put(nil)
		}
	}
	out, err := json.Marshal(root)
	if err != nil {
		return valid, "unmarshalable"
	}
	kind := "scalar"
	switch s.t.Kind() {
	case reflect.Ptr:
		kind = "ptr"
	case reflect.Slice, reflect.Map, reflect.Struct:
		kind = s.t.Kind().String()
	}
	return string(out), variant + "-" + kind + "-" + mode
}

func min(a, b int) int {
	if a < b {
		return a
	}
	return b
}
