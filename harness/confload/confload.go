// Package confload (C13, C14): renders decoded configuration records (wire values, see coq/run/RunC13.v)
// as JSON files for the real BFE loaders.  Rendering choices that the model must not see (null vs omitted
// key, {} vs null for an empty map) are drawn from a PRNG seeded by the "style" integer of the input.
package confload

import (
	"encoding/json"
	"fmt"
	"os"
	"path/filepath"
	"strings"

	"verif/harness/hv"
)

type Style struct{ r *hv.Rng }

func NewStyle(seed int64) *Style { return &Style{hv.NewRng(uint64(seed))} }

func jstr(b []byte) string {
	s, _ := json.Marshal(string(b))
	return string(s)
}

type obj struct {
	sb    strings.Builder
	first bool
}

func newObj() *obj { o := &obj{first: true}; o.sb.WriteByte('{'); return o }
func (o *obj) field(k, v string) {
	if !o.first {
		o.sb.WriteByte(',')
	}
	o.first = false
	o.sb.WriteString(jstr([]byte(k)))
	o.sb.WriteByte(':')
	o.sb.WriteString(v)
}
func (o *obj) String() string { return o.sb.String() + "}" }

// optional field: v == nil means absent (omitted or null)
func (o *obj) opt(st *Style, k string, v *string) {
	if v == nil {
		if st.r.Bool() {
			o.field(k, "null")
		}
		return
	}
	o.field(k, *v)
}

func sp(s string) *string { return &s }

// [] -> nil ; [v] -> &v
func optOf(v hv.Val) (hv.Val, bool) {
	l := hv.AsList(v)
	if len(l) == 0 {
		return nil, false
	}
	return l[0], true
}
func optStr(v hv.Val) *string {
	x, ok := optOf(v)
	if !ok {
		return nil
	}
	return sp(jstr(hv.AsBytes(x)))
}
func optInt(v hv.Val) *string {
	x, ok := optOf(v)
	if !ok {
		return nil
	}
	return sp(hv.String(x))
}
func strList(v hv.Val) string {
	var parts []string
	for _, x := range hv.AsList(v) {
		parts = append(parts, jstr(hv.AsBytes(x)))
	}
	return "[" + strings.Join(parts, ",") + "]"
}

// map rendered from [[key value] ...] with render(value)
func mapOf(v hv.Val, render func(hv.Val) string) string {
	o := newObj()
	for _, e := range hv.AsList(v) {
		kv := hv.AsList(e)
		o.field(string(hv.AsBytes(kv[0])), render(kv[1]))
	}
	return o.String()
}

// host = [ver? default? hosts? tags?] ; hosts? = [] | [[ [tag list?] ...]] ; list? = [] | [[s ...]]
func HostJSON(v hv.Val, st *Style) string {
	f := hv.AsList(v)
	o := newObj()
	o.opt(st, "Version", optStr(f[0]))
	o.opt(st, "DefaultProduct", optStr(f[1]))
	m := func(x hv.Val) *string {
		mv, ok := optOf(x)
		if !ok {
			return nil
		}
		return sp(mapOf(mv, func(l hv.Val) string {
			lv, ok := optOf(l)
			if !ok {
				return "null"
			}
			return strList(lv)
		}))
	}
	o.opt(st, "Hosts", m(f[2]))
	o.opt(st, "HostTags", m(f[3]))
	return o.String()
}

// vip = [ver [[product [[raw canon?] ...]] ...]]
func VipJSON(v hv.Val, st *Style) string {
	f := hv.AsList(v)
	o := newObj()
	ver := hv.AsBytes(f[0])
	if len(ver) > 0 || st.r.Bool() {
		o.field("Version", jstr(ver))
	}
	vips := hv.AsList(f[1])
	if len(vips) > 0 || st.r.Bool() {
		o.field("Vips", mapOf(f[1], func(l hv.Val) string {
			var parts []string
			for _, x := range hv.AsList(l) {
				parts = append(parts, jstr(hv.AsBytes(hv.AsList(x)[0])))
			}
			return "[" + strings.Join(parts, ",") + "]"
		}))
	}
	return o.String()
}

// CondText is the fixed condition table shared with the model: 0 always true, 1 never true, others do not build.
func CondText(k int64) string {
	switch k {
	case 0:
		return "default_t()"
	case 1:
		return "!default_t()"
	case 2:
		return "no_such_primitive(1)"
	case 3:
		return "req_host_in("
	default:
		return ""
	}
}

// route = [ver? basic? adv?] ; basic = [[product [[hosts paths cluster?] ...]] ...] ; adv = [[product [[cond? cluster?] ...]] ...]
func RouteJSON(v hv.Val, st *Style) string {
	f := hv.AsList(v)
	o := newObj()
	o.opt(st, "Version", optStr(f[0]))
	if b, ok := optOf(f[1]); ok {
		o.field("BasicRule", mapOf(b, func(rs hv.Val) string {
			var parts []string
			for _, r := range hv.AsList(rs) {
				rf := hv.AsList(r)
				ro := newObj()
				if hs := hv.AsList(rf[0]); len(hs) > 0 || st.r.Bool() {
					if len(hs) == 0 && st.r.Bool() {
						ro.field("Hostname", "null")
					} else {
						ro.field("Hostname", strList(rf[0]))
					}
				}
				if ps := hv.AsList(rf[1]); len(ps) > 0 || st.r.Bool() {
					ro.field("Path", strList(rf[1]))
				}
				ro.opt(st, "ClusterName", optStr(rf[2]))
				parts = append(parts, ro.String())
			}
			return "[" + strings.Join(parts, ",") + "]"
		}))
	} else if st.r.Bool() {
		o.field("BasicRule", "null")
	}
	if a, ok := optOf(f[2]); ok {
		o.field("ProductRule", mapOf(a, func(rs hv.Val) string {
			var parts []string
			for _, r := range hv.AsList(rs) {
				rf := hv.AsList(r)
				ro := newObj()
				var cond *string
				if c, ok := optOf(rf[0]); ok {
					cond = sp(jstr([]byte(CondText(hv.AsInt(c)))))
				}
				ro.opt(st, "Cond", cond)
				ro.opt(st, "ClusterName", optStr(rf[1]))
				parts = append(parts, ro.String())
			}
			return "[" + strings.Join(parts, ",") + "]"
		}))
	} else if st.r.Bool() {
		o.field("ProductRule", "null")
	}
	return o.String()
}

// sub-structure whose fields are all optional: absent / null / {} when every field is absent
func subStruct(st *Style, o *obj, name string, keys []string, vals []*string) {
	all := true
	for _, v := range vals {
		if v != nil {
			all = false
		}
	}
	if all {
		switch st.r.Intn(4) {
		case 0:
			return
		case 1:
			o.field(name, "null")
			return
		case 2:
			o.field(name, "{}")
			return
		}
	}
	so := newObj()
	for i, k := range keys {
		so.opt(st, k, vals[i])
	}
	o.field(name, so.String())
}

// cluster = [ver? cfg?] ; cfg = [[name [proto? schem? uri? status? succ? hstrat? hheader? balmode?]] ...]
func ClusterJSON(v hv.Val, st *Style) string {
	f := hv.AsList(v)
	o := newObj()
	o.opt(st, "Version", optStr(f[0]))
	var cfg *string
	if c, ok := optOf(f[1]); ok {
		cfg = sp(mapOf(c, func(cc hv.Val) string {
			x := hv.AsList(cc)
			co := newObj()
			subStruct(st, co, "BackendConf", []string{"Protocol"}, []*string{optStr(x[0])})
			subStruct(st, co, "CheckConf", []string{"Schem", "Uri", "StatusCode", "SuccNum"},
				[]*string{optStr(x[1]), optStr(x[2]), optInt(x[3]), optInt(x[4])})
			// GslbBasic { HashConf { HashStrategy HashHeader } BalanceMode }
			hs, hh, bm := optInt(x[5]), optStr(x[6]), optStr(x[7])
			if hs == nil && hh == nil && bm == nil && st.r.Bool() {
				if st.r.Bool() {
					co.field("GslbBasic", "null")
				}
			} else {
				g := newObj()
				subStruct(st, g, "HashConf", []string{"HashStrategy", "HashHeader"}, []*string{hs, hh})
				g.opt(st, "BalanceMode", bm)
				co.field("GslbBasic", g.String())
			}
			if st.r.Bool() {
				co.field("ClusterBasic", "{\"TimeoutReadClient\":30000}")
			}
			return co.String()
		}))
	}
	o.opt(st, "Config", cfg)
	return o.String()
}

// gslb = [clusters? hostname? ts?] ; clusters = [[cluster [[sub weight] ...]] ...]
func GslbJSON(v hv.Val, st *Style) string {
	f := hv.AsList(v)
	o := newObj()
	var cl *string
	if c, ok := optOf(f[0]); ok {
		cl = sp(mapOf(c, func(subs hv.Val) string {
			if len(hv.AsList(subs)) == 0 && st.r.Bool() {
				return "null"
			}
			return mapOf(subs, func(w hv.Val) string { return hv.String(w) })
		}))
	}
	o.opt(st, "Clusters", cl)
	o.opt(st, "Hostname", optStr(f[1]))
	o.opt(st, "Ts", optStr(f[2]))
	return o.String()
}

// ctable = [ver? cfg?] ; cfg = [[cluster [[sub [backend? ...]] ...]] ...] ; backend? = [] (JSON null) | [[name? addr? port? weight?]]
func CtableJSON(v hv.Val, st *Style) string {
	f := hv.AsList(v)
	o := newObj()
	o.opt(st, "Version", optStr(f[0]))
	var cfg *string
	if c, ok := optOf(f[1]); ok {
		cfg = sp(mapOf(c, func(subs hv.Val) string {
			return mapOf(subs, func(bl hv.Val) string {
				var parts []string
				for _, b := range hv.AsList(bl) {
					bv, ok := optOf(b)
					if !ok {
						parts = append(parts, "null")
						continue
					}
					x := hv.AsList(bv)
					bo := newObj()
					bo.opt(st, "Name", optStr(x[0]))
					bo.opt(st, "Addr", optStr(x[1]))
					bo.opt(st, "Port", optInt(x[2]))
					bo.opt(st, "Weight", optInt(x[3]))
					parts = append(parts, bo.String())
				}
				if len(parts) == 0 && st.r.Bool() {
					return "null"
				}
				return "[" + strings.Join(parts, ",") + "]"
			})
		}))
	}
	o.opt(st, "Config", cfg)
	return o.String()
}

// Dir is the scratch directory of this process (under /tmp/w-conf), created by Init and removed by Cleanup.
var Dir string

func Init() {
	Dir = filepath.Join("/tmp/w-conf", fmt.Sprintf("p%d", os.Getpid()))
	if err := os.MkdirAll(Dir, 0755); err != nil {
		panic(err)
	}
}
func Cleanup() {
	if Dir != "" {
		os.RemoveAll(Dir)
	}
	os.Remove("/tmp/w-conf") // only succeeds when empty
}
func WriteFile(name, content string) string {
	p := filepath.Join(Dir, name)
	if err := os.WriteFile(p, []byte(content), 0644); err != nil {
		panic(err)
	}
	return p
}
