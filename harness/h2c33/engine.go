// Package h2c33: scripted HTTP/2 client + channel-driven handler against the real
// bfe_http2.Server.ServeConn over net.Pipe.  Shared by the C33 (inbound flow control) and
// C35 (stream state machine) harness commands.
//
// input  : [ [isw maxStreams] [ step ... ] ]         step = [op a b c d]
//
//	op 1 HEADERS   a=stream id  b=END_STREAM  c=kind (0 POST, 1 no pseudo-headers, 2 HEAD, 3 CONNECT, 4 CONNECT+:path, 5 scheme ftp, 6 no :path, 7 upper-case field name; +10: block split over HEADERS+CONTINUATION)  d=content-length (-1 none)
//	op 2 DATA      a=stream id  b=data octets c=padding (-1: not padded, else pad length 0..255)    d=END_STREAM
//	op 3 RST       a=stream id  b=error code
//	op 4 WINUPD    a=stream id  b=increment (>=1)
//	op 5 SETTINGS  a=INITIAL_WINDOW_SIZE value
//	op 6 handler Read(a=stream id, b=buffer size >= 1)
//	op 7 handler Body.Close(a=stream id)
//	op 8 handler returns (a=stream id)
//	op 9 PUSH_PROMISE a=stream id
//
// output : [ obs_1 ... obs_n final ]   obs_i = sorted list of events seen between the barriers
//
//	[1 sid total]  sum of WINDOW_UPDATE increments for sid (0 = connection) in this step
//	[2 sid code]   RST_STREAM
//	[3 sid v]      response HEADERS, v = 2*status + END_STREAM
//	[4 last code]  GOAWAY
//	[5 0 p]        connection closed by the server (p = serve-loop panics counted by H2PanicConn)
//	[6 sid r]      handler step result: Read n>0 octets -> n; EOF -> 0; would block -> -1; other error -> -2;
//	               no running handler for sid -> -3; Close/return -> 0
//	final = [total serve-loop panics]
//
// After GOAWAY or close the remaining steps are not executed (their obs is []).
// Barrier after every step: two PING round trips (see DESIGN.md 8.2).
package h2c33

import (
	"bytes"
	"io"
	"net"
	"sort"
	"strconv"
	"sync"
	"time"

	"verif/harness/hv"

	"github.com/baidu/go-lib/web-monitor/metrics"
	http "github.com/bfenetworks/bfe/bfe_http"
	"github.com/bfenetworks/bfe/bfe_http2"
	"github.com/bfenetworks/bfe/bfe_http2/hpack"
)

var setupOnce sync.Once
var h2metrics metrics.Metrics

func Setup() {
	setupOnce.Do(func() {
		h2metrics.Init(bfe_http2.GetHttp2State(), "h2", 0)
		bfe_http2.VerifC35Install()
	})
}

type ev struct {
	kind int // 1 WU 2 RST 3 HEADERS 4 GOAWAY 5 EOF 6 handler 100 PINGACK
	sid  int
	val  int
}

type hcmd struct {
	op int // 6 read 7 close 8 finish
	k  int
}

type hctl struct {
	cmd     chan hcmd
	res     chan int
	started chan struct{}
}

type conn struct {
	c        net.Conn
	fr       *bfe_http2.Framer
	henc     *hpack.Encoder
	hbuf     bytes.Buffer
	evs      chan ev
	done     chan struct{}
	mu       sync.Mutex
	handlers map[int]*hctl
	known    map[int]bool // stream ids for which a handler was started
	live     map[int]bool // handler started and stream believed open (no RST either way, no final response)
	running  map[int]bool // handler started and has not returned
	sc       *bfe_http2.VerifC35Conn
	dead     bool
	killed   bool // guarded by mu: command channels of late-registering handlers are created closed
	pingN    uint64
	panics0  int64
	cur      []ev
}

func (cn *conn) ctl(id int) *hctl {
	cn.mu.Lock()
	defer cn.mu.Unlock()
	h := cn.handlers[id]
	if h == nil {
		h = &hctl{cmd: make(chan hcmd), res: make(chan int), started: make(chan struct{})}
		cn.handlers[id] = h
		if cn.killed {
			close(h.cmd)
		}
	}
	return h
}

func (cn *conn) serveHTTP(w http.ResponseWriter, r *http.Request) {
	id := int(r.State.SerialNumber-1)*2 + 1
	h := cn.ctl(id)
	close(h.started)
	buf := make([]byte, 1<<17)
	for c := range h.cmd {
		switch c.op {
		case 6:
			switch bfe_http2.VerifC33BodyReadable(r.Body) {
			case 0:
				h.res <- -1
			default:
				k := c.k
				if k > len(buf) {
					k = len(buf)
				}
				n, err := r.Body.Read(buf[:k])
				switch {
				case n > 0:
					h.res <- n
				case err == io.EOF:
					h.res <- 0
				default:
					h.res <- -2
				}
			}
		case 7:
			r.Body.Close()
			h.res <- 0
		case 8:
			h.res <- 0
			return
		}
	}
}

func (cn *conn) reader() {
	for {
		f, err := cn.fr.ReadFrame()
		if err != nil {
			cn.evs <- ev{kind: 5}
			return
		}
		switch f := f.(type) {
		case *bfe_http2.WindowUpdateFrame:
			cn.evs <- ev{1, int(f.StreamID), int(f.Increment)}
		case *bfe_http2.RSTStreamFrame:
			cn.evs <- ev{2, int(f.StreamID), int(f.ErrCode)}
		case *bfe_http2.MetaHeadersFrame:
			st, _ := strconv.Atoi(f.PseudoValue("status"))
			v := 2 * st
			if f.StreamEnded() {
				v++
			}
			cn.evs <- ev{3, int(f.StreamID), v}
		case *bfe_http2.GoAwayFrame:
			cn.evs <- ev{4, int(f.LastStreamID), int(f.ErrCode)}
		case *bfe_http2.PingFrame:
			if f.IsAck() {
				var n uint64
				for _, b := range f.Data {
					n = n<<8 | uint64(b)
				}
				cn.evs <- ev{100, 0, int(n)}
			}
		}
	}
}

func (cn *conn) panics() int {
	return int(bfe_http2.GetHttp2State().H2PanicConn.Get() - cn.panics0)
}

// note records one received event; returns false when the connection is finished.
func (cn *conn) note(e ev) {
	switch e.kind {
	case 1, 2, 3:
		cn.cur = append(cn.cur, e)
		if e.kind == 2 || (e.kind == 3 && e.val&1 == 1) {
			delete(cn.live, e.sid)
		}
	case 4:
		cn.cur = append(cn.cur, e)
		cn.kill()
	case 5:
		cn.kill()
		cn.cur = append(cn.cur, ev{5, 0, cn.panics()})
	}
}

// kill closes the client side and waits for ServeConn to return.
func (cn *conn) kill() {
	if cn.dead {
		return
	}
	cn.dead = true
	cn.c.Close()
	cn.mu.Lock()
	cn.killed = true
	for _, h := range cn.handlers {
		close(h.cmd)
	}
	cn.mu.Unlock()
	<-cn.done
}

// wait consumes events until pred holds for one of them (that event is consumed too) or the connection dies.
func (cn *conn) wait(pred func(ev) bool) {
	for !cn.dead {
		e := <-cn.evs
		cn.note(e)
		if pred(e) {
			return
		}
	}
}

func (cn *conn) ping() {
	if cn.dead {
		return
	}
	cn.pingN++
	n := cn.pingN
	var d [8]byte
	for i := 0; i < 8; i++ {
		d[7-i] = byte(n >> (8 * uint(i)))
	}
	cn.fr.WritePing(false, d)
	cn.wait(func(e ev) bool { return e.kind == 100 && e.val == int(n) })
}

func (cn *conn) barrier() { cn.ping(); cn.ping() }

func (cn *conn) encHeaders(kind int, clen int) []byte {
	cn.hbuf.Reset()
	w := func(k, v string) { cn.henc.WriteField(hpack.HeaderField{Name: k, Value: v}) }
	switch kind {
	case 0, 7:
		w(":method", "POST")
		w(":scheme", "http")
		w(":path", "/")
		w(":authority", "a")
	case 2:
		w(":method", "HEAD")
		w(":scheme", "http")
		w(":path", "/")
		w(":authority", "a")
	case 3: // CONNECT: :authority only
		w(":method", "CONNECT")
		w(":authority", "a:1")
	case 4: // CONNECT must not carry :path
		w(":method", "CONNECT")
		w(":authority", "a:1")
		w(":path", "/")
	case 5: // unknown scheme
		w(":method", "POST")
		w(":scheme", "ftp")
		w(":path", "/")
	case 6: // :path missing
		w(":method", "POST")
		w(":scheme", "http")
		w(":authority", "a")
	}
	if clen >= 0 {
		w("content-length", strconv.Itoa(clen))
	}
	if kind == 7 {
		w("X-Bad", "1") // upper-case field name: rejected by the server's Framer (readMetaFrame)
	} else {
		w("x-t", "1")
	}
	return append([]byte(nil), cn.hbuf.Bytes()...)
}

var zeros = make([]byte, 1<<21)

func (cn *conn) handlerStep(op, id, k int) int {
	if !cn.running[id] {
		return -3
	}
	h := cn.ctl(id)
	h.cmd <- hcmd{op, k}
	r := <-h.res
	if op == 8 {
		delete(cn.running, id)
	}
	return r
}

func (cn *conn) step(s []int64) {
	op, a, b, c, d := int(s[0]), int(s[1]), int(s[2]), int(s[3]), int(s[4])
	switch op {
	case 1:
		first := !cn.known[a] // no handler was started for this id so far
		frag := cn.encHeaders(c%10, d)
		if c >= 10 && len(frag) >= 2 {
			// same header block split over HEADERS + CONTINUATION
			h := len(frag) / 2
			cn.fr.WriteHeaders(bfe_http2.HeadersFrameParam{StreamID: uint32(a), BlockFragment: frag[:h], EndStream: b != 0, EndHeaders: false})
			cn.fr.WriteContinuation(uint32(a), true, frag[h:])
		} else {
			cn.fr.WriteHeaders(bfe_http2.HeadersFrameParam{StreamID: uint32(a), BlockFragment: frag, EndStream: b != 0, EndHeaders: true})
		}
		cn.barrier()
		if first && !cn.dead {
			rst := false
			for _, e := range cn.cur {
				if e.kind == 2 && e.sid == a {
					rst = true
				}
			}
			if !rst {
				h := cn.ctl(a)
				<-h.started
				cn.known[a] = true
				cn.running[a] = true
				cn.live[a] = true
			}
		}
	case 2:
		if c < 0 {
			cn.fr.WriteData(uint32(a), d != 0, zeros[:b])
		} else {
			cn.fr.WriteDataPadded(uint32(a), d != 0, zeros[:b], zeros[:c])
		}
		cn.barrier()
	case 3:
		cn.fr.WriteRSTStream(uint32(a), bfe_http2.ErrCode(b))
		delete(cn.live, a)
		cn.barrier()
	case 4:
		cn.fr.WriteWindowUpdate(uint32(a), uint32(b))
		cn.barrier()
	case 5:
		cn.fr.WriteSettings(bfe_http2.Setting{ID: bfe_http2.SettingInitialWindowSize, Val: uint32(a)})
		cn.barrier()
	case 6, 7:
		r := cn.handlerStep(op, a, b)
		cn.cur = append(cn.cur, ev{6, a, r})
		cn.barrier()
	case 8:
		r := cn.handlerStep(op, a, 0)
		cn.cur = append(cn.cur, ev{6, a, r})
		if r == 0 && cn.live[a] {
			cn.wait(func(e ev) bool { return (e.kind == 3 && e.val&1 == 1 || e.kind == 2) && e.sid == a })
		}
		cn.barrier()
	case 10:
		if !cn.running[a] || cn.sc == nil {
			cn.cur = append(cn.cur, ev{6, a, -3})
			cn.barrier()
			break
		}
		h := cn.ctl(a)
		r := cn.sc.Race(uint32(a), func() {
			h.cmd <- hcmd{8, 0}
			<-h.res
		}, func() {
			switch b {
			case 3:
				cn.fr.WriteRSTStream(uint32(a), bfe_http2.ErrCode(c))
			case 4:
				cn.fr.WriteWindowUpdate(uint32(c), uint32(d))
			default:
				cn.fr.WriteSettings(bfe_http2.Setting{ID: bfe_http2.SettingInitialWindowSize, Val: uint32(c)})
			}
		})
		delete(cn.running, a)
		delete(cn.live, a)
		if r < 0 {
			r -= 10 // schedule could not be produced: reported as a handler result <= -11
		} else {
			r = 0
		}
		cn.cur = append(cn.cur, ev{6, a, r})
		cn.barrier()
	case 9:
		cn.hbuf.Reset()
		cn.henc.WriteField(hpack.HeaderField{Name: "x-t", Value: "1"})
		cn.fr.WritePushPromise(bfe_http2.PushPromiseParam{StreamID: uint32(a), PromiseID: 2, BlockFragment: append([]byte(nil), cn.hbuf.Bytes()...), EndHeaders: true})
		cn.barrier()
	}
}

func obsVal(es []ev) hv.Val {
	// aggregate WINDOW_UPDATEs per stream, then sort by (kind, sid, val)
	wu := map[int]int{}
	var out []ev
	for _, e := range es {
		if e.kind == 1 {
			wu[e.sid] += e.val
		} else {
			out = append(out, e)
		}
	}
	for sid, t := range wu {
		out = append(out, ev{1, sid, t})
	}
	sort.Slice(out, func(i, j int) bool {
		if out[i].kind != out[j].kind {
			return out[i].kind < out[j].kind
		}
		if out[i].sid != out[j].sid {
			return out[i].sid < out[j].sid
		}
		return out[i].val < out[j].val
	})
	l := make(hv.L, len(out))
	for i, e := range out {
		l[i] = hv.L{hv.I(e.kind), hv.I(e.sid), hv.I(e.val)}
	}
	return l
}

// Run executes one scripted connection.
func Run(in hv.Val) hv.Val {
	Setup()
	top := hv.AsList(in)
	cfg := hv.AsList(top[0])
	isw, maxStreams := hv.AsInt(cfg[0]), hv.AsInt(cfg[1])
	steps := hv.AsList(top[1])

	cEnd, sEnd := net.Pipe()
	cn := &conn{c: cEnd, evs: make(chan ev, 4096), done: make(chan struct{}),
		handlers: map[int]*hctl{}, known: map[int]bool{}, live: map[int]bool{}, running: map[int]bool{}}
	cn.panics0 = bfe_http2.GetHttp2State().H2PanicConn.Get()
	cn.henc = hpack.NewEncoder(&cn.hbuf)
	srv := &bfe_http2.Server{MaxUploadBufferPerStream: uint32(isw), MaxConcurrentStreams: uint32(maxStreams)}
	go func() {
		srv.ServeConn(sEnd, &bfe_http2.ServeConnOpts{
			BaseConfig: &http.Server{ReadTimeout: 10 * time.Second, WriteTimeout: 10 * time.Second},
			Handler:    http.HandlerFunc(cn.serveHTTP),
		})
		close(cn.done)
	}()
	cn.fr = bfe_http2.NewFramer(cEnd, cEnd)
	cn.fr.AllowIllegalWrites = true
	cn.fr.ReadMetaHeaders = hpack.NewDecoder(4096, nil)
	cn.sc = bfe_http2.VerifC35Take()
	go cn.reader()
	io.WriteString(cEnd, bfe_http2.ClientPreface)
	cn.fr.WriteSettings()
	cn.fr.WriteSettingsAck()
	cn.barrier()
	cn.cur = nil

	out := make(hv.L, 0, len(steps)+1)
	for _, sv := range steps {
		if cn.dead {
			out = append(out, hv.L{})
			continue
		}
		l := hv.AsList(sv)
		s := make([]int64, 5)
		for i := 0; i < 5 && i < len(l); i++ {
			s[i] = hv.AsInt(l[i])
		}
		cn.cur = nil
		cn.step(s)
		out = append(out, obsVal(cn.cur))
	}
	cn.kill()
	out = append(out, hv.L{hv.I(cn.panics())})
	return out
}
