#!/usr/bin/env python3
"""Check pipeline shared by every property (bin/check <Cxx> [--tier quick|thorough] [--replay f]).

Steps (DESIGN.md section 4): hygiene -> translators -> coq make + props re-check (Print Assumptions)
-> extraction + OCaml driver -> Go harness built from /repo's working tree (-tags verif, -overlay)
-> implementation observations -> extracted model (all cases) + in-Coq vm_compute (sample)
-> verdict, evidence, replay.
"""
import hashlib
import json
import os
import re
import shutil
import subprocess
import sys
import time

ROOT = os.path.dirname(os.path.dirname(os.path.abspath(__file__)))
REPO = os.environ.get('VERIF_REPO', '/repo')   # VERIF_REPO: run the checks against a scratch worktree (seeded-change testing)
COQ = os.path.join(ROOT, 'coq')
ENV = dict(os.environ, GOFLAGS='-mod=mod', GOPROXY='off', GOSUMDB='off', GOTOOLCHAIN='local',
           CARGO_NET_OFFLINE='true', PIP_NO_INDEX='1')
AXIOM_WHITELIST = {
    'functional_extensionality_dep', 'FunctionalExtensionality.functional_extensionality_dep',
    'proof_irrelevance', 'ProofIrrelevance.proof_irrelevance', 'Eqdep.Eq_rect_eq.eq_rect_eq', 'eq_rect_eq',
    'JMeq_eq', 'JMeq.JMeq_eq', 'classic', 'Classical_Prop.classic',
}
FORBIDDEN = re.compile(r'\b(Admitted|admit|Axiom|Axioms|Parameter|Parameters|Conjecture|Conjectures|Abort All)\b'
                       r'|Admit Obligations|Unset Guard Checking|Unset Positivity Checking|Unset Universe Checking'
                       r'|bypass_check|type-in-type|impredicative-set|native_compute')


def log(*a):
    print(*a, file=sys.stderr, flush=True)


def run(cmd, cwd=None, timeout=1800, stdin=None, env=None):
    t0 = time.time()
    try:
        p = subprocess.run(cmd, cwd=cwd, env=env or ENV, capture_output=True, text=True, timeout=timeout, input=stdin,
                           errors='replace')
        return p.returncode, p.stdout, p.stderr, time.time() - t0
    except subprocess.TimeoutExpired as e:
        out = e.stdout.decode('utf8', 'replace') if isinstance(e.stdout, bytes) else (e.stdout or '')
        err = e.stderr.decode('utf8', 'replace') if isinstance(e.stderr, bytes) else (e.stderr or '')
        return 124, out, err + '\nTIMEOUT after %ss' % timeout, time.time() - t0


# ---------------------------------------------------------------- value syntax
def tokenize(s):
    return re.findall(r'\[|\]|=>|[^\s\[\]]+', s)


def parse_val(toks, k=0):
    t = toks[k]
    if t == '[':
        k += 1
        items = []
        while toks[k] != ']':
            v, k = parse_val(toks, k)
            items.append(v)
        return ('L', items), k + 1
    if t.startswith('x'):
        return ('B', bytes.fromhex(t[1:])), k + 1
    return ('Z', int(t)), k + 1


def parse_val_s(s):
    toks = tokenize(s)
    v, k = parse_val(toks)
    if k != len(toks):
        raise ValueError('trailing tokens: ' + s[:200])
    return v


def show_val(v):
    k, x = v
    if k == 'Z':
        return str(x)
    if k == 'B':
        return 'x' + x.hex()
    return '[' + ' '.join(show_val(i) for i in x) + ']'


def coq_val(v):
    k, x = v
    if k == 'Z':
        return '(VZ %d)' % x if x >= 0 else '(VZ (%d))' % x
    if k == 'B':
        return '(VB [' + ';'.join(str(b) for b in x) + '])'
    return '(VL [' + '; '.join(coq_val(i) for i in x) + '])'


def val_size(v):
    k, x = v
    if k == 'Z':
        return 1 + len(str(abs(x)))
    if k == 'B':
        return 1 + len(x)
    return 1 + sum(val_size(i) for i in x)


def shrink_candidates(v, limit=40):
    """Smaller variants of v, most aggressive first."""
    k, x = v
    out = []
    if k == 'Z':
        if x != 0:
            out += [('Z', 0), ('Z', x // 2 if x > 0 else -((-x) // 2))]
            out.append(('Z', x - 1 if x > 0 else x + 1))
    elif k == 'B':
        n = len(x)
        if n:
            out += [('B', x[:n // 2]), ('B', x[n // 2:]), ('B', x[1:]), ('B', x[:-1])]
            step = max(1, n // limit)
            for i in range(0, n, step):
                out.append(('B', x[:i] + x[i + 1:]))
            for i in range(0, n, step):
                if x[i] != 0:
                    out.append(('B', x[:i] + b'\0' + x[i + 1:]))
    else:
        n = len(x)
        if n:
            if n > 1:
                out += [('L', x[:n // 2]), ('L', x[n // 2:])]
            step = max(1, n // limit)
            for i in range(0, n, step):
                out.append(('L', x[:i] + x[i + 1:]))
            for i in range(0, n, step):
                for c in shrink_candidates(x[i], limit=6)[:6]:
                    out.append(('L', x[:i] + [c] + x[i + 1:]))
    return out


# ---------------------------------------------------------------- the check
class Check:
    def __init__(self, prop, tier, seed):
        self.prop = prop
        self.tier = tier
        self.seed = seed
        self.t0 = time.time()
        self.meta = json.load(open(os.path.join(ROOT, 'props', prop + '.json')))
        self.build = os.path.join(ROOT, 'build', prop)
        os.makedirs(self.build, exist_ok=True)
        os.makedirs(os.path.join(ROOT, 'evidence'), exist_ok=True)
        self.problems = []       # broken theorems / correspondences (strings)
        self.notes = []
        self.runname = 'Run' + prop
        self.harness = self.meta.get('harness', prop.lower())

    # ---- 1. hygiene
    def closure(self):
        """.v files under coq/ that props/Cnn.v and run/RunCnn.v depend on (transitively), by their Require lines."""
        todo = [os.path.join('props', self.prop + '.v'), os.path.join('run', self.runname + '.v')]
        seen = []
        while todo:
            f = todo.pop()
            if f in seen or not os.path.exists(os.path.join(COQ, f)):
                continue
            seen.append(f)
            txt = re.sub(r'\(\*.*?\*\)', '', open(os.path.join(COQ, f), errors='replace').read(), flags=re.S)
            for m in re.finditer(r'(From\s+Bfe\s+)?Require\s+(?:Import\s+|Export\s+)?', txt):
                end = re.search(r'\.(\s|$)', txt[m.end():])
                if not end:
                    continue
                for mod in txt[m.end():m.end() + end.start()].split():
                    if m.group(1):
                        todo.append(mod.replace('.', '/') + '.v')
                    elif mod.startswith('Bfe.'):
                        todo.append(mod[4:].replace('.', '/') + '.v')
        return seen

    def hygiene(self):
        bad = []
        for f in self.closure():
            p = os.path.join(COQ, f)
            txt = open(p, errors='replace').read()
            txt = re.sub(r'\(\*.*?\*\)', '', txt, flags=re.S)
            for m in FORBIDDEN.finditer(txt):
                bad.append('%s: %s' % (os.path.relpath(p, ROOT), m.group(0)))
        if bad:
            self.problems.append('hygiene: forbidden vernacular: ' + '; '.join(bad[:5]))

    # ---- 2. translators
    def translate(self):
        for name in self.meta.get('translators', []):
            d = os.path.join(ROOT, 'tools', 'xlate', name)
            exe = os.path.join(ROOT, 'build', 'xlate_' + name)
            rc, out, err, dt = run(['go', 'build', '-o', exe, '.'], cwd=d, timeout=600)
            if rc != 0:
                self.problems.append('translator %s does not build: %s' % (name, err[-400:]))
                continue
            rc, out, err, dt = run([exe, '-repo', REPO, '-out', os.path.join(COQ, 'gen')], cwd=d, timeout=600)
            if rc != 0:
                self.problems.append('translator %s failed on the current source: %s' % (name, (out + err)[-600:]))

    # ---- 3. proofs
    def coqproject(self):
        files = []
        for sub in ('lib', 'gen', 'model', 'proofs', 'run', 'props'):
            d = os.path.join(COQ, sub)
            if os.path.isdir(d):
                files += sorted(os.path.join(sub, f) for f in os.listdir(d) if f.endswith('.v'))
        want = '-Q . Bfe\n' + '\n'.join(files) + '\n'
        p = os.path.join(COQ, '_CoqProject')
        have = open(p).read() if os.path.exists(p) else ''
        mk = os.path.join(COQ, 'Makefile')
        if have != want or not os.path.exists(mk) or not os.path.exists(mk + '.conf'):
            open(p, 'w').write(want)
            run(['coq_makefile', '-f', '_CoqProject', '-o', 'Makefile'], cwd=COQ)

    def prove(self):
        targets = self.meta.get('coq_targets', ['props/%s.vo' % self.prop, 'run/%s.vo' % self.runname])
        lock = os.path.join(ROOT, 'build', '.coq.lock')
        import fcntl
        with open(lock, 'w') as lf:
            fcntl.flock(lf, fcntl.LOCK_EX)
            self.coqproject()
            rc, out, err, dt = run(['make', '-j16'] + targets, cwd=COQ, timeout=3000)
            fcntl.flock(lf, fcntl.LOCK_UN)
        self.make_s = dt
        self.make_ok = rc == 0
        if rc != 0:
            m = re.search(r'File "([^"]+)", line (\d+).*?\n(Error.*?)(?:\n\n|\Z)', out + err, flags=re.S)
            where = '%s:%s %s' % (m.group(1), m.group(2), ' '.join(m.group(3).split())[:300]) if m else (out + err)[-500:]
            self.problems.append('coq build failed (a proof obligation or model no longer checks): ' + where)
        # re-check the property file itself to capture Print Assumptions
        pv = os.path.join(COQ, 'props', self.prop + '.v')
        src = open(pv).read()
        src_nc = re.sub(r'\(\*.*?\*\)', '', src, flags=re.S)
        self.theorems = re.findall(r'^\s*(?:Theorem|Lemma|Corollary|Example|Proposition|Fact)\s+([A-Za-z0-9_\']+)', src_nc, flags=re.M)
        self.obligations = len(self.theorems)
        self.discharged = 0
        self.assumptions_txt = ''
        self.axioms = []
        if rc == 0:
            os.makedirs(os.path.join(self.build, 'props_check'), exist_ok=True)
            rc2, out2, err2, dt2 = run(['coqc', '-Q', '.', 'Bfe', '-o', os.path.join(self.build, 'props_check', self.prop + '.vo'),
                                        'props/%s.v' % self.prop], cwd=COQ, timeout=1800)
            self.assumptions_txt = out2.strip()
            if rc2 != 0:
                self.problems.append('props/%s.v no longer compiles: %s' % (self.prop, ' '.join(err2.split())[-400:]))
            else:
                closed = len(re.findall(r'Closed under the global context', out2))
                axioms = []
                for blk in re.findall(r'Axioms:\n(.*?)(?=\n\S|\Z)', out2, flags=re.S):
                    for ln in blk.splitlines():
                        m = re.match(r'\s*([A-Za-z0-9_\.\']+)\s*:', ln)
                        if m:
                            axioms.append(m.group(1))
                self.axioms = sorted(set(axioms))
                bad = [a for a in self.axioms if a not in AXIOM_WHITELIST and a.split('.')[-1] not in AXIOM_WHITELIST]
                n_print = len(re.findall(r'Print Assumptions', src_nc))
                if bad:
                    self.problems.append('theorems depend on axioms outside the whitelist: ' + ', '.join(bad))
                elif n_print == 0:
                    self.problems.append('props/%s.v has no Print Assumptions' % self.prop)
                else:
                    self.discharged = self.obligations

    # ---- 3b. thorough tier: independent re-check of the compiled closure with coqchk
    def coqchk(self):
        self.coqchk_txt = ''
        if self.tier != 'thorough' or not self.make_ok:
            return
        rc, out, err, dt = run(['coqchk', '-silent', '-o', '-Q', '.', 'Bfe', 'Bfe.props.' + self.prop], cwd=COQ, timeout=5400)
        self.coqchk_s = dt
        txt = out + err
        m = re.search(r'CONTEXT SUMMARY.*', txt, flags=re.S)
        self.coqchk_txt = ' '.join((m.group(0) if m else txt[-800:]).split())[:1500]
        if rc != 0:
            self.problems.append('coqchk rejected the compiled closure of props/%s.vo: %s' % (self.prop, self.coqchk_txt[-400:]))
            return
        ax = re.search(r'\* Axioms:(.*?)\* Constants/Inductives relying on type-in-type', txt, flags=re.S)
        names = re.findall(r'([A-Za-z_][A-Za-z0-9_\.\']*)', ax.group(1)) if ax else []
        names = [n for n in names if n not in ('none',)]
        bad = [n for n in names if n not in AXIOM_WHITELIST and n.split('.')[-1] not in AXIOM_WHITELIST]
        if bad:
            self.problems.append('coqchk reports axioms outside the whitelist: ' + ', '.join(bad[:10]))
        for sect in ('type-in-type', 'unsafe (co)fixpoints', 'positivity is assumed'):
            mm = re.search(re.escape(sect) + r':\s*(\S+)', txt)
            if mm and mm.group(1) != '<none>':
                self.problems.append('coqchk: %s: %s' % (sect, mm.group(1)))

    # ---- 4. model executable
    def build_model(self):
        b = self.build
        ex = ('From Coq Require Extraction.\nRequire Import ExtrOcamlBasic.\n'
              'From Bfe Require Import lib.Val run.%s.\n'
              'Definition run := run_%s.\nDefinition agree := agree_%s.\nDefinition prop := prop_%s.\nDefinition kf := kf_%s.\n'
              'Extraction "model.ml" run agree prop kf.\n') % (self.runname, self.prop, self.prop, self.prop, self.prop)
        open(os.path.join(b, 'Extract.v'), 'w').write(ex)
        rc, out, err, dt = run(['coqc', '-Q', COQ, 'Bfe', 'Extract.v'], cwd=b, timeout=900)
        if rc != 0:
            self.problems.append('extraction failed: ' + ' '.join((out + err).split())[-400:])
            return False
        src = open(os.path.join(b, 'model.ml'), 'rb').read() + open(os.path.join(ROOT, 'ocaml', 'driver.ml'), 'rb').read()
        h = hashlib.sha1(src).hexdigest()
        stamp = os.path.join(b, 'driver.sha1')
        if os.path.exists(os.path.join(b, 'driver')) and os.path.exists(stamp) and open(stamp).read() == h:
            return True
        shutil.copy(os.path.join(ROOT, 'ocaml', 'driver.ml'), os.path.join(b, 'driver.ml'))
        rc, out, err, dt = run(['ocamlfind', 'ocamlopt', '-O3', '-unboxed-types', '-w', '-a', 'model.mli', 'model.ml', 'driver.ml', '-o', 'driver'], cwd=b, timeout=900)
        if rc != 0:
            rc, out, err, dt = run(['ocamlfind', 'ocamlopt', '-w', '-a', 'model.mli', 'model.ml', 'driver.ml', '-o', 'driver'], cwd=b, timeout=900)
        if rc != 0:
            self.problems.append('ocaml build of the extracted model failed: ' + (out + err)[-400:])
            return False
        open(stamp, 'w').write(h)
        return True

    # ---- 5. harness
    def overlay(self):
        rep = {}
        hooks = os.path.join(ROOT, 'hooks')
        for d, _, fs in os.walk(hooks):
            for f in fs:
                if f.endswith('.go'):
                    rel = os.path.relpath(os.path.join(d, f), hooks)
                    rep[os.path.join(REPO, rel)] = os.path.join(d, f)
        p = os.path.join(self.build, 'overlay.json')
        json.dump({'Replace': rep}, open(p, 'w'), indent=0)
        return p

    def build_harness(self):
        ov = self.overlay()
        hd = os.path.join(ROOT, 'harness')
        if not os.path.exists(os.path.join(hd, 'go.sum')) or True:
            try:
                # keep go.sum a superset of /repo's
                rs = open(os.path.join(REPO, 'go.sum')).read().splitlines()
                hs_p = os.path.join(hd, 'go.sum')
                hs = open(hs_p).read().splitlines() if os.path.exists(hs_p) else []
                merged = sorted(set(rs) | set(hs))
                if merged != hs:
                    open(hs_p, 'w').write('\n'.join(merged) + '\n')
            except Exception:
                pass
        exe = os.path.join(self.build, 'h')
        modflag = []
        if REPO != '/repo':
            alt = os.path.join(self.build, 'alt.mod')
            open(alt, 'w').write(open(os.path.join(hd, 'go.mod')).read().replace('=> /repo', '=> ' + REPO))
            shutil.copy(os.path.join(hd, 'go.sum'), os.path.join(self.build, 'alt.sum'))
            modflag = ['-modfile=' + alt]
        rc, out, err, dt = run(['go', 'build'] + modflag + self.meta.get('go_build_flags', []) + ['-tags', 'verif', '-overlay', ov, '-o', exe, './cmd/' + self.harness], cwd=hd, timeout=1500)
        self.go_build_s = dt
        if rc != 0:
            self.problems.append('harness no longer builds against /repo (correspondence broken): ' + ' '.join((out + err).split())[-600:])
            return None
        return exe

    def run_harness(self, exe, extra=None, out_name='cases.txt', corpus=True):
        out = os.path.join(self.build, out_name)
        cmd = [exe, '-seed', str(self.seed), '-tier', self.tier, '-out', out]
        cdir = os.path.join(ROOT, 'corpus', self.prop)
        if corpus and os.path.isdir(cdir):
            cmd += ['-corpus', cdir]
        if extra:
            cmd += extra
        to = self.meta.get('harness_timeout_s', {}).get(self.tier, 900 if self.tier == 'quick' else 7200)
        hd = os.path.join(ROOT, 'harness')
        rc, o, e, dt = run(cmd, cwd=hd, timeout=to)
        self.harness_s = dt
        if rc != 0:
            self.problems.append('harness run failed (rc=%d): %s' % (rc, ' '.join((o + e).split())[-600:]))
            if not os.path.exists(out):
                return None
        return out

    def run_driver(self, cases_path):
        """Runs the extracted model over a cases file; returns the path of the result file."""
        outp = cases_path + '.model'
        t0 = time.time()
        try:
            with open(cases_path, 'rb') as fi, open(outp, 'wb') as fo:
                p = subprocess.run([os.path.join(self.build, 'driver')], stdin=fi, stdout=fo, stderr=subprocess.PIPE,
                                   timeout=self.meta.get('driver_timeout_s', 7200))
            rc, err = p.returncode, p.stderr.decode('utf8', 'replace')
        except subprocess.TimeoutExpired:
            rc, err = 124, 'TIMEOUT'
        self.driver_s = time.time() - t0
        if rc != 0:
            self.problems.append('model driver failed: ' + err[-400:])
            return None
        return outp

    # ---- 6. in-Coq sample
    def coq_sample(self, ev):
        max_sz = self.meta.get('sample_max_val_size', 6000)
        chosen = []
        for (idx, cls, i, o, r) in ev['sample']:
            try:
                vi, vo, vm = parse_val_s(i), parse_val_s(o), parse_val_s(r[3])
            except Exception:
                continue
            if val_size(vi) + val_size(vo) + val_size(vm) > max_sz:
                continue
            chosen.append((idx, i, r, vi, vo, vm))
        if not chosen:
            self.sample_n = 0
            return
        src = ['From Coq Require Import List ZArith.', 'Import ListNotations.', 'Open Scope Z_scope.',
               'From Bfe Require Import lib.Val run.%s.' % self.runname,
               'Definition cases : list (val * val * val) := [']
        src.append(';\n'.join('  (%s, %s, %s)' % (coq_val(vi), coq_val(vo), coq_val(vm)) for _, _, _, vi, vo, vm in chosen))
        src.append('].')
        src.append('Definition codes := Eval vm_compute in map (fun c => let \'(i, o, m) := c in '
                   'case_code run_%s agree_%s prop_%s kf_%s m (i, o)) cases.' % ((self.prop,) * 4))
        src.append('Print codes.')
        open(os.path.join(self.build, 'Sample.v'), 'w').write('\n'.join(src) + '\n')
        rc, out, err, dt = run(['coqc', '-Q', COQ, 'Bfe', 'Sample.v'], cwd=self.build, timeout=1800)
        self.sample_s = dt
        if rc != 0:
            self.problems.append('in-Coq sample evaluation failed: ' + ' '.join((out + err).split())[-400:])
            self.sample_n = 0
            return
        m = re.search(r'codes\s*=\s*(.*?):\s*list Z', out, flags=re.S)
        nums = [int(x) for x in re.findall(r'-?\d+', m.group(1))] if m else []
        if len(nums) != len(chosen):
            self.machinery('in-Coq sample: could not parse %d results (got %d)' % (len(chosen), len(nums)))
        for (idx, i, r, _, _, _), code in zip(chosen, nums):
            want = r[0] + 2 * r[1] + 4 * r[2]
            if code != want:
                self.machinery('extracted model and in-Coq evaluation disagree on case %d (%s): coq=%d ocaml=%d'
                               % (idx, i[:120], code, want))
        self.sample_n = len(chosen)

    def machinery(self, msg):
        print('MACHINERY-ERROR property=%s %s' % (self.prop, msg))
        sys.exit(3)

    # ---- known findings
    def known_findings(self):
        kf = {}
        import glob
        files = [os.path.join(ROOT, 'KNOWN_FINDINGS.txt')] + sorted(glob.glob(os.path.join(ROOT, 'known_findings', '*.txt')))
        for p in files:
            if not os.path.exists(p):
                continue
            for ln in open(p):
                m = re.match(r'finding:\s+property=(\S+)\s+id=(\d+)\s+(.*)', ln.strip())
                if m and m.group(1) == self.prop:
                    kf[int(m.group(2))] = m.group(3)
        return kf

    # ---- evaluate a cases file, streaming (bounded memory)
    def evaluate(self, cases_path, keep_all=False):
        """Returns a dict: n, classes, distinct, nontriv, disagree_n, propfail_n, and bounded lists of
        (idx, class, input, impl_obs, (agree, prop, kf, model_obs)): disagree, propfail (smallest inputs),
        known (first per finding id), sample (corpus + evenly spaced), firsts (first case per class), all (if keep_all)."""
        mp = self.run_driver(cases_path)
        if mp is None:
            return None
        kfs = self.known_findings()
        n_lines = 0
        with open(cases_path, 'rb') as f:
            for ln in f:
                if ln[:1] not in (b'#', b'\n', b''):
                    n_lines += 1
        k = self.meta.get('sample_size', 120)
        step = max(1, n_lines // k)
        ev = {'n': 0, 'classes': {}, 'disagree_n': 0, 'propfail_n': 0, 'disagree': [], 'propfail': [], 'known': {},
              'sample': [], 'firsts': [], 'all': []}
        distinct, nontriv = set(), set()
        seen_cls = set()
        n_corpus_sample = 0
        gen_i = 0
        with open(cases_path, errors='replace') as fc, open(mp, errors='replace') as fm:
            idx = -1
            for ln in fc:
                ln = ln.rstrip('\n')
                if not ln or ln[0] == '#':
                    continue
                idx += 1
                ml = fm.readline()
                if not ml:
                    self.machinery('driver returned fewer results than cases (%d)' % idx)
                try:
                    cls, rest = ln.split(' ', 1)
                    i, o = rest.split(' => ', 1)
                    a, p, kf, m = ml.rstrip('\n').split(' ', 3)
                    r = (int(a), int(p), int(kf), m)
                except ValueError:
                    self.machinery('malformed case or result line %d: %s | %s' % (idx, ln[:200], ml[:200]))
                rec = (idx, cls, i, o, r)
                is_corpus = cls.startswith('corpus:')
                hk = 'corpus' if is_corpus else cls
                ev['classes'][hk] = ev['classes'].get(hk, 0) + 1
                h = hashlib.sha1(i.encode()).digest()[:10]
                distinct.add(h)
                base = cls.split(':', 1)[-1] if is_corpus else cls
                if not base.startswith('triv'):
                    nontriv.add(h)
                if keep_all:
                    ev['all'].append(rec)
                if is_corpus:
                    if n_corpus_sample < 40:
                        ev['sample'].append(rec)
                        n_corpus_sample += 1
                else:
                    if gen_i % step == 0 and len(ev['sample']) < k + 40:
                        ev['sample'].append(rec)
                    gen_i += 1
                if cls not in seen_cls and len(i) + len(o) < 1500 and len(ev['firsts']) < 8:
                    seen_cls.add(cls)
                    ev['firsts'].append(rec)
                if not r[1]:
                    if r[2] and r[2] in kfs:
                        ev['known'].setdefault(r[2], rec)
                    else:
                        ev['propfail_n'] += 1
                        ev['propfail'].append(rec)
                        if len(ev['propfail']) > 200:
                            ev['propfail'].sort(key=lambda x: len(x[2]))
                            del ev['propfail'][50:]
                if not r[0]:
                    ev['disagree_n'] += 1
                    if len(ev['disagree']) < 50:
                        ev['disagree'].append(rec)
            ev['n'] = idx + 1
        ev['distinct'], ev['nontriv'] = len(distinct), len(nontriv)
        return ev

    def shrink(self, exe, in_s, still_fails):
        """Greedy batch shrinking of a failing input; still_fails(rec)->bool."""
        try:
            cur = parse_val_s(in_s)
        except Exception:
            return in_s
        cdir = os.path.join(self.build, 'shrink')
        for rnd in range(25):
            cands = shrink_candidates(cur)
            seen, uniq = set(), []
            for c in cands:
                s = show_val(c)
                if s not in seen and val_size(c) < val_size(cur):
                    seen.add(s)
                    uniq.append(c)
            if not uniq:
                break
            uniq.sort(key=val_size)
            uniq = uniq[:300]
            shutil.rmtree(cdir, ignore_errors=True)
            os.makedirs(cdir)
            open(os.path.join(cdir, 's.case'), 'w').write(''.join('s %s\n' % show_val(c) for c in uniq))
            out = os.path.join(self.build, 'shrink.txt')
            if os.path.exists(out):
                os.remove(out)
            rc, o, e, dt = run([exe, '-seed', str(self.seed), '-tier', self.tier, '-out', out, '-corpus', cdir, '-n', '0'],
                               cwd=os.path.join(ROOT, 'harness'), timeout=300)
            if rc != 0 or not os.path.exists(out):
                break
            saved = list(self.problems)
            ev = self.evaluate(out, keep_all=True)
            self.problems = saved
            if ev is None or len(ev['all']) != len(uniq):
                break
            nxt = None
            for c, rec in zip(uniq, ev['all']):
                if still_fails(rec):
                    nxt = c
                    break
            if nxt is None:
                break
            cur = nxt
        return show_val(cur)

    # ---- main
    def main(self, replay=None):
        self.hygiene()
        self.translate()
        self.prove()
        self.coqchk()
        model_ok = self.build_model() if self.make_ok else False
        exe = self.build_harness()
        ev = None
        self.sample_n = 0
        if exe and replay:
            rp = json.load(open(replay))
            inp = rp.get('input')
            if not inp:
                print('replay file has no input (kind=%s): broken=%s' % (rp.get('kind'), rp.get('broken')))
                return 1
            out = os.path.join(self.build, 'replay.txt')
            rc, o, e, dt = run([exe, '-replay', inp, '-out', out], cwd=os.path.join(ROOT, 'harness'), timeout=600)
            ev = self.evaluate(out, keep_all=True) if model_ok else None
            if ev and ev['all']:
                (idx, cls, i, o, (a, p, k, m)) = ev['all'][0]
                print('input : %s\nimpl  : %s\nmodel : %s\nagree=%d prop=%d known_finding_id=%d' % (i[:2000], o[:2000], m[:2000], a, p, k))
                return 0 if (a and p) else 1
            return 1
        if exe and model_ok:
            cp = self.run_harness(exe)
            if cp:
                ev = self.evaluate(cp)
        return self.verdict(exe, ev)

    def verdict(self, exe, ev):
        kfs = self.known_findings()
        n = ev['n'] if ev else 0
        if ev:
            self.coq_sample(ev)
            if ev['disagree_n']:
                self.problems.append('correspondence %s: implementation and model differ on %d of %d cases' % (self.harness, ev['disagree_n'], n))
            if n == 0:
                self.problems.append('harness produced no cases')
        violations = 0
        os.makedirs(os.path.join(ROOT, 'replay'), exist_ok=True)
        propfail = ev['propfail'] if ev else []
        if propfail or self.problems:
            violations = max(1, ev['propfail_n'] if ev else 1)
            replay_path = os.path.join(ROOT, 'replay', '%s-%d.json' % (self.prop, self.seed))
            rp = {'property': self.prop, 'seed': self.seed, 'tier': self.tier, 'broken': self.problems,
                  'how_to_replay': './bin/check %s --replay %s' % (self.prop, os.path.relpath(replay_path, ROOT))}
            if propfail:
                rec = min(propfail, key=lambda x: len(x[2]))
                idx, cls, i, o, r = rec
                small = i
                if exe and len(i) > 3:
                    try:
                        small = self.shrink(exe, i, lambda x: (not x[4][1]) and not (x[4][2] and x[4][2] in kfs) and x[4][3] != '[-1 0]' and x[4][0] == r[0])
                    except SystemExit:
                        raise
                    except Exception as ex:  # shrinking is best effort
                        log('shrink failed:', ex)
                rp.update({'kind': 'failing-input', 'input': small, 'original_input': i if small != i else None,
                           'class': cls, 'impl': o, 'model': r[3], 'predicate': 'prop_' + self.prop,
                           'predicate_value': False, 'failing_cases': ev['propfail_n']})
                json.dump(rp, open(replay_path, 'w'), indent=1)
                print('VIOLATION property=%s replay=%s' % (self.prop, replay_path))
            else:
                first = [{'class': x[1], 'input': x[2][:4000], 'impl': x[3][:4000], 'model': x[4][3][:4000]}
                         for x in (ev['disagree'][:5] if ev else [])]
                rp.update({'kind': 'no-failing-input-found', 'disagreeing_cases': first})
                if first:
                    rp['input'] = ev['disagree'][0][2]
                json.dump(rp, open(replay_path, 'w'), indent=1)
                print('VIOLATION property=%s replay=%s no-failing-input-found' % (self.prop, replay_path))
            for pr in self.problems:
                log('  broken: ' + pr)
        if not violations:
            try:
                os.remove(os.path.join(ROOT, 'replay', '%s-%d.json' % (self.prop, self.seed)))
            except OSError:
                pass
        known = ev['known'] if ev else {}
        for k in sorted(known):
            print('KNOWN-FINDING: property=%s id=%d %s' % (self.prop, k, kfs[k]))
        for k in kfs:
            if k not in known and ev:
                log('note: listed finding id=%d of %s did not manifest in this run' % (k, self.prop))
        self.write_evidence(ev, violations)
        return 1 if violations else 0

    def write_evidence(self, ev, violations):
        samples = ['%s %s => %s' % (x[1], x[2], x[3]) for x in (ev['firsts'] if ev else [])]
        if not samples:
            samples = ['(no case was executed: see violations / broken)']
        n = ev['n'] if ev else 0
        m = self.meta
        tb = ['Coq 8.16.1 kernel (coqc) incl. vm_compute; no native_compute',
              'axioms reported by Print Assumptions: ' + (', '.join(self.axioms) if self.axioms else 'none (closed under the global context)'),
              'extraction: Coq Extraction + ExtrOcamlBasic only (bool/option/unit/list/prod/sumbool/sumor, andb/orb inlined); nat/positive/N/Z stay inductive; OCaml 4.13.1',
              'ocaml/driver.ml (hand-written generic line protocol), cross-checked by the in-Coq vm_compute sample',
              'Go harness harness/cmd/%s + hooks injected with go build -tags verif -overlay (generators, canonicalisation)' % self.harness,
              'lib/vpcheck.py (comparison, verdict)'] + m.get('trusted_extra', [])
        evd = {
            'property_id': self.prop, 'tier': self.tier, 'seed': self.seed, 'level': 'proof',
            'coverage': {
                'obligations': self.obligations, 'discharged': self.discharged,
                'checker_cmd': 'make -C coq props/%s.vo (coqc 8.16.1, full .vo) + coqc props/%s.v with Print Assumptions parsed' % (self.prop, self.prop),
                'trusted_base': tb,
                'theorems': self.theorems,
                'print_assumptions': self.assumptions_txt[-1500:],
                'coqchk': getattr(self, 'coqchk_txt', '') or 'not run in this tier (thorough only)',
                'evaluations': n, 'distinct_nontrivial': ev['nontriv'] if ev else 0, 'distinct_inputs': ev['distinct'] if ev else 0,
                'rule': m.get('rule', 'cases from harness/cmd/%s (seeded splitmix64) plus corpus; distinct by sha1 of the input; non-trivial = class label not starting with triv' % self.harness),
                'samples': samples,
                'histogram': ev['classes'] if ev else {},
                'traces_validated_against_impl': n,
                'vm_compute_sample': self.sample_n,
                'known_findings_manifested': sorted(ev['known'].keys()) if ev else [],
                'broken': self.problems,
                'timing_s': {'make': round(getattr(self, 'make_s', 0), 1), 'go_build': round(getattr(self, 'go_build_s', 0), 1),
                             'harness': round(getattr(self, 'harness_s', 0), 1), 'driver': round(getattr(self, 'driver_s', 0), 1),
                             'coq_sample': round(getattr(self, 'sample_s', 0), 1), 'coqchk': round(getattr(self, 'coqchk_s', 0), 1)},
            },
            'assumptions': m.get('assumptions', []),
            'wall_s': round(time.time() - self.t0, 1),
            'violations': violations,
        }
        json.dump(evd, open(os.path.join(ROOT, 'evidence', self.prop + '.json'), 'w'), indent=1)


def setup_all():
    """setup_cmd: clean full build of coq/, then extraction+driver and Go harness for every claimed property."""
    import glob
    from concurrent.futures import ThreadPoolExecutor
    t0 = time.time()
    os.makedirs(os.path.join(ROOT, 'build'), exist_ok=True)
    ids = sorted(os.path.basename(f)[:-5] for f in glob.glob(os.path.join(ROOT, 'props', 'C*.json')))
    c0 = Check(ids[0], 'quick', 1)
    c0.coqproject()
    run(['make', 'clean'], cwd=COQ, timeout=600)
    rc, out, err, dt = run(['make', '-j16'], cwd=COQ, timeout=7200)
    print('coq: full make rc=%d in %.0fs' % (rc, dt))
    if rc != 0:
        print((out + err)[-3000:])
        return 1
    # warm the Go build cache with one build of everything, then per-property artefacts
    ov = c0.overlay()
    rc, out, err, dt = run(['go', 'build', '-tags', 'verif', '-overlay', ov, './...'], cwd=os.path.join(ROOT, 'harness'), timeout=3600)
    print('go: harness build rc=%d in %.0fs' % (rc, dt))
    if rc != 0:
        print((out + err)[-3000:])
    bad = []

    def one(pid):
        c = Check(pid, 'quick', 1)
        c.make_ok = True
        ok = c.build_model()
        exe = c.build_harness()
        if not ok or not exe:
            bad.append((pid, c.problems))
    with ThreadPoolExecutor(max_workers=8) as ex:
        list(ex.map(one, ids))
    for pid, pr in bad:
        print('setup problem', pid, pr)
    print('setup done: %d properties in %.0fs' % (len(ids), time.time() - t0))
    return 1 if bad or rc != 0 else 0


def main(argv):
    import argparse
    if argv and argv[0] == '--setup-all':
        return setup_all()
    ap = argparse.ArgumentParser()
    ap.add_argument('prop')
    ap.add_argument('--tier', default=os.environ.get('VERIF_TIER', 'quick'))
    ap.add_argument('--replay')
    a = ap.parse_args(argv)
    seed = int(os.environ.get('VERIF_SEED', '1') or 1)
    c = Check(a.prop, a.tier if a.tier in ('quick', 'thorough') else 'quick', seed)
    rc = c.main(replay=a.replay)
    if rc == 0 and not a.replay:
        print('OK property=%s tier=%s cases=%s theorems=%d/%d wall=%.1fs' % (a.prop, c.tier, 'n/a' if not hasattr(c, 'harness_s') else 'see evidence', c.discharged, c.obligations, time.time() - c.t0))
    return rc


if __name__ == '__main__':
    sys.exit(main(sys.argv[1:]))
